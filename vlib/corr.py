"""Three-way comparison on a stream of operation lines:
   implementation (harness, sanitizers on)  vs  Lean model (tinsdriver model)  vs  Lean spec oracle
   (tinsdriver spec, fed the implementation's own output)."""
import collections, os, re
from . import core


def split_cases(ops, case_start):
    cases, cur = [], []
    for l in ops:
        if l.split(" ", 1)[0] in case_start and cur:
            cases.append(cur); cur = []
        cur.append(l)
    if cur:
        cases.append(cur)
    return cases


class Outcome:
    def __init__(self):
        self.kind = None      # 'fault' | 'spec' | 'diff'
        self.detail = ""
        self.idx = -1


def evaluate(area, exe, ops, case_start, harness_args=(), oracle=True, model=True, env=None):
    """Returns (impl lines, model lines or None, spec lines or None, faults)."""
    impl, faults = core.run_harness_lines(exe, harness_args, ops, case_start, env=env)
    mod = core.run_driver("model", area, "\n".join(ops) + "\n") if model else None
    spec = None
    if oracle:
        joined = [f"{o} ||| {i}" for o, i in zip(ops, impl)]
        spec = core.run_driver("spec", area, "\n".join(joined) + "\n")
    return impl, mod, spec, faults


def first_problem(ops, impl, mod, spec, impl_view=None, skip_model=None):
    """The problem of a case: the first fault / spec violation of the implementation if there is one
    (a concrete failing input), otherwise the first model/implementation difference."""
    first_diff = None
    for i in range(len(ops)):
        a = impl[i] if i < len(impl) else "MISSING"
        if a == "SKIP":
            continue
        if a.startswith("FAULT") or " EXITFAULT " in a:
            return i, "fault", a
        if spec is not None and i < len(spec) and spec[i].startswith("violates"):
            return i, "spec", spec[i]
        if first_diff is None and mod is not None:
            m = mod[i] if i < len(mod) else "MISSING"
            if skip_model is not None and skip_model(m):
                continue
            av = impl_view(a) if impl_view else a
            if m != av:
                first_diff = (i, "diff", f"impl: {av[:300]} | model: {m[:300]}")
    return first_diff


def shrink_case(area, exe, case, kind, case_start, harness_args=(), budget=150, oracle=True, model=True, env=None,
                impl_view=None, skip_model=None):
    """Greedy delta debugging of one case: drop ops (never the first), keep the failure class."""
    def fails(c):
        impl, mod, spec, _ = evaluate(area, exe, c, case_start, harness_args, oracle, model, env)
        p = first_problem(c, impl, mod, spec, impl_view, skip_model)
        return p is not None and p[1] == kind
    cur = list(case)
    n = 0
    changed = True
    while changed and n < budget:
        changed = False
        i = len(cur) - 1
        while i >= 1 and n < budget:
            cand = cur[:i] + cur[i + 1:]
            n += 1
            if len(cand) >= 1 and fails(cand):
                cur = cand; changed = True
            i -= 1
    return cur


def correspond(chk, area, exe, ops, case_start=("init", "case"), harness_args=(), oracle=True, model=True,
               classify=None, sig_of=None, max_reports=6, env=None, nontrivial=None, impl_view=None, skip_model=None):
    """Run the three-way comparison, record violations on `chk`, update coverage counters.
    `classify(op, impl_line)` -> tag for the input distribution; `sig_of(kind, detail, case)` -> signature dict
    used to match known findings.  Returns dict(spec_violations, faults, diffs)."""
    impl, mod, spec, faults = evaluate(area, exe, ops, case_start, harness_args, oracle, model, env)
    cases = split_cases(ops, case_start)
    stats = collections.Counter()
    dist = chk.extra.setdefault("input_distribution", {})
    seen = chk.extra.setdefault("_seen", set())
    idx = 0
    problems = []
    for case in cases:
        n = len(case)
        sl = slice(idx, idx + n)
        p = first_problem(case, impl[sl], mod[sl] if mod is not None else None, spec[sl] if spec is not None else None,
                          impl_view, skip_model)
        if mod is not None and skip_model is not None:
            stats["unmodelled_lines"] += sum(1 for m in mod[sl] if skip_model(m))
        for j, op in enumerate(case):
            chk.cov["evaluations"] += 1
            tag = classify(op, impl[idx + j]) if classify else op.split(" ", 1)[0]
            dist[tag] = dist.get(tag, 0) + 1
            key = (op, impl[idx + j]) if nontrivial is None else nontrivial(op, impl[idx + j])
            if key is not None and key not in seen:
                seen.add(key)
        if p is not None:
            stats[p[1]] += 1
            problems.append((case, p))
        idx += n
    # concrete failures of the implementation first; bare correspondence differences only when the run (which is
    # the search) reported no *new* failing input (known findings do not count: they must not hide a diff)
    def report(pool):
        # round-robin over (pre-shrink) signatures, smallest cases first, so that a flood of one kind of failure
        # (e.g. a known finding) cannot hide another kind
        groups = {}
        for x in sorted(pool, key=lambda x: len(x[0])):
            case, (i, kind, detail) = x
            try:
                k = str(sorted((sig_of(kind, detail, case[:i + 1]) if sig_of else {"kind": kind}).items()))
            except Exception:
                k = kind
            groups.setdefault(k, []).append(x)
        todo = []
        depth = 0
        while len(todo) < max_reports * 4 and any(len(g) > depth for g in groups.values()):
            for g in groups.values():
                if len(g) > depth:
                    todo.append(g[depth])
            depth += 1
        reported = 0
        sigs = set()
        for case, (i, kind, detail) in todo:
            if reported >= max_reports:
                break
            small = shrink_case(area, exe, case[:i + 1], kind, case_start, harness_args, oracle=oracle, model=model,
                                env=env, impl_view=impl_view, skip_model=skip_model)
            si, sm, ss, _ = evaluate(area, exe, small, case_start, harness_args, oracle, model, env)
            sp = first_problem(small, si, sm, ss, impl_view, skip_model) or (len(small) - 1, kind, detail)
            sig = sig_of(sp[1], sp[2], small) if sig_of else {"kind": sp[1]}
            sk = str(sorted(sig.items()))
            if sk in sigs:
                continue
            sigs.add(sk)
            what = {"fault": "implementation memory/UB fault", "spec": "implementation violates the spec oracle",
                    "diff": "model/implementation correspondence differs"}[sp[1]] + f" [{area}]: {sp[2][:400]}"
            lines = list(small) + ["# impl:  " + x for x in si] + \
                    (["# model: " + x for x in sm] if sm else []) + (["# spec:  " + x for x in ss] if ss else [])
            if chk.violation(what, lines, nofail=(sp[1] == "diff"), signature=sig):
                reported += 1
        return reported

    new_reports = report([x for x in problems if x[1][1] != "diff"])
    if new_reports == 0:
        report([x for x in problems if x[1][1] == "diff"])
    if len(chk.cov["samples"]) < 6 and ops:
        chk.cov["samples"].append({"op": ops[min(3, len(ops) - 1)][:200], "impl": impl[min(3, len(impl) - 1)][:200]})
    chk.cov["traces_validated_against_impl"] = chk.cov.get("traces_validated_against_impl", 0) + len(cases)
    chk.cov["distinct_nontrivial"] = len(seen)
    return stats


def finalize_cov(chk):
    chk.extra.pop("_seen", None)
