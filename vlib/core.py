"""Shared machinery for every check: build cache, lake, audit, harness runs, verdicts, evidence.

Everything a registered command needs lives under /verif (work dir: /verif/.work, git-ignored).
"""
import fcntl, glob, hashlib, json, os, re, shutil, subprocess, sys, time
from concurrent.futures import ThreadPoolExecutor

VERIF = os.path.dirname(os.path.dirname(os.path.abspath(__file__)))
REPO = os.environ.get("VERIF_REPO", "/repo")
WORK = os.path.join(VERIF, ".work")
LEAN = os.path.join(VERIF, "lean")
GUARD = "TINS_VERIF_HOOKS"
NCPU = os.cpu_count() or 4
STD_AXIOMS = {"propext", "Classical.choice", "Quot.sound"}

SAN_FLAGS = {
    # enum: loads of out-of-range values into libtins' option-type enums (every TLV parser stores the wire code in an
    # enum-typed field) are excluded — see DESIGN.md "UB scope"; everything else of UBSan is on.
    "asan": ["-O1", "-g", "-fsanitize=address,undefined", "-fno-sanitize=enum", "-fno-sanitize-recover=undefined",
             "-fno-omit-frame-pointer"],
    # same with the enum check on (used where an out-of-range enum load is itself a recorded finding, e.g. KF-C10-1)
    "asan_enum": ["-O1", "-g", "-fsanitize=address,undefined", "-fno-sanitize-recover=undefined",
                  "-fno-omit-frame-pointer"],
    "tsan": ["-O1", "-g", "-fsanitize=thread"],
    "plain": ["-O1", "-g"],
}
LINK_LIBS = ["-lpcap", "-lcrypto", "-lpthread"]


def log(*a):
    print("[verif]", *a, file=sys.stderr, flush=True)


class Lock:
    def __init__(self, name):
        os.makedirs(os.path.join(WORK, "locks"), exist_ok=True)
        self.path = os.path.join(WORK, "locks", name)

    def __enter__(self):
        self.f = open(self.path, "w")
        fcntl.flock(self.f, fcntl.LOCK_EX)
        return self

    def __exit__(self, *a):
        fcntl.flock(self.f, fcntl.LOCK_UN)
        self.f.close()


def repo_sources():
    srcs = sorted(glob.glob(os.path.join(REPO, "src", "**", "*.cpp"), recursive=True))
    return srcs


def repo_hash():
    h = hashlib.sha256()
    files = sorted(glob.glob(os.path.join(REPO, "src", "**", "*"), recursive=True) +
                   glob.glob(os.path.join(REPO, "include", "**", "*"), recursive=True))
    for f in files:
        if os.path.isfile(f):
            h.update(f.encode())
            with open(f, "rb") as fh:
                h.update(fh.read())
    return h.hexdigest()[:16]


def _run(cmd, **kw):
    return subprocess.run(cmd, stdout=subprocess.PIPE, stderr=subprocess.PIPE, text=True, **kw)


def build_impl(san="asan"):
    """Compile every libtins source of /repo's working tree (hooks on) into a static library.
    Cached per content hash of include/ + src/.  Returns (libpath, None) or (None, error text)."""
    hh = repo_hash() + hashlib.md5(" ".join(SAN_FLAGS[san]).encode()).hexdigest()[:4]
    bdir = os.path.join(WORK, "build", f"{hh}-{san}")
    lib = os.path.join(bdir, "libtins_verif.a")
    with Lock(f"build-{san}"):
        if os.path.exists(lib):
            return lib, None
        # drop older caches of the same sanitizer kind (disk is limited)
        for old in glob.glob(os.path.join(WORK, "build", f"*-{san}")):
            # only stale ones: a concurrent check may still be using a cache built minutes ago
            if old != bdir and time.time() - os.path.getmtime(old) > 3 * 3600:
                shutil.rmtree(old, ignore_errors=True)
        os.makedirs(bdir, exist_ok=True)
        t0 = time.time()
        srcs = repo_sources()
        flags = ["-std=c++11", f"-D{GUARD}", "-I" + os.path.join(REPO, "include"), "-w"] + SAN_FLAGS[san]

        def cc(src):
            obj = os.path.join(bdir, hashlib.md5(src.encode()).hexdigest()[:8] + "_" +
                               os.path.basename(src)[:-4] + ".o")
            r = _run(["g++"] + flags + ["-c", src, "-o", obj])
            return src, obj, r

        errs, objs = [], []
        with ThreadPoolExecutor(NCPU) as ex:
            for src, obj, r in ex.map(cc, srcs):
                if r.returncode != 0:
                    errs.append(f"{src}:\n{r.stderr[-3000:]}")
                objs.append(obj)
        if errs:
            shutil.rmtree(bdir, ignore_errors=True)
            return None, "\n".join(errs)
        r = _run(["ar", "rcs", lib + ".tmp"] + objs)
        if r.returncode != 0:
            return None, r.stderr
        os.rename(lib + ".tmp", lib)
        for o in objs:
            os.remove(o)
        log(f"built libtins ({san}) from working tree in {time.time()-t0:.1f}s -> {lib}")
        return lib, None


def build_harness(name, san="asan", extra=()):
    """Compile harness/<name>.cpp against the current libtins build."""
    lib, err = build_impl(san)
    if lib is None:
        return None, err
    src = os.path.join(VERIF, "harness", name + ".cpp")
    hh = hashlib.sha256()
    for f in [src] + sorted(glob.glob(os.path.join(VERIF, "harness", "*.h"))):
        hh.update(open(f, "rb").read())
    hh.update(os.path.dirname(lib).encode())
    exe = os.path.join(os.path.dirname(lib), f"{name}-{hh.hexdigest()[:10]}")
    with Lock(f"harness-{name}-{san}"):
        if os.path.exists(exe):
            return exe, None
        flags = ["-std=c++11", f"-D{GUARD}", "-I" + os.path.join(REPO, "include"),
                 "-I" + os.path.join(REPO, "src"), "-I" + os.path.join(VERIF, "harness"), "-w"] + SAN_FLAGS[san]
        r = _run(["g++"] + flags + list(extra) + [src, lib, "-o", exe + ".tmp"] + LINK_LIBS)
        if r.returncode != 0:
            return None, r.stderr[-6000:]
        os.rename(exe + ".tmp", exe)
        return exe, None


# ----------------------------------------------------------------------------- Lean side

def lake(args, timeout=3000):
    with Lock("lake"):
        r = _run(["lake"] + args, cwd=LEAN, timeout=timeout)
    return r


_PRIVATE_DRIVER = None


def lake_build(targets):
    """Build the given Lean modules / targets.  Returns (ok, text).
    While the lake lock is still held the freshly linked tinsdriver is copied to a path private to this process:
    a concurrent check's `lake build` may re-link (unlink + create) the shared binary while we are running it."""
    global _PRIVATE_DRIVER
    with Lock("lake"):
        r = _run(["lake", "build"] + list(targets), cwd=LEAN, timeout=3000)
        shared = os.path.join(LEAN, ".lake", "build", "bin", "tinsdriver")
        if r.returncode == 0 and os.path.exists(shared):
            d = os.path.join(WORK, "bin")
            os.makedirs(d, exist_ok=True)
            for old in glob.glob(os.path.join(d, "tinsdriver.*")):
                if time.time() - os.path.getmtime(old) > 6 * 3600:
                    try:
                        os.remove(old)
                    except OSError:
                        pass
            priv = os.path.join(d, f"tinsdriver.{os.getpid()}")
            shutil.copy2(shared, priv)
            _PRIVATE_DRIVER = priv
    return r.returncode == 0, (r.stdout + r.stderr)


def driver_path():
    if _PRIVATE_DRIVER and os.path.exists(_PRIVATE_DRIVER):
        return _PRIVATE_DRIVER
    return os.path.join(LEAN, ".lake", "build", "bin", "tinsdriver")


def run_driver(mode, area, text, timeout=3000):
    r = subprocess.run([driver_path(), mode, area], input=text, stdout=subprocess.PIPE,
                       stderr=subprocess.PIPE, text=True, timeout=timeout)
    if r.returncode != 0:
        raise RuntimeError(f"tinsdriver {mode} {area} failed: {r.stderr[-2000:]}")
    return r.stdout.split("\n")[:-1] if r.stdout.endswith("\n") else r.stdout.split("\n")


FORBIDDEN = re.compile(r"\bsorry\b|\badmit\b|^\s*axiom\s|native_decide|bv_decide|implemented_by|\bunsafe\s|maxHeartbeats\s+0\b")


def strip_lean_comments(src):
    out, i, depth, n = [], 0, 0, len(src)
    while i < n:
        if src.startswith("/-", i):
            depth += 1; i += 2; continue
        if depth and src.startswith("-/", i):
            depth -= 1; i += 2; continue
        if depth:
            if src[i] == "\n":
                out.append("\n")
            i += 1; continue
        if src.startswith("--", i):
            while i < n and src[i] != "\n":
                i += 1
            continue
        out.append(src[i]); i += 1
    return "".join(out)


def grep_forbidden(paths=None):
    """Forbidden tokens outside comments in the Lean sources (the Driver may be `partial`, nothing else)."""
    hits = []
    files = paths or (glob.glob(os.path.join(LEAN, "TinsModel", "**", "*.lean"), recursive=True) +
                      glob.glob(os.path.join(LEAN, "Audit", "*.lean")))
    for f in files:
        body = strip_lean_comments(open(f).read())
        for ln, line in enumerate(body.split("\n"), 1):
            if FORBIDDEN.search(line):
                hits.append(f"{os.path.relpath(f, VERIF)}:{ln}: {line.strip()[:120]}")
    return hits


def audit_axioms(audit_module_file):
    """Run `#print axioms` file; returns (theorems: {name: [axioms]}, error text or None)."""
    r = lake(["env", "lean", audit_module_file])
    text = r.stdout + r.stderr
    if r.returncode != 0:
        return {}, text
    thms = {}
    # the name may itself end in primes (foo'), so take everything up to the LAST quote before the verdict on that line
    for m in re.finditer(r"^'(.+)' (does not depend on any axioms|depends on axioms: \[([^\]]*)\])", text, re.M):
        axs = [a.strip() for a in (m.group(3) or "").replace("\n", " ").split(",") if a.strip()]
        thms[m.group(1)] = axs
    return thms, None


def leanchecker(module):
    r = lake(["env", "leanchecker", module], timeout=3000)
    return r.returncode == 0, (r.stdout + r.stderr)[-2000:]


# ----------------------------------------------------------------------------- harness runs

STALL_S = float(os.environ.get("VERIF_STALL_S", "45"))
MAX_HANGS = int(os.environ.get("VERIF_MAX_HANGS", "3"))    # per check run: after that many hangs the remaining ops are skipped
HANGS = [0]


class _Watched:
    def __init__(self, returncode, stdout, stderr, hung):
        self.returncode, self.stdout, self.stderr, self.hung = returncode, stdout, stderr, hung


def _run_watched(cmd, input_text, timeout, env):
    """run a line-protocol process with stdin/stdout/stderr on temp files and kill it when its output has not grown for
    STALL_S seconds (a hang in the implementation must become a finding, not a stuck check)"""
    import tempfile
    with tempfile.TemporaryDirectory(dir=WORK if os.path.isdir(WORK) else None) as d:
        fi, fo, fe = os.path.join(d, "in"), os.path.join(d, "out"), os.path.join(d, "err")
        with open(fi, "w") as f:
            f.write(input_text)
        with open(fi) as si, open(fo, "w") as so, open(fe, "w") as se:
            p = subprocess.Popen(cmd, stdin=si, stdout=so, stderr=se, env=env)
            t0 = last = time.time()
            size = -1
            hung = False
            while p.poll() is None:
                time.sleep(0.05 if time.time() - t0 < 2 else 0.5)
                sz = os.path.getsize(fo)
                now = time.time()
                if sz != size:
                    size, last = sz, now
                elif now - last > STALL_S or now - t0 > timeout:
                    hung = True
                    p.kill()
                    p.wait()
                    break
        out = open(fo, errors="replace").read()
        err = open(fe, errors="replace").read()
        return _Watched(p.returncode, out, err, hung)


def run_harness_lines(exe, args, ops, case_start=("init", "case"), timeout=3000, env=None):
    """Feed `ops` (list of lines) to the harness; one result line per op expected.
    A crash (sanitizer abort / signal) is mapped to `FAULT <summary>` on the op that was executing;
    the rest of that case is `SKIP` and the run resumes at the next case start."""
    results, faults = [], []
    i, n = 0, len(ops)
    e = dict(os.environ)
    e.setdefault("ASAN_OPTIONS", "detect_leaks=1:abort_on_error=0:exitcode=99:allocator_may_return_null=1")
    e.setdefault("UBSAN_OPTIONS", "print_stacktrace=1:halt_on_error=1:exitcode=98")
    if env:
        e.update(env)
    while i < n:
        chunk = ops[i:]
        if HANGS[0] >= MAX_HANGS:
            # an implementation that hangs on input after input would keep the check busy for hours: the hangs already
            # recorded are violations with replays; the rest of this stream is not run
            results += ["SKIP"] * len(chunk)
            break
        r = _run_watched([exe] + list(args), "\n".join(chunk) + "\n", timeout, e)
        out = r.stdout.split("\n")
        if out and out[-1] == "":
            out.pop()
        if r.hung:
            # the harness answers every op with one flushed line: no new line for STALL_S seconds means the operation in
            # flight does not terminate (or is absurdly slow) - "after a bounded number of steps" is part of the properties
            out = out[:len(chunk) - 1] if len(out) >= len(chunk) else out
            k = len(out)
            results += out
            HANGS[0] += 1
            faults.append((i + k, "hang", f"no answer for {STALL_S}s on: {chunk[k][:300]}"))
            results.append("FAULT hang")
            j = i + k + 1
            while j < n and not ops[j].split(" ", 1)[0] in case_start:
                results.append("SKIP")
                j += 1
            i = j
            continue
        if r.returncode == 0 and len(out) == len(chunk):
            results += out
            break
        if len(out) >= len(chunk):
            # all ops answered but exit status non-zero: leak report or late failure
            results += out[:len(chunk)]
            faults.append((n - 1, summarize_sanitizer(r.stderr), r.stderr[-4000:]))
            results[-1] = results[-1] + " EXITFAULT " + summarize_sanitizer(r.stderr)
            break
        k = len(out)
        results += out
        summ = summarize_sanitizer(r.stderr) or f"exit{r.returncode}"
        faults.append((i + k, summ, r.stderr[-4000:]))
        results.append("FAULT " + summ)
        j = i + k + 1
        while j < n and not ops[j].split(" ", 1)[0] in case_start:
            results.append("SKIP")
            j += 1
        i = j
    return results, faults


def summarize_sanitizer(stderr):
    m = re.search(r"ERROR: (AddressSanitizer|LeakSanitizer|ThreadSanitizer): ([a-zA-Z\-_ ]+)", stderr)
    kind = None
    if m:
        kind = m.group(2).strip().split(" on ")[0].replace(" ", "-")
    else:
        m2 = re.search(r"runtime error: ([^\n]+)", stderr)
        if m2:
            kind = "ubsan:" + re.sub(r"0x[0-9a-f]+", "ADDR", m2.group(1))[:60].replace(" ", "_")
        elif "WARNING: ThreadSanitizer: data race" in stderr:
            kind = "data-race"
    if kind is None:
        return ""
    fn = ""
    for fm in re.finditer(r"#\d+ 0x[0-9a-f]+ in ([^\n]+?) (/[^\n:]+):(\d+)", stderr):
        if "/repo/" in fm.group(2):
            fn = re.sub(r"\(.*", "", fm.group(1)).strip()
            break
    return f"{kind}@{fn}" if fn else kind


# ----------------------------------------------------------------------------- verdicts

def load_known():
    out = []
    for p in [os.path.join(VERIF, "known_findings.jsonl")] + sorted(glob.glob(os.path.join(VERIF, "known_findings.d", "*.jsonl"))):
        if not os.path.exists(p):
            continue
        for l in open(p):
            l = l.strip()
            if l and not l.startswith("#"):
                out.append(json.loads(l))
    return out


class Check:
    """Bookkeeping of one run of one property check."""

    def __init__(self, pid, tier, seed, fresh=True):
        self.pid, self.tier, self.seed = pid, tier, seed
        self.t0 = time.time()
        self.violations = []          # (replay path, text)
        self.known_hits = {}          # finding id -> text
        self.obligations = 0
        self.discharged = 0
        self.theorems = {}
        self.trusted = []
        self.assumptions = []
        self.cov = {"evaluations": 0, "distinct_nontrivial": 0, "samples": [], "rule": ""}
        self.extra = {}
        self.known = [k for k in load_known() if k.get("property") == pid and k.get("status") == "known"]
        # VERIF_EVIDENCE_DIR / VERIF_REPLAY_DIR: used when the machinery itself is tested against a seeded change
        # (VERIF_REPO pointing at a scratch worktree) so that the committed evidence is not overwritten
        self.evidence_dir = os.environ.get("VERIF_EVIDENCE_DIR", os.path.join(VERIF, "evidence"))
        self.replay_dir = os.environ.get("VERIF_REPLAY_DIR", os.path.join(VERIF, "replays"))
        os.makedirs(self.replay_dir, exist_ok=True)
        os.makedirs(self.evidence_dir, exist_ok=True)
        for old in (glob.glob(os.path.join(self.replay_dir, pid + "-*.replay")) if fresh else []):   # replays of earlier runs of this check
            try:
                os.remove(old)
            except OSError:
                pass

    # -- reporting
    def violation(self, what, replay_lines, nofail=False, signature=None):
        """Record a violation unless its signature matches a listed known finding."""
        sig = signature or {}
        for k in self.known:
            ks = k.get("signature", {})
            if ks and all(sig.get(a) == b for a, b in ks.items()):
                self.known_hits.setdefault(k["id"], k.get("what", what))
                return False
        body = "\n".join(replay_lines) + "\n"
        name = f"{self.pid}-{hashlib.sha1((what + body).encode()).hexdigest()[:10]}.replay"
        path = os.path.join(self.replay_dir, name)
        with open(path, "w") as f:
            f.write(f"# property={self.pid} tier={self.tier} seed={self.seed}\n# {what}\n")
            if sig:
                f.write("# signature=" + json.dumps(sig, sort_keys=True) + "\n")
            f.write(body)
        self.violations.append((path, what, nofail))
        return True

    # -- the Lean side: build theorem modules, audit axioms, forbid tokens
    def prove(self, modules, audit_file, allowed_extra_axioms=(), want_leanchecker=False):
        ok, text = lake_build(modules + ["tinsdriver"])
        hits = grep_forbidden()
        thms, err = ({}, "not run")
        audit_files = [audit_file] if isinstance(audit_file, str) else list(audit_file)
        if ok:
            thms, err = {}, None
            n_parsed = 0            # audit entries, counted per file (the same short name may be audited in two files)
            for af in audit_files:
                t, e = audit_axioms(af)
                n_parsed += len(t)
                thms.update({(k if k not in thms else f"{k} [{os.path.basename(af)}]"): v for k, v in t.items()})
                if e:
                    err = (err or "") + f"{af}: {e}\n"
        self.theorems = thms
        self.obligations = max(len(thms), sum(self._count_expected(af) for af in audit_files))
        bad = []
        for name, axs in thms.items():
            extra = [a for a in axs if a not in STD_AXIOMS and a not in allowed_extra_axioms]
            if extra:
                bad.append(f"{name}: non-standard axioms {extra}")
        self.discharged = len(thms) - len(bad) if ok and not err else 0
        problems = []
        if not ok:
            problems.append("lake build failed:\n" + text[-3000:])
        elif err:
            problems.append("axiom audit failed:\n" + err[-3000:])
        if hits:
            problems.append("forbidden tokens: " + "; ".join(hits[:10]))
            self.discharged = 0
        problems += bad
        if ok and not err and want_leanchecker:
            for m in modules:
                okc, t = leanchecker(m)
                if not okc:
                    problems.append(f"leanchecker {m}: {t}")
        self.proof_problems = getattr(self, "proof_problems", []) + problems
        axs = sorted({a for v in thms.values() for a in v})
        self.trusted += [f"Lean 4 kernel ({subprocess.run(['lean','--version'],stdout=subprocess.PIPE,text=True).stdout.strip()[:40]})",
                         "axioms used by the property theorems: " + (", ".join(axs) if axs else "none")]
        return problems

    def _count_expected(self, audit_file):
        try:
            return len(re.findall(r"^#print axioms", open(os.path.join(LEAN, audit_file)).read(), re.M))
        except OSError:
            return 0

    def finish(self, level="proof", checker_cmd=""):
        # A theorem / audit that no longer checks is a violation unless this run exhibited a NEW concrete failing
        # input (known findings do not count: they are observed on the unchanged tree as well).
        pp = getattr(self, "proof_problems", [])
        if pp and not any(not nofail for _, _, nofail in self.violations) and \
                not any(w.startswith("proof obligation") for _, w, _ in self.violations):
            self.violation("proof obligation no longer checks: " + pp[0][:1500],
                           ["theorem-or-audit-failure"] + [x[:4000] for x in pp], nofail=True)
        wall = time.time() - self.t0
        for kid, what in sorted(self.known_hits.items()):
            print(f"KNOWN-FINDING: property={self.pid} {kid} {what}")
        for path, what, nofail in self.violations:
            tail = " no-failing-input-found" if nofail else ""
            print(f"VIOLATION property={self.pid} replay={path}{tail}")
            log("  ", what)
        cov = dict(self.cov)
        cov["samples"] = cov["samples"][:8] or ["(none)"]
        cov.update({
            "obligations": self.obligations, "discharged": self.discharged,
            "checker_cmd": checker_cmd or self.extra.pop("checker_cmd", None) or f"cd /verif/lean && lake build TinsModel.Props.{self.pid} && lake env lean Audit/{self.pid}.lean",
            "trusted_base": self.trusted,
            "theorems": {k: v for k, v in sorted(self.theorems.items())},
            "known_findings_hit": sorted(self.known_hits),
        })
        cov.update(self.extra)
        ev = {"property_id": self.pid, "tier": self.tier, "seed": self.seed, "level": level,
              "coverage": cov, "assumptions": self.assumptions, "wall_s": round(wall, 2),
              "violations": len(self.violations)}
        with open(os.path.join(self.evidence_dir, self.pid + ".json"), "w") as f:
            json.dump(ev, f, indent=1, sort_keys=True)
            f.write("\n")
        log(f"{self.pid} {self.tier}: obligations {self.discharged}/{self.obligations}, "
            f"evaluations {cov['evaluations']}, violations {len(self.violations)}, "
            f"known {len(self.known_hits)}, {wall:.1f}s")
        return 1 if self.violations else 0


def diff_streams(ops, impl, model):
    """Indices where implementation and model lines differ (SKIP lines ignored)."""
    out = []
    for i, (a, b) in enumerate(zip(impl, model)):
        if a == "SKIP":
            continue
        if a != b:
            out.append(i)
    if len(impl) != len(model):
        out.append(min(len(impl), len(model)))
    return out


def case_of(ops, idx, case_start=("init", "case")):
    """The operation lines of the case containing op `idx`, up to and including it."""
    s = idx
    while s > 0 and ops[s].split(" ", 1)[0] not in case_start:
        s -= 1
    return s, ops[s:idx + 1]
