"""Change-directed intensification: which source files of /repo differ (comments and white space aside) from the tree
the framework was last validated against, and which properties are anchored in them.

`translator/baseline_fingerprints.json` holds one hash per file of src/**/*.cpp and include/**/*.h of the validated tree
(`python3 -m vlib.fingerprint --update` rewrites it; done after every `fix:` commit in /repo).  A check whose anchored
files changed spends its quick tier on several seeds instead of one (check.py): the verdict logic is unchanged — more of
the same correspondence / oracle runs — so nothing is reported that a run at another VERIF_SEED would not report as well.
"""
import glob, hashlib, json, os, re, subprocess, sys

from . import core

BASELINE = os.path.join(core.VERIF, "translator", "baseline_fingerprints.json")

# files every layer depends on: a change here concerns every property that handles packets
CORE_STEMS = {"pdu", "memory_helpers", "pdu_option", "endianness", "small_uint", "macros", "exceptions", "constants",
              "internals", "pdu_helpers", "type_traits", "smart_ptr", "cxxstd", "pdu_allocator", "rawpdu", "utils", "tins",
              "pdu_iterator", "pdu_utils"}
PACKET_PROPS = {"C01", "C02", "C03", "C04", "C05", "C12", "C13", "C14", "C15", "C17", "C18"}


def _strip(src):
    """comments out, white space collapsed: a re-indented or re-commented file keeps its fingerprint"""
    out, i, n = [], 0, len(src)
    while i < n:
        c = src[i]
        if c == '"' or c == "'":
            j = i + 1
            while j < n and src[j] != c:
                j += 2 if src[j] == "\\" else 1
            out.append(src[i:j + 1]); i = j + 1
        elif src.startswith("//", i):
            j = src.find("\n", i); i = n if j < 0 else j
        elif src.startswith("/*", i):
            j = src.find("*/", i + 2); i = n if j < 0 else j + 2
            out.append(" ")
        else:
            out.append(c); i += 1
    return re.sub(r"\s+", " ", "".join(out)).strip()


def files(repo=None):
    repo = repo or core.REPO
    fs = glob.glob(os.path.join(repo, "src", "**", "*.cpp"), recursive=True) + \
        glob.glob(os.path.join(repo, "include", "**", "*.h"), recursive=True)
    return sorted(os.path.relpath(f, repo) for f in fs if not f.endswith("include/tins/config.h"))


def current(repo=None):
    repo = repo or core.REPO
    out = {}
    for f in files(repo):
        with open(os.path.join(repo, f), errors="replace") as fh:
            out[f] = hashlib.sha256(_strip(fh.read()).encode()).hexdigest()[:16]
    return out


def changed_files(repo=None):
    """files added, removed or changed with respect to the baseline (None when there is no baseline)"""
    try:
        base = json.load(open(BASELINE))["files"]
    except (OSError, ValueError, KeyError):
        return None
    cur = current(repo)
    return sorted(f for f in set(base) | set(cur) if base.get(f) != cur.get(f))


def _stem(f):
    return os.path.splitext(os.path.basename(f))[0]


def anchors():
    out = {}
    for l in open(os.path.join(core.VERIF, "properties.jsonl")):
        p = json.loads(l)
        out[p["id"]] = {_stem(f) for f in p.get("anchors", {}).get("files", [])}
    return out


def concerns(pid, changed):
    """does a change of these files concern property `pid`?  By file stem (ip.h <-> ip.cpp); core files concern every
    packet-handling property; a file no property anchors concerns all of them (unknown is not 'irrelevant')."""
    A = anchors()
    known = set().union(*A.values())
    for f in changed:
        s = _stem(f)
        if s in A.get(pid, ()):
            return True
        if s in CORE_STEMS and pid in PACKET_PROPS:
            return True
        if s not in known and s not in CORE_STEMS:
            return True
    return False


def main(argv):
    if "--update" in argv:
        head = subprocess.run(["git", "-C", core.REPO, "rev-parse", "HEAD"], stdout=subprocess.PIPE, text=True).stdout.strip()
        json.dump({"repo_commit": head, "files": current()}, open(BASELINE, "w"), indent=0, sort_keys=True)
        print(f"baseline written for {head[:10]}: {len(current())} files")
        return 0
    ch = changed_files()
    print("changed:", ch)
    if ch:
        print("concerned:", [p for p in sorted(anchors()) if concerns(p, ch)])
    return 0


if __name__ == "__main__":
    sys.exit(main(sys.argv[1:]))
