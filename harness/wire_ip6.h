// ip6 family — nothing modelled yet (stub)
#pragma once
#include "wire_iface.h"
namespace wire {
inline bool ip6_dump(const PDU&, std::string&) { return false; }
inline PDU* ip6_mk(const std::string&, const std::vector<std::string>&) { return 0; }
inline bool ip6_apply(PDU&, const std::vector<std::string>&) { return false; }
inline bool ip6_sweep(const PDU&, std::string&) { return false; }
} // namespace wire
