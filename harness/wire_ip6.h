// Ip6 family: IPv6 with its extension headers
// Field names, order and value formats are those of lean/TinsModel/Wire/Ip6/Ipv6.lean `fields`.
#pragma once
#include "wire_iface.h"
namespace wire {

inline unsigned long ip6_num(const std::string& s) { return std::stoul(s); }
inline bool ip6_hex(const std::string& s, bytes& out) { return vh::parse_hex(s, out); }

// IPv6::get_padding_size is private: the same arithmetic, on the public data_size()
inline size_t ip6_padding(const IPv6::ext_header& h) {
    const size_t p = (h.data_size() + 2) % 8;
    return p == 0 ? 0 : 8 - p;
}

inline std::string ip6_opts_str(const std::vector<IPv6::header_option_type>& opts) {
    if (opts.empty()) return "none";
    std::ostringstream o;
    for (size_t i = 0; i < opts.size(); ++i) {
        if (i) o << "+";
        o << unsigned(opts[i].first) << "." << vh::to_hex(opts[i].second);
    }
    return o.str();
}

// typed decoders on the first header of the given type ("nf" = no such header)
inline std::string ip6_hbh(const IPv6& ip) {
    const IPv6::ext_header* h = ip.search_header(IPv6::HOP_BY_HOP);
    if (!h) return "nf";
    try { return ip6_opts_str(IPv6::hop_by_hop_header::from_extension_header(*h).options); }
    catch (const invalid_ipv6_extension_header&) { return "invalid"; }
}
inline std::string ip6_dst(const IPv6& ip) {
    const IPv6::ext_header* h = ip.search_header(IPv6::DESTINATION_OPTIONS);
    if (!h) return "nf";
    try { return ip6_opts_str(IPv6::destination_routing_header::from_extension_header(*h).options); }
    catch (const invalid_ipv6_extension_header&) { return "invalid"; }
}
inline std::string ip6_routing(const IPv6& ip) {
    const IPv6::ext_header* h = ip.search_header(IPv6::ROUTING);
    if (!h) return "nf";
    try {
        IPv6::routing_header r = IPv6::routing_header::from_extension_header(*h);
        std::ostringstream o;
        o << unsigned(r.routing_type) << "." << unsigned(r.segments_left) << "." << vh::to_hex(r.data);
        return o.str();
    } catch (const malformed_packet&) { return "malformed"; }
}
inline std::string ip6_fragment(const IPv6& ip) {
    const IPv6::ext_header* h = ip.search_header(IPv6::FRAGMENT);
    if (!h) return "nf";
    try {
        IPv6::fragment_header r = IPv6::fragment_header::from_extension_header(*h);
        std::ostringstream o;
        o << unsigned(r.fragment_offset) << "." << (r.more_fragments ? 1 : 0) << "." << (unsigned long)r.identification;
        return o.str();
    } catch (const malformed_packet&) { return "malformed"; }
}

inline bool ip6_dump(const PDU& p, std::string& out) {
    if (p.pdu_type() != PDU::IPv6) return false;
    const IPv6& ip = static_cast<const IPv6&>(p);
    // next_header(): the payload's tag without extension headers ("^"); with them write_serialization overwrites it with
    // the first header's type ("~": derived)
    // headers: type + data as it is on the wire (zero padded to the 8-octet boundary); ~hdr_raw: length field / data size
    std::string hs, raw;
    for (IPv6::headers_type::const_iterator it = ip.headers().begin(); it != ip.headers().end(); ++it) {
        if (!hs.empty()) { hs += ","; raw += ","; }
        bytes d(it->data_ptr(), it->data_ptr() + it->data_size());
        d.resize(d.size() + ip6_padding(*it), 0);
        std::ostringstream o, r;
        o << unsigned(it->option()) << ":" << vh::to_hex(d);
        r << it->length_field() << "." << it->data_size();
        hs += o.str();
        raw += r.str();
    }
    if (hs.empty()) { hs = "-"; raw = "-"; }
    out = FieldDump().num("version", unsigned(ip.version())).num("traffic_class", ip.traffic_class())
              .num("flow_label", uint32_t(ip.flow_label())).num("~payload_length", ip.payload_length())
              .num(ip.headers().empty() ? "^next_header" : "~next_header", ip.next_header()).num("hop_limit", ip.hop_limit())
              .str("src_addr", hex_of(ip.src_addr())).str("dst_addr", hex_of(ip.dst_addr()))
              .str("headers", hs).str("~hdr_raw", raw)
              .str("hop_by_hop", ip6_hbh(ip)).str("dest_opts", ip6_dst(ip))
              .str("routing", ip6_routing(ip)).str("fragment", ip6_fragment(ip)).done();
    return true;
}

inline PDU* ip6_mk(const std::string& cls, const std::vector<std::string>& a) {
    if (cls != "IPv6") return 0;
    if (a.size() == 2) {
        bytes d, s;
        if (!ip6_hex(a[0], d) || !ip6_hex(a[1], s) || d.size() != 16 || s.size() != 16) return 0;
        return new IPv6(IPv6Address(d.data()), IPv6Address(s.data()));
    }
    return new IPv6();
}

inline bool ip6_apply(PDU& p, const std::vector<std::string>& op) {
    if (p.pdu_type() != PDU::IPv6) return false;
    IPv6& ip = static_cast<IPv6&>(p);
    const size_t n = op.size();
    if (n == 3 && op[0] == "add_header") {               // add_header(ext_header&&) (inline emplace_back)
        bytes b;
        if (!ip6_hex(op[2], b)) return false;
        ip.add_header(IPv6::ext_header(uint8_t(ip6_num(op[1])), b.begin(), b.end()));
        return true;
    }
    if (n == 3 && op[0] == "add_header_copy") {          // add_header(const ext_header&)
        bytes b;
        if (!ip6_hex(op[2], b)) return false;
        const IPv6::ext_header h(uint8_t(ip6_num(op[1])), b.begin(), b.end());
        ip.add_header(h);
        return true;
    }
    if (n == 3 && op[0] == "add_ext_header") {           // deprecated alias
        bytes b;
        if (!ip6_hex(op[2], b)) return false;
        const IPv6::ext_header h(uint8_t(ip6_num(op[1])), b.begin(), b.end());
#pragma GCC diagnostic push
#pragma GCC diagnostic ignored "-Wdeprecated-declarations"
        ip.add_ext_header(h);
#pragma GCC diagnostic pop
        return true;
    }
    if (n == 3 && op[0] == "add_header_ptr") {           // the (type, length, pointer) constructor the parser uses
        bytes b;
        if (!ip6_hex(op[2], b)) return false;
        static const uint8_t dummy = 0;
        ip.add_header(IPv6::ext_header(uint8_t(ip6_num(op[1])), b.size(), b.empty() ? &dummy : b.data()));
        return true;
    }
    if (n == 4 && op[0] == "add_header_len") {           // (type, length field, begin, end): spoofed length field
        bytes b;
        if (!ip6_hex(op[3], b)) return false;
        ip.add_header(IPv6::ext_header(uint8_t(ip6_num(op[1])), uint16_t(ip6_num(op[2])), b.begin(), b.end()));
        return true;
    }
    if (n != 2) return false;
    if (op[0] == "version") { ip.version(small_uint<4>(uint8_t(ip6_num(op[1]) & 15))); return true; }
    if (op[0] == "traffic_class") { ip.traffic_class(uint8_t(ip6_num(op[1]))); return true; }
    if (op[0] == "flow_label") { ip.flow_label(small_uint<20>(uint32_t(ip6_num(op[1]) & 0xfffff))); return true; }
    if (op[0] == "payload_length") { ip.payload_length(uint16_t(ip6_num(op[1]))); return true; }
    if (op[0] == "next_header") { ip.next_header(uint8_t(ip6_num(op[1]))); return true; }
    if (op[0] == "hop_limit") { ip.hop_limit(uint8_t(ip6_num(op[1]))); return true; }
    if (op[0] == "src_addr" || op[0] == "dst_addr") {
        bytes b;
        if (!ip6_hex(op[1], b) || b.size() != 16) return false;
        if (op[0] == "src_addr") ip.src_addr(IPv6Address(b.data()));
        else ip.dst_addr(IPv6Address(b.data()));
        return true;
    }
    return false;
}

// read-only accessors that can fail: search_header for every identifier, and every typed decoder on every header present
// (a decoder applied to a header of another type throws invalid_ipv6_extension_header)
inline bool ip6_sweep(const PDU& p, std::string& out) {
    if (p.pdu_type() != PDU::IPv6) return false;
    const IPv6& ip = static_cast<const IPv6&>(p);
    static const int ids[] = {0, 43, 44, 50, 51, 59, 60, 135};
    sweep_item(out, "search_header", [&] {
        for (size_t i = 0; i < sizeof(ids) / sizeof(ids[0]); ++i) {
            const IPv6::ext_header* h = ip.search_header(IPv6::ExtensionHeader(ids[i]));
            if (h && h->option() != ids[i]) throw std::logic_error("search_header returned another type");
        }
    });
    // IPv6::extract_metadata on every prefix (up to 72 bytes) of this packet's serialization, each in an exact-size heap
    // block; libtins exceptions only
    sweep_item(out, "extract_metadata", [&] {
        std::unique_ptr<PDU> c(ip.clone());
        bytes b = c->serialize();
        for (size_t n = 0; n <= b.size() && n <= 72; ++n) {
            std::unique_ptr<uint8_t[]> blk(new uint8_t[n ? n : 1]);
            if (n) memcpy(blk.get(), b.data(), n);
            try { IPv6::extract_metadata(blk.get(), uint32_t(n)); } catch (const malformed_packet&) {}
        }
    });
    for (IPv6::headers_type::const_iterator it = ip.headers().begin(); it != ip.headers().end(); ++it) {
        sweep_item(out, "hdr.hop_by_hop", [&] { IPv6::hop_by_hop_header::from_extension_header(*it); });
        sweep_item(out, "hdr.dest_routing", [&] { IPv6::destination_routing_header::from_extension_header(*it); });
        sweep_item(out, "hdr.routing", [&] { IPv6::routing_header::from_extension_header(*it); });
        sweep_item(out, "hdr.fragment", [&] { IPv6::fragment_header::from_extension_header(*it); });
        // the decoders look at the type only first: run them on a retyped copy so that every decoder sees every data block
        sweep_item(out, "data.options", [&] {
            IPv6::ext_header c(*it); c.option(IPv6::HOP_BY_HOP);
            IPv6::hop_by_hop_header::from_extension_header(c);
        });
        sweep_item(out, "data.routing", [&] {
            IPv6::ext_header c(*it); c.option(IPv6::ROUTING);
            IPv6::routing_header::from_extension_header(c);
        });
        sweep_item(out, "data.fragment", [&] {
            IPv6::ext_header c(*it); c.option(IPv6::FRAGMENT);
            IPv6::fragment_header::from_extension_header(c);
        });
    }
    return true;
}

} // namespace wire
