// C08 correspondence harness: drives the real Tins::IPv4Reassembler with the op lines of the line protocol.
//
//   case                                                        new reassembler, empty datagram table
//   dgram <tag> <id> <src> <dst> <proto> <tos> <df> <nopt> <hex> declare original datagram <tag> (no call into libtins)
//   frag <tag> <off> <len> <mf> <ttl> <eth>                     fragment of <tag> carrying payload[off, off+len)
//   whole <tag> <ttl> <eth>                                     the unfragmented datagram
//   nonip                                                       an Ethernet/ARP frame
//   remove <id> <src> <dst>                                     IPv4Reassembler::remove_stream
//   clear                                                       IPv4Reassembler::clear_streams
//
// This file contains the *independent fragmenter*: IPv4 header encoding (RFC 791) and payload slicing are done here
// byte by byte, without libtins; libtins only sees the wire bytes (parsed by EthernetII/IP constructors) and
// IPv4Reassembler::process().  Built with -fno-access-control so the number of open streams can be printed.
#include "common.h"
#include <tins/ip_reassembler.h>
#include <tins/ethernetII.h>
#include <tins/ip.h>
#include <tins/rawpdu.h>
#include <tins/pdu.h>
#include <map>
#include <memory>
using namespace Tins;
using namespace vh;

struct Dgram {
    uint16_t id; uint32_t src, dst; uint8_t proto, tos; bool df; unsigned nopt; bytes payload;
};

static void put16(bytes& b, size_t at, uint16_t v) { b[at] = uint8_t(v >> 8); b[at + 1] = uint8_t(v); }
static void put32(bytes& b, size_t at, uint32_t v) { put16(b, at, uint16_t(v >> 16)); put16(b, at + 2, uint16_t(v)); }

// RFC 791 header + payload slice; options are `nopt` words of NOOP (0x01)
static bytes encode_ip(const Dgram& d, size_t off, size_t len, bool mf, uint8_t ttl, unsigned nopt) {
    size_t a = std::min(off, d.payload.size()), e = std::min(off + len, d.payload.size());
    size_t hl = 20 + 4 * nopt;
    bytes b(hl + (e - a), 0);
    b[0] = uint8_t(0x40 | (hl / 4));
    b[1] = d.tos;
    put16(b, 2, uint16_t(hl + (e - a)));
    put16(b, 4, d.id);
    put16(b, 6, uint16_t((d.df ? 0x4000 : 0) | (mf ? 0x2000 : 0) | ((off / 8) & 0x1fff)));
    b[8] = ttl;
    b[9] = d.proto;
    put32(b, 12, d.src);
    put32(b, 16, d.dst);
    for (size_t i = 20; i < hl; ++i) b[i] = 0x01;
    uint32_t sum = 0;
    for (size_t i = 0; i < hl; i += 2) sum += (uint32_t(b[i]) << 8) | b[i + 1];
    while (sum >> 16) sum = (sum & 0xffff) + (sum >> 16);
    put16(b, 10, uint16_t(~sum));
    std::copy(d.payload.begin() + a, d.payload.begin() + e, b.begin() + hl);
    return b;
}

static bytes wrap_eth(const bytes& ip, uint16_t ethertype) {
    static const uint8_t hdr[12] = {0x02, 0, 0, 0, 0, 1, 0x02, 0, 0, 0, 0, 2};
    bytes b(hdr, hdr + 12);
    b.push_back(uint8_t(ethertype >> 8)); b.push_back(uint8_t(ethertype));
    b.insert(b.end(), ip.begin(), ip.end());
    return b;
}

static const char* kind_name(const PDU* p) {
    if (!p) return "NONE";
    switch (p->pdu_type()) {
        case PDU::RAW: return "RAW";
        case PDU::UDP: return "UDP";
        case PDU::TCP: return "TCP";
        case PDU::ICMP: return "ICMP";
        case PDU::IP: return "IP";
        default: return "OTHER";
    }
}

// canonical dump of the IP layer of a packet: header fields, kind of the upper layer, upper-layer bytes as serialised
static std::string dump(PDU& pdu) {
    IP* ip = pdu.find_pdu<IP>();
    if (!ip) return "noip";
    std::ostringstream o;
    uint32_t src = ip->src_addr(), dst = ip->dst_addr();     // network byte order inside
    unsigned nopt = 0;
    for (IP::options_type::const_iterator it = ip->options().begin(); it != ip->options().end(); ++it) ++nopt;
    o << ip->id() << "." << Endian::be_to_host(src) << "." << Endian::be_to_host(dst) << "." << unsigned(ip->protocol())
      << "." << unsigned(ip->tos()) << "." << unsigned(ip->ttl()) << "." << unsigned(ip->flags()) << "."
      << unsigned(ip->fragment_offset()) << "." << nopt;
    const PDU* in = ip->inner_pdu();
    o << "/" << kind_name(in);
    bytes ser = ip->serialize();
    size_t hl = size_t(ser[0] & 15) * 4;
    // everything after the header (not the total-length field: it is 16 bits wide and the datagram may not fit it)
    size_t tl = ser.size() < hl ? hl : ser.size();
    o << "/" << (tl - hl) << "/" << fnv(ser.data() + hl, tl - hl);
    return o.str();
}

int main() {
    std::unique_ptr<IPv4Reassembler> r(new IPv4Reassembler());
    std::map<std::string, Dgram> table;
    return line_loop([&](const std::string& line) -> std::string {
        auto w = words(line);
        if (w.empty()) return "bad-op";
        auto tail = [&]() { return " streams=" + std::to_string(r->streams_.size()); };
        if (w[0] == "case") {
            r.reset(new IPv4Reassembler());
            table.clear();
            return "case";
        }
        if (w[0] == "dgram" && w.size() >= 10) {
            Dgram d;
            d.id = uint16_t(std::stoul(w[2])); d.src = uint32_t(std::stoull(w[3])); d.dst = uint32_t(std::stoull(w[4]));
            d.proto = uint8_t(std::stoul(w[5])); d.tos = uint8_t(std::stoul(w[6])); d.df = w[7] == "1";
            d.nopt = unsigned(std::stoul(w[8]));
            if (d.nopt > 10 || !parse_hex(w[9], d.payload)) return "bad-op";
            table[w[1]] = d;
            return "dgram";
        }
        if (w[0] == "clear") { r->clear_streams(); return "clear" + tail(); }
        if (w[0] == "remove" && w.size() >= 4) {
            r->remove_stream(uint16_t(std::stoul(w[1])), IPv4Address(Endian::host_to_be(uint32_t(std::stoull(w[2])))),
                             IPv4Address(Endian::host_to_be(uint32_t(std::stoull(w[3])))));
            return "remove" + tail();
        }
        bytes wire;
        bool eth = false;
        if (w[0] == "frag" && w.size() >= 7) {
            auto it = table.find(w[1]);
            if (it == table.end()) return "bad-op";
            size_t off = std::stoul(w[2]), len = std::stoul(w[3]);
            if (off % 8 || off > 65528 || len > 65535) return "bad-op";
            {   // the fragment itself must fit the 16-bit total length of its own header
                const Dgram& d = it->second;
                size_t a = std::min(off, d.payload.size()), e = std::min(off + len, d.payload.size());
                if (20 + 4 * (off == 0 ? d.nopt : 0) + (e - a) > 65535) return "bad-op";
            }
            wire = encode_ip(it->second, off, len, w[4] == "1", uint8_t(std::stoul(w[5])), off == 0 ? it->second.nopt : 0);
            eth = w[6] == "1";
        } else if (w[0] == "whole" && w.size() >= 4) {
            auto it = table.find(w[1]);
            if (it == table.end()) return "bad-op";
            if (20 + 4 * it->second.nopt + it->second.payload.size() > 65535) return "bad-op";
            wire = encode_ip(it->second, 0, it->second.payload.size(), false, uint8_t(std::stoul(w[2])), it->second.nopt);
            eth = w[3] == "1";
        } else if (w[0] == "nonip") {
            static const uint8_t arp[28] = {0, 1, 8, 0, 6, 4, 0, 1, 2, 0, 0, 0, 0, 2, 10, 0, 0, 2, 0, 0, 0, 0, 0, 0, 10, 0, 0, 1};
            wire = wrap_eth(bytes(arp, arp + 28), 0x0806);
        } else {
            return "bad-op";
        }
        if (w[0] != "nonip" && eth) wire = wrap_eth(wire, 0x0800);
        std::unique_ptr<PDU> pdu;
        try {
            if (w[0] == "nonip" || eth) pdu.reset(new EthernetII(wire.data(), uint32_t(wire.size())));
            else pdu.reset(new IP(wire.data(), uint32_t(wire.size())));
        } catch (const std::exception& e) {
            return "parse-throw " + exc_name(e) + tail();
        }
        std::unique_ptr<PDU> before(pdu->clone());
        std::string st;
        try {
            IPv4Reassembler::PacketStatus s = r->process(*pdu);
            st = s == IPv4Reassembler::NOT_FRAGMENTED ? "N" : s == IPv4Reassembler::FRAGMENTED ? "F" : "R";
        } catch (const std::exception& e) {
            st = "throw:" + exc_name(e);
        }
        std::string d = dump(*pdu);
        bool same = before->serialize() == pdu->serialize();
        return "st=" + st + " pkt=" + d + " same=" + (same ? "1" : "0") + tail();
    });
}
