// C11 correspondence harness: drives the real Tins::RadioTap with the op lines of the line protocol.
//   tail                     prints TAIL (see parse)
//   new                      default-constructed header
//   parse <hex>              RadioTap(bytes ++ TAIL) where TAIL = a fixed 802.11 data frame header + 4 bytes
//   set <field> <hex>        typed setter; <hex> = the little-endian bytes of the field value (size of the field)
//   add <bit> <hex>          RadioTap::add_option(option(1 << bit, bytes))
//   ser <hex|->              serialize a copy carrying the 802.11 frame <hex> (or no inner PDU) and re-parse the bytes
//   walk <hex|->             Utils::RadioTapParser over exactly these bytes (an options buffer): every field the
//                            `while (has_fields()) advance_field()` loop reports (namespace index/type, bit, offset,
//                            current_option()), the final state, and has_field() of all 32 single-bit flags
//   skipto <bit> <hex|->     RadioTapParser(bytes).skip_to_field(1 << bit), then current_option()
// One canonical result line per op: payload, present(), header_size(), trailer_size(), every getter (value or
// exception name).
#include "common.h"
#include <tins/radiotap.h>
#include <tins/dot11/dot11_base.h>
#include <tins/dot11/dot11_data.h>
#include <tins/rawpdu.h>
#include <tins/utils/radiotap_parser.h>
#include <memory>
using namespace Tins;
using namespace vh;

static uint64_t le(const bytes& b, size_t off, size_t n) {
    uint64_t v = 0;
    for (size_t i = 0; i < n; ++i) v |= uint64_t(b[off + i]) << (8 * i);
    return v;
}

template <typename F>
static std::string guarded(F f) {
    try {
        std::ostringstream o;
        f(o);
        return o.str();
    } catch (const std::exception& e) {
        return "!" + exc_name(e);
    }
}

static std::string show(const std::string& tag, const RadioTap& r) {
    std::ostringstream o;
    o << tag << " pl=" << to_hex(r.options_payload());
    o << " pr=" << guarded([&](std::ostream& s) { s << uint32_t(r.present()); });
    o << " hs=" << r.header_size();
    o << " tr=" << guarded([&](std::ostream& s) { s << r.trailer_size(); });
    o << " tsft=" << guarded([&](std::ostream& s) { s << r.tsft(); });
    o << " flags=" << guarded([&](std::ostream& s) { s << unsigned(uint8_t(r.flags())); });
    o << " rate=" << guarded([&](std::ostream& s) { s << unsigned(r.rate()); });
    o << " chfreq=" << guarded([&](std::ostream& s) { s << r.channel_freq(); });
    o << " chtype=" << guarded([&](std::ostream& s) { s << r.channel_type(); });
    o << " dbmsig=" << guarded([&](std::ostream& s) { s << unsigned(uint8_t(r.dbm_signal())); });
    o << " dbmnoise=" << guarded([&](std::ostream& s) { s << unsigned(uint8_t(r.dbm_noise())); });
    o << " sq=" << guarded([&](std::ostream& s) { s << unsigned(r.signal_quality()); });
    o << " ant=" << guarded([&](std::ostream& s) { s << unsigned(r.antenna()); });
    o << " dbsig=" << guarded([&](std::ostream& s) { s << unsigned(r.db_signal()); });
    o << " rxf=" << guarded([&](std::ostream& s) { s << r.rx_flags(); });
    o << " txf=" << guarded([&](std::ostream& s) { s << r.tx_flags(); });
    o << " dr=" << guarded([&](std::ostream& s) { s << unsigned(r.data_retries()); });
    o << " xch=" << guarded([&](std::ostream& s) {
        RadioTap::xchannel_type x = r.xchannel();
        s << uint32_t(x.flags) << "/" << uint16_t(x.frequency) << "/" << unsigned(x.channel) << "/" << unsigned(x.max_power);
    });
    o << " mcs=" << guarded([&](std::ostream& s) {
        RadioTap::mcs_type m = r.mcs();
        s << unsigned(m.known) << "/" << unsigned(m.flags) << "/" << unsigned(m.mcs);
    });
    return o.str();
}

// reference CRC-32 (IEEE 802.3, reflected, bitwise) written independently of libtins
static uint32_t ref_crc32(const uint8_t* p, size_t n) {
    uint32_t c = 0xffffffffu;
    for (size_t i = 0; i < n; ++i) {
        c ^= p[i];
        for (int k = 0; k < 8; ++k) c = (c >> 1) ^ (0xEDB88320u & (0u - (c & 1u)));
    }
    return ~c;
}

static bytes tail_frame() {
    // protected data frame header (payload, if any, is kept as raw bytes) + 4 bytes standing for the FCS
    bytes t(24, 0);
    t[0] = 0x08; t[1] = 0x40;
    for (int i = 0; i < 4; ++i) t.push_back(uint8_t(0xc0 + i));
    return t;
}

static bool set_field(RadioTap& r, const std::string& f, const bytes& v) {
    size_t n = v.size();
    if (f == "tsft" && n == 8) { r.tsft(le(v, 0, 8)); return true; }
    if (f == "flags" && n == 1) { r.flags(RadioTap::FrameFlags(v[0])); return true; }
    if (f == "rate" && n == 1) { r.rate(v[0]); return true; }
    if (f == "channel" && n == 4) { r.channel(uint16_t(le(v, 0, 2)), uint16_t(le(v, 2, 2))); return true; }
    if (f == "dbm_signal" && n == 1) { r.dbm_signal(int8_t(v[0])); return true; }
    if (f == "dbm_noise" && n == 1) { r.dbm_noise(int8_t(v[0])); return true; }
    if (f == "signal_quality" && n == 2) { r.signal_quality(uint16_t(le(v, 0, 2))); return true; }
    if (f == "antenna" && n == 1) { r.antenna(v[0]); return true; }
    if (f == "db_signal" && n == 1) { r.db_signal(v[0]); return true; }
    if (f == "rx_flags" && n == 2) { r.rx_flags(uint16_t(le(v, 0, 2))); return true; }
    if (f == "tx_flags" && n == 2) { r.tx_flags(uint16_t(le(v, 0, 2))); return true; }
    if (f == "data_retries" && n == 1) { r.data_retries(v[0]); return true; }
    if (f == "xchannel" && n == 8) {
        RadioTap::xchannel_type x;
        x.flags = uint32_t(le(v, 0, 4)); x.frequency = uint16_t(le(v, 4, 2)); x.channel = v[6]; x.max_power = v[7];
        r.xchannel(x); return true;
    }
    if (f == "mcs" && n == 3) {
        RadioTap::mcs_type m;
        m.known = v[0]; m.flags = v[1]; m.mcs = v[2];
        r.mcs(m); return true;
    }
    return false;
}

static unsigned bit_of(uint32_t flag) {
    unsigned b = 0;
    while (b < 32 && !((flag >> b) & 1u)) ++b;
    return b;
}

static char ns_letter(Utils::RadioTapParser::NamespaceType t) {
    return t == Utils::RadioTapParser::RADIOTAP_NS ? 'R' : t == Utils::RadioTapParser::VENDOR_NS ? 'V' : 'U';
}

// current_option() indexes RADIOTAP_METADATA[current_bit_]: only defined while a field is current
static std::string option_text(Utils::RadioTapParser& p) {
    if (bit_of(uint32_t(p.current_field())) >= Utils::RadioTapParser::MAX_RADIOTAP_FIELD) return "none";
    return guarded([&](std::ostream& s) {
        RadioTap::option o = p.current_option();
        s << to_hex(o.data_ptr(), o.data_size());
    });
}

static std::string walk(const bytes& in) {
    std::vector<uint8_t> exact(in);
    exact.shrink_to_fit();
    Utils::RadioTapParser p(exact);
    const uint8_t* base = exact.empty() ? 0 : exact.data();
    std::ostringstream o;
    o << "walk";
    int guard = 0;
    while (p.has_fields()) {
        if (++guard > 200) { o << " runaway"; return o.str(); }
        o << " f=" << p.current_namespace_index() << ns_letter(p.current_namespace()) << ":"
          << bit_of(uint32_t(p.current_field())) << "@" << (p.current_option_ptr() - base) << "=" << option_text(p);
        p.advance_field();
    }
    bool again = p.advance_field();
    uint32_t mask = 0;
    for (unsigned b = 0; b < 32; ++b)
        if (p.has_field(RadioTap::PresentFlags(uint32_t(1) << b))) mask |= uint32_t(1) << b;
    o << " end adv=" << (again ? 1 : 0) << " ns=" << p.current_namespace_index() << ns_letter(p.current_namespace())
      << " hf=" << mask;
    return o.str();
}

static std::string skipto(unsigned bit, const bytes& in) {
    std::vector<uint8_t> exact(in);
    exact.shrink_to_fit();
    Utils::RadioTapParser p(exact);
    const uint8_t* base = exact.empty() ? 0 : exact.data();
    bool r = p.skip_to_field(RadioTap::PresentFlags(uint32_t(1) << bit));
    std::ostringstream o;
    o << "skipto r=" << (r ? 1 : 0) << " ns=" << p.current_namespace_index() << ns_letter(p.current_namespace())
      << " bit=" << bit_of(uint32_t(p.current_field())) << " off=" << (p.current_option_ptr() - base)
      << " opt=" << (r ? option_text(p) : std::string("none"));
    return o.str();
}

int main() {
    std::unique_ptr<RadioTap> rt;
    const bytes tail = tail_frame();
    return line_loop([&](const std::string& line) -> std::string {
        auto w = words(line);
        if (w.size() == 1 && w[0] == "tail") return "tail " + to_hex(tail);
        if (w.size() == 2 && w[0] == "walk") {
            bytes b;
            if (!parse_hex(w[1], b)) return "bad-op";
            rt.reset(new RadioTap());          // a case start: leaves a default header behind, like `new`
            return walk(b);
        }
        if (w.size() == 3 && w[0] == "skipto") {
            bytes b;
            if (!parse_hex(w[2], b)) return "bad-op";
            unsigned bit = unsigned(std::stoul(w[1]));
            if (bit > 31) return "bad-op";
            rt.reset(new RadioTap());
            return skipto(bit, b);
        }
        if (!rt) rt.reset(new RadioTap());   // inside the loop: an exception of the constructor becomes a result line
        if (w.size() == 1 && w[0] == "new") {
            rt.reset(new RadioTap());
            return show("new", *rt);
        }
        if (w.size() == 2 && w[0] == "parse") {
            bytes b;
            if (!parse_hex(w[1], b)) return "bad-op";
            b.insert(b.end(), tail.begin(), tail.end());
            bytes exact(b);
            exact.shrink_to_fit();
            rt.reset(new RadioTap());          // a failed parse leaves a default header behind
            rt.reset(new RadioTap(exact.data(), uint32_t(exact.size())));
            return show("parsed", *rt);
        }
        if (w.size() == 3 && w[0] == "set") {
            bytes v;
            if (!parse_hex(w[2], v)) return "bad-op";
            if (!set_field(*rt, w[1], v)) return "bad-op";
            return show("set", *rt);
        }
        if (w.size() == 3 && w[0] == "add") {
            bytes v;
            if (!parse_hex(w[2], v)) return "bad-op";
            unsigned bit = unsigned(std::stoul(w[1]));
            if (bit > 19) return "bad-op";     // PresentFlags has no enumerator above 1 << 19 (larger values are UB)
            rt->add_option(RadioTap::option(RadioTap::PresentFlags(uint32_t(1) << bit), v.size(), v.data()));
            return show("add", *rt);
        }
        if (w.size() == 2 && w[0] == "ser") {
            bytes in;
            if (!parse_hex(w[1], in)) return "bad-op";
            RadioTap tmp(*rt);
            bytes innerb;
            if (in.empty()) {
                tmp.inner_pdu(0);
            } else {
                tmp.inner_pdu(Dot11::from_bytes(in.data(), uint32_t(in.size())));
                innerb = tmp.inner_pdu()->serialize();
            }
            bytes out = tmp.serialize();
            size_t hs = tmp.header_size();
            std::ostringstream o;
            o << "ser n=" << out.size() << " hdr=" << to_hex(out.data(), std::min(hs, out.size()));
            std::string body = "short";
            if (out.size() >= hs + innerb.size())
                body = bytes(out.begin() + hs, out.begin() + hs + innerb.size()) == innerb ? "inner" : "other";
            o << " body=" << body;
            size_t rest = out.size() >= hs + innerb.size() ? out.size() - hs - innerb.size() : 0;
            std::string fcs = "none";
            if (rest == 4) {
                uint32_t got = uint32_t(le(out, hs + innerb.size(), 4));
                if (innerb.empty()) fcs = got == 0 ? "zero" : "bad";
                else fcs = got == ref_crc32(innerb.data(), innerb.size()) ? "ok" : "bad";
            } else if (rest != 0) fcs = "len" + std::to_string(rest);
            o << " fcs=" << fcs;
            bytes exact(out);
            exact.shrink_to_fit();
            try {
                RadioTap r2(exact.data(), uint32_t(exact.size()));
                o << " re=" << to_hex(r2.options_payload());
                if (!r2.inner_pdu()) o << " reinner=none";
                else o << " reinner=" << (r2.inner_pdu()->serialize() == innerb ? "same" : "diff");
            } catch (const std::exception& e) {
                o << " re=!" << exc_name(e) << " reinner=none";
            }
            return o.str();
        }
        return "bad-op";
    });
}
