// C19 correspondence harness: drives the real TCPIP::AckTracker with real TCP packets carrying SACK options.
//   init <ack> <use_sack 0|1>      AckTracker(uint32(ack), use_sack)
//   finit <ack>                    a TCPIP::Flow with ACK tracking enabled, taken through SYN and the first ACK
//                                  (Flow::update_state builds AckTracker(ack)); from here on every packet goes
//                                  through Flow::process_packet and the flow's own tracker is observed
//   new                            AckTracker()            (ack 0, SACK off)
//   usesack                        AckTracker::use_sack()
//   pkt  <ack> [-|<edge>...]       TCP built through the API (TCP::sack), handed over as a bare TCP PDU
//   pktw <ack> [-|<edge>...]       the same inside EthernetII/IP, serialised and re-parsed from the wire bytes
//   pktn                           a packet without a TCP layer (IP / RawPDU)
//   opt  <ack> <hex>               TCP with a SACK option carrying arbitrary data bytes (an undecodable option makes
//                                  AckTracker::process_packet throw malformed_option; Flow::process_packet catches it)
//   q <seq> <len>                  is_segment_acked
//   segw <ack> <layout> <plen> [<edge>...]
//                                  the packet put on the wire by the *reference encoder* below (RFC 793 / RFC 2018,
//                                  written here independently of libtins' serializer), parsed with TCP(buffer, size)
//                                  and handed to the tracker.  layout: one letter per option, in order -
//                                  n NOP, m MSS, w WSCALE, k SACK-permitted, t TIMESTAMP, x kind 30 with 3 bytes,
//                                  E an END octet, S the SACK option with the given edges, T the same with its last
//                                  data byte cut off (length 1 + 4k: undecodable), "." no option; END padding to a
//                                  multiple of 4; <plen> payload bytes.  The answer carries the bytes (hex=...): the
//                                  Lean reference encoder (Ack/Wire.lean refSegment) must produce the same.
//   wire <hex>                     arbitrary bytes: TCP(buffer, size) (may throw malformed_packet), then the tracker
//   icl                            a fresh boost::icl::interval_set<uint32_t> (the container parameter on its own)
//   ins <lo> <hi> | insro <lo> <hi> | del <lo> <hi> | sub <lo> <hi> | has <lo> <hi> | hasp <p>
//                                  insert(closed) / insert(right_open) / erase(closed) / operator-=(closed) /
//                                  contains(set, closed) / contains(set, point) on it; every answer lists the
//                                  intervals through icl::first / icl::last, iterative_size() and cardinality()
// All numbers are decimal and are reduced to uint32_t here (the generator uses absolute positions).
// Every answer: `<tag> ack=<n> ivs=<lo>-<hi>,...` (+ ` acked=<b>` for q, + ` grid=<bits>` after packets), the
// grid being is_segment_acked on (seq,len) pairs around the ACK, every interval edge and the wrap point.
#include "common.h"
#include <tins/config.h>
#include <tins/tcp_ip/ack_tracker.h>
#include <tins/tcp.h>
#include <tins/ip.h>
#include <tins/ethernetII.h>
#include <tins/rawpdu.h>
#include <tins/tcp_ip/flow.h>
#include <algorithm>
#include <memory>
#include <unistd.h>
using namespace Tins;
using namespace vh;
using Tins::TCPIP::AckTracker;

static uint32_t u32(const std::string& s) { return uint32_t(std::stoull(s)); }

typedef std::pair<uint32_t, uint32_t> ivl;

static std::vector<ivl> intervals(const AckTracker& t) {
    std::vector<ivl> out;
    for (auto& iv : t.acked_intervals()) out.push_back(ivl(boost::icl::first(iv), boost::icl::last(iv)));
    return out;
}

static std::string state(const AckTracker& t) {
    std::ostringstream o;
    o << "ack=" << t.ack_number() << " ivs=";
    bool first = true;
    for (auto& iv : intervals(t)) {
        if (!first) o << ",";
        first = false;
        o << iv.first << "-" << iv.second;
    }
    return o.str();
}

// grid points: ack-1, ack, ack+1; lo-1, lo, hi, hi+1 of the first two and last two intervals; 2^32-1 and 0
static std::vector<uint32_t> grid_points(const AckTracker& t) {
    std::vector<uint32_t> p;
    uint32_t a = t.ack_number();
    p.push_back(a - 1); p.push_back(a); p.push_back(a + 1);
    std::vector<ivl> iv = intervals(t);
    size_t n = iv.size();
    for (size_t i = 0; i < n; ++i) {
        if (i < 2 || i + 2 >= n) {
            p.push_back(iv[i].first - 1); p.push_back(iv[i].first);
            p.push_back(iv[i].second); p.push_back(iv[i].second + 1);
        }
    }
    p.push_back(0xffffffffu); p.push_back(0);
    std::sort(p.begin(), p.end());
    p.erase(std::unique(p.begin(), p.end()), p.end());
    return p;
}

static std::string grid(const AckTracker& t) {
    std::vector<uint32_t> p = grid_points(t);
    std::string bits;
    for (uint32_t s : p) {
        for (uint32_t e : p) {
            uint64_t len = uint64_t(uint32_t(e - s)) + 1;
            if (len > 2147483648ULL) continue;
            bits.push_back(t.is_segment_acked(s, uint32_t(len)) ? '1' : '0');
        }
    }
    return bits;
}

// ---------------------------------------------------------------- reference encoder (RFC 793 section 3.1, RFC 2018 section 3)
static void put16(bytes& b, uint32_t v) { b.push_back(uint8_t(v >> 8)); b.push_back(uint8_t(v)); }
static void put32(bytes& b, uint32_t v) { put16(b, v >> 16); put16(b, v & 0xffff); }

// returns false when the layout is unknown or the options exceed the 40 bytes a TCP header can carry
static bool ref_segment(uint32_t ack, const std::string& layout, size_t plen, const std::vector<uint32_t>& edges, bytes& out) {
    bytes opt;
    for (char c : layout) {
        switch (c) {
            case '.': break;
            case 'n': opt.push_back(1); break;
            case 'E': opt.push_back(0); break;
            case 'm': opt.push_back(2); opt.push_back(4); opt.push_back(0x05); opt.push_back(0xb4); break;
            case 'w': opt.push_back(3); opt.push_back(3); opt.push_back(7); break;
            case 'k': opt.push_back(4); opt.push_back(2); break;
            case 't': opt.push_back(8); opt.push_back(10); put32(opt, 1); put32(opt, 2); break;
            case 'x': opt.push_back(30); opt.push_back(5); opt.push_back(0xaa); opt.push_back(0xbb); opt.push_back(0xcc); break;
            case 'S': case 'T': {
                bytes d;
                for (uint32_t e : edges) put32(d, e);
                if (c == 'T') { if (d.empty()) return false; d.pop_back(); }
                if (d.size() > 253) return false;
                opt.push_back(5); opt.push_back(uint8_t(d.size() + 2));
                opt.insert(opt.end(), d.begin(), d.end());
                break;
            }
            default: return false;
        }
    }
    while (opt.size() % 4) opt.push_back(0);
    if (opt.size() > 40) return false;
    out.clear();
    put16(out, 1234); put16(out, 80);                   // source port, destination port
    put32(out, 1001);                                   // sequence number
    put32(out, ack);                                    // acknowledgment number
    out.push_back(uint8_t(((20 + opt.size()) / 4) << 4)); // data offset, reserved
    out.push_back(0x10);                                // ACK
    put16(out, 32678); put16(out, 0); put16(out, 0);    // window, checksum, urgent pointer
    out.insert(out.end(), opt.begin(), opt.end());
    out.insert(out.end(), plen, uint8_t(0xab));
    bytes exact(out.begin(), out.end());
    exact.shrink_to_fit();
    out.swap(exact);
    return true;
}

// ---------------------------------------------------------------- the container parameter on its own
typedef boost::icl::interval_set<uint32_t> iset_t;
typedef boost::icl::discrete_interval<uint32_t> dival_t;

static std::string icl_state(const iset_t& s) {
    std::ostringstream o;
    o << "ivs=";
    bool first = true;
    for (auto& iv : s) {
        if (!first) o << ",";
        first = false;
        o << boost::icl::first(iv) << "-" << boost::icl::last(iv);
    }
    o << " n=" << s.iterative_size() << " card=" << boost::icl::cardinality(s);
    return o.str();
}

static void set_sack(TCP& tcp, const std::vector<std::string>& w, size_t from) {
    if (w.size() <= from) return;                       // no SACK option at all
    TCP::sack_type edges;
    if (w[from] != "-") for (size_t i = from; i < w.size(); ++i) edges.push_back(u32(w[i]));
    tcp.sack(edges);                                    // "-" : SACK option with no edges
}

int main() {
    std::unique_ptr<AckTracker> own(new AckTracker());
    std::unique_ptr<TCPIP::Flow> flow;
    AckTracker* t = own.get();
    iset_t iclset;
    std::string hex;                                    // bytes of the current segw line (also shown when it throws)
    // hand a packet to the tracker under test: directly, or through the flow that owns it
    auto deliver = [&](PDU& pdu) {
        if (flow) { flow->process_packet(pdu); t = &flow->ack_tracker(); }
        else t->process_packet(pdu);
    };
    return line_loop([&](const std::string& line) -> std::string {
        // every loop of the tracker is bounded (Props.C19.acked_range_two_iterations): an operation that does not
        // come back is reported as a fault of that operation (SIGALRM ends the process, the runner attributes it)
        alarm(5);
        auto w = words(line);
        if (w.empty()) return "bad-op";
        std::string tag = w[0];
        hex.clear();
        try {
            if (w[0] == "icl") { iclset.clear(); return tag + " " + icl_state(iclset); }
            if ((w[0] == "ins" || w[0] == "insro" || w[0] == "del" || w[0] == "sub" || w[0] == "has") && w.size() >= 3) {
                uint32_t lo = u32(w[1]), hi = u32(w[2]);
                if (w[0] == "insro") { iclset.insert(dival_t::right_open(lo, hi)); return tag + " " + icl_state(iclset); }
                if (lo > hi) return "bad-op";               // the tracker never builds an empty interval
                if (w[0] == "ins") iclset.insert(dival_t::closed(lo, hi));
                else if (w[0] == "del") iclset.erase(dival_t::closed(lo, hi));
                else if (w[0] == "sub") iclset -= dival_t::closed(lo, hi);
                else return tag + " " + icl_state(iclset) + " r=" + (boost::icl::contains(iclset, dival_t::closed(lo, hi)) ? "1" : "0");
                return tag + " " + icl_state(iclset);
            }
            if (w[0] == "hasp" && w.size() >= 2)
                return tag + " " + icl_state(iclset) + " r=" + (boost::icl::contains(iclset, u32(w[1])) ? "1" : "0");
            if (w[0] == "segw" && w.size() >= 4) {
                std::vector<uint32_t> edges;
                for (size_t i = 4; i < w.size(); ++i) edges.push_back(u32(w[i]));
                size_t plen = size_t(std::stoul(w[3]));
                bytes seg;
                if (plen > 64 || !ref_segment(u32(w[1]), w[2], plen, edges, seg)) return "bad-op";
                hex = " hex=" + to_hex(seg);
                TCP tcp(seg.data(), uint32_t(seg.size()));
                deliver(tcp);
                return tag + " " + state(*t) + " grid=" + grid(*t) + hex;
            }
            if (w[0] == "wire" && w.size() >= 2) {
                bytes seg;
                if (flow || !parse_hex(w[1], seg) || seg.size() > 200) return "bad-op";
                TCP tcp(seg.data(), uint32_t(seg.size()));
                deliver(tcp);
                return tag + " " + state(*t) + " grid=" + grid(*t);
            }
            if (w[0] == "init" && w.size() >= 3) {
                flow.reset();
                own.reset(new AckTracker(u32(w[1]), w[2] == "1"));
                t = own.get();
                return tag + " " + state(*t);
            }
            if (w[0] == "new") {
                flow.reset();
                own.reset(new AckTracker());
                t = own.get();
                return tag + " " + state(*t);
            }
            if (w[0] == "finit" && w.size() >= 2) {
                flow.reset(new TCPIP::Flow(IPv4Address("10.0.0.2"), 1234, 1000));
                flow->enable_ack_tracking();
                TCP syn(1234, 80);
                syn.flags(TCP::SYN);
                syn.seq(1000);
                flow->process_packet(syn);                 // UNKNOWN -> SYN_SENT
                TCP ack(1234, 80);
                ack.flags(TCP::ACK);
                ack.seq(1001);
                ack.ack_seq(u32(w[1]));
                flow->process_packet(ack);                 // SYN_SENT -> ESTABLISHED: AckTracker(ack_seq)
                t = &flow->ack_tracker();
                return tag + " " + state(*t);
            }
            if (w[0] == "usesack") {
                t->use_sack();
                return tag + " " + state(*t);
            }
            if (w[0] == "pkt" && w.size() >= 2) {
                if (w.size() - 2 > 60) return "bad-op";     // TCP::sack truncates the size to uint8_t
                TCP tcp(80, 1234);
                tcp.ack_seq(u32(w[1]));
                tcp.flags(TCP::ACK);
                set_sack(tcp, w, 2);
                deliver(tcp);
                return tag + " " + state(*t) + " grid=" + grid(*t);
            }
            if (w[0] == "pktw" && w.size() >= 2) {
                if (w.size() - 2 > 8) return "bad-op";      // 4 blocks fill the TCP option space
                // an empty SACK option does not serialise (TCP::calculate_options_size vs write_option, DESIGN §7 #10,
                // property C02): not this property's business
                if (w.size() == 3 && w[2] == "-") return "bad-op";
                TCP tcp(80, 1234);
                tcp.ack_seq(u32(w[1]));
                tcp.flags(TCP::ACK);
                set_sack(tcp, w, 2);
                EthernetII eth = EthernetII("00:01:02:03:04:05", "00:0a:0b:0c:0d:0e") / IP("10.0.0.1", "10.0.0.2") / tcp;
                PDU::serialization_type buf = eth.serialize();
                bytes exact(buf.begin(), buf.end());
                exact.shrink_to_fit();
                EthernetII parsed(exact.data(), uint32_t(exact.size()));
                deliver(parsed);
                return tag + " " + state(*t) + " grid=" + grid(*t);
            }
            if (w[0] == "pktn") {
                IP ip = IP("10.0.0.1", "10.0.0.2") / RawPDU("abc");
                deliver(ip);
                return tag + " " + state(*t) + " grid=" + grid(*t);
            }
            if (w[0] == "opt" && w.size() >= 3) {
                bytes d;
                if (!parse_hex(w[2], d) || d.size() > 255) return "bad-op";
                TCP tcp(80, 1234);
                tcp.ack_seq(u32(w[1]));
                tcp.flags(TCP::ACK);
                tcp.add_option(TCP::option(TCP::SACK, d.size(), d.data()));
                deliver(tcp);
                return tag + " " + state(*t) + " grid=" + grid(*t);
            }
            if (w[0] == "q" && w.size() >= 3) {
                bool r = t->is_segment_acked(u32(w[1]), u32(w[2]));
                return tag + " " + state(*t) + " acked=" + (r ? "1" : "0");
            }
        } catch (const std::exception& e) {
            // the tracker may have been updated before the exception left process_packet: show its state
            return "throw " + exc_name(e) + " " + state(*t) + hex;
        }
        return "bad-op";
    });
}
