// C10 correspondence harness: drives the real Tins::DNS with the op lines of the line protocol.
//
//   new                                                      fresh message
//   parse <hex> [@...]                                       DNS(buffer, size)   (annotation is for the oracle)
//   addq <namehex> <type> <class>                            add_query
//   adda|addu|addd <namehex> <type> <class> <ttl> <pref> <datahex> [aux]
//                                                            add_answer / add_authority / add_additional
//   reparse                                                  current := DNS(current.serialize())
//   ser                                                      print serialize()
//   soa <hex> [@...]                                         DNS::soa_record(buffer, size) on an exact-size heap block:
//                                                            the seven fields or the exception (does not touch the message)
//   soas                                                     DNS::soa_record(resource) on every SOA record of the three
//                                                            record getters
//
// After every op one canonical line: result, header counts, the three section offsets, records_data_ and the
// four section getters (each may throw on its own).  Compiled with -fno-access-control to observe the private state.
// records_data_ is shrunk to its exact size before every observation so that ASan sees every read/write past its end
// (std::vector keeps spare capacity that would hide them).
#include "common.h"
#include <tins/dns.h>
#include <arpa/inet.h>
#include <memory>
using namespace Tins;
using namespace vh;

static std::string shex(const std::string& s) { return to_hex((const uint8_t*)s.data(), s.size()); }

static bool unhex_str(const std::string& h, std::string& out) {
    bytes b;
    if (!parse_hex(h, b)) return false;
    out.assign(b.begin(), b.end());
    return true;
}

static std::string show_res(const DNS::resources_type& rs) {
    std::ostringstream o;
    o << "[";
    for (size_t i = 0; i < rs.size(); ++i) {
        const DNS::resource& r = rs[i];
        if (i) o << ",";
        o << shex(r.dname()) << ":" << r.query_type() << ":" << r.query_class() << ":" << r.ttl() << ":"
          << r.preference() << ":";
        if (r.query_type() == DNS::AAAA) {
            uint8_t a[16];
            // IPv6 text form is produced by inet_ntop (external); canonicalise through inet_pton
            if (inet_pton(AF_INET6, r.data().c_str(), a) == 1 && strlen(r.data().c_str()) == r.data().size()) o << "6." << to_hex(a, 16);
            else o << "s." << shex(r.data());
        } else {
            o << "s." << shex(r.data());
        }
    }
    o << "]";
    return o.str();
}

static std::string show_soa(const DNS::soa_record& r) {
    std::ostringstream o;
    o << "ok:" << shex(r.mname()) << ":" << shex(r.rname()) << ":" << r.serial() << ":" << r.refresh() << ":" << r.retry()
      << ":" << r.expire() << ":" << r.minimum_ttl();
    return o.str();
}

static std::string soas_of(const DNS::resources_type& rs) {
    std::string s = "[";
    bool first = true;
    for (size_t i = 0; i < rs.size(); ++i) {
        if (rs[i].query_type() != DNS::SOA) continue;
        if (!first) s += ",";
        first = false;
        // the constructor reads resource.data() in place: hand it a string without spare capacity
        DNS::resource exact(rs[i]);
        std::string d(exact.data());
        d.shrink_to_fit();
        exact.data(d);
        try {
            s += show_soa(DNS::soa_record(exact));
        } catch (const std::exception& e) {
            s += "throw:" + exc_name(e);
        }
    }
    return s + "]";
}

template <typename F>
static std::string guarded(F f) {
    try {
        return f();
    } catch (const std::exception& e) {
        return "!" + exc_name(e);
    }
}

static std::string show(const std::string& res, DNS& d) {
    d.records_data_.shrink_to_fit();
    std::ostringstream o;
    o << res << " h=" << d.questions_count() << "," << d.answers_count() << "," << d.authority_count() << ","
      << d.additional_count() << " i=" << d.answers_idx_ << "," << d.authority_idx_ << "," << d.additional_idx_
      << " r=" << to_hex(d.records_data_);
    o << " Q=" << guarded([&]() -> std::string {
        DNS::queries_type qs = d.queries();
        std::ostringstream q;
        q << "[";
        for (size_t i = 0; i < qs.size(); ++i) {
            if (i) q << ",";
            q << shex(qs[i].dname()) << ":" << int(qs[i].query_type()) << ":" << int(qs[i].query_class());
        }
        q << "]";
        return q.str();
    });
    o << " AN=" << guarded([&]() { return show_res(d.answers()); });
    o << " AU=" << guarded([&]() { return show_res(d.authority()); });
    o << " AD=" << guarded([&]() { return show_res(d.additional()); });
    return o.str();
}

int main() {
    std::unique_ptr<DNS> d(new DNS());
    return line_loop([&](const std::string& line) -> std::string {
        auto w = words(line);
        if (w.empty()) return "bad-op";
        if (w[0] == "new") {
            d.reset(new DNS());
            return show("ok", *d);
        }
        if (w[0] == "parse" && w.size() >= 2) {
            bytes b;
            if (!parse_hex(w[1], b)) return "bad-op";
            try {
                std::unique_ptr<DNS> n(new DNS(b.data(), uint32_t(b.size())));
                d = std::move(n);
            } catch (const std::exception& e) {
                d.reset(new DNS());                    // a rejected message leaves a fresh object
                return show("throw:" + exc_name(e), *d);
            }
            return show("ok", *d);
        }
        if (w[0] == "addq" && w.size() >= 4) {
            std::string name;
            if (!unhex_str(w[1], name)) return "bad-op";
            d->records_data_.shrink_to_fit();
            try {
                d->add_query(DNS::query(name, DNS::QueryType(std::stoul(w[2])), DNS::QueryClass(std::stoul(w[3]))));
            } catch (const std::exception& e) {
                return show("throw:" + exc_name(e), *d);
            }
            return show("ok", *d);
        }
        if ((w[0] == "adda" || w[0] == "addu" || w[0] == "addd") && w.size() >= 7) {
            std::string name, data;
            if (!unhex_str(w[1], name) || !unhex_str(w[6], data)) return "bad-op";
            DNS::resource r(name, data, uint16_t(std::stoul(w[2])), uint16_t(std::stoul(w[3])),
                            uint32_t(std::stoul(w[4])), uint16_t(std::stoul(w[5])));
            d->records_data_.shrink_to_fit();
            try {
                if (w[0] == "adda") d->add_answer(r);
                else if (w[0] == "addu") d->add_authority(r);
                else d->add_additional(r);
            } catch (const std::exception& e) {
                return show("throw:" + exc_name(e), *d);
            }
            return show("ok", *d);
        }
        if (w[0] == "reparse") {
            PDU::serialization_type s = d->serialize();
            bytes exact(s.begin(), s.end());
            exact.shrink_to_fit();
            try {
                std::unique_ptr<DNS> n(new DNS(exact.data(), uint32_t(exact.size())));
                d = std::move(n);
            } catch (const std::exception& e) {
                return show("throw:" + exc_name(e), *d);
            }
            return show("ok", *d);
        }
        if (w[0] == "soa" && w.size() >= 2) {
            bytes b;
            if (!parse_hex(w[1], b)) return "bad-op";
            // exact-size heap block (one octet past the end is an ASan red zone); empty = its one-past-the-end pointer
            std::unique_ptr<uint8_t[]> blk(new uint8_t[b.size() ? b.size() : 1]);
            if (!b.empty()) memcpy(blk.get(), b.data(), b.size());
            try {
                DNS::soa_record r(b.empty() ? blk.get() + 1 : blk.get(), uint32_t(b.size()));
                return "soa " + show_soa(r);
            } catch (const std::exception& e) {
                return "soa throw:" + exc_name(e);
            }
        }
        if (w[0] == "soas") {
            std::string o = "soas";
            o += " AN=" + guarded([&]() { return soas_of(d->answers()); });
            o += " AU=" + guarded([&]() { return soas_of(d->authority()); });
            o += " AD=" + guarded([&]() { return soas_of(d->additional()); });
            return o;
        }
        if (w[0] == "ser") {
            PDU::serialization_type s = d->serialize();
            return "ser " + to_hex(s.data(), s.size());
        }
        return "bad-op";
    });
}
