// C12 correspondence harness: runs ownership programs on a pool of REAL libtins objects (ASan+LSan build,
// live-PDU census hook) and prints the inner/parent forest after every step, modulo address renaming.
//
// Pool: `n` slots, each empty, a user-owned PDU root (`P`) or a Packet wrapper (`K`).
// A reference `<slot> <depth>` designates the depth-th layer of the chain held by the slot.
//
//   init n | end
//   new s cls kind val   (kind: 0 plain member, 1 container member, 2 no settable member; must match the class table)
//   | set s d val | clone s s1 d1 | copy s s1 d1 | movector s s1 d1
//   div s s1 d1 s2 d2 | diveq s1 d1 s2 d2 | assign s1 d1 s2 d2 | massign s1 d1 s2 d2 | assignraw s1 d1 s2 d2 (unguarded)
//   setinner s1 d1 s2 | setinnerref s1 d1 s2 d2 | setnull s1 d1 | release s s1 d1 | del s
//   pknew s s1 d1 | pkown s s2 | pkptr s s2 | pkempty s | pkcopy s p | pkassign p q | pkmove s p
//   pkmassign p q | pkrelease s p | pkdiv p s2 d2
//   onew i code len fill | ocopy i j | omove i j | oassign i j | omassign i j | odel i      (PDUOption pool)
//   copyall <Class> <hex|-> <mode>   all five copy / move operations + clone on ONE populated object of a concrete class
//        of the generated member table (c12_members_gen.h); `-` = default-constructed and populated through the API;
//        mode 0: mutate and destroy the copies, the original must not change; 1: destroy the original first, the copies
//        must survive; 2: mutate the original, the copies must not change, interleaved destruction
//        -> `ok <Class> cc=. cl=. ti=. ca=. mc=. ma=. ind=. live=<n>` (1 = holds) | SKIP (the bytes do not parse)
//   copyclasses                      the class list with what the compiler says (is_abstract, copy constructible / assignable)
//
// Output: `<status> live=<census> ser=<flags> | <slot> | <slot> ...`, slot = `-`, `P[id:cls:kind:val:par,...]`, `K[...]`;
//   par = n (null) | u (the layer directly above in the same chain, i.e. its owner) | x<id> (another live layer) | ? (unknown)
#include "common.h"
#include <tins/tins.h>
#include <tins/pdu_cacher.h>
#include <tins/loopback.h>
#include <tins/pktap.h>
#include <tins/mpls.h>
#include <tins/vxlan.h>
#include <tins/rtp.h>
#include <tins/ipsec.h>
#include <tins/stp.h>
#include <tins/pppoe.h>
#include <tins/dhcpv6.h>
#include <map>
#include <memory>
#include <set>
#include <typeindex>
#include <type_traits>
#include "c12_members_gen.h"
using namespace Tins;
using namespace vh;

// ---------------------------------------------------------------- class table
struct Desc {
    const char* name;
    char kind;                       // 'p' plain member, 'c' container member (moved-from = emptied)
    PDU* (*make)();
    void (*set)(PDU*, uint32_t);
    uint32_t (*get)(const PDU*);
    PDU* (*copy)(const PDU*);
    PDU* (*move)(PDU*);
    void (*assign)(PDU*, const PDU*);
    void (*massign)(PDU*, PDU*);
    PDU* (*div)(const PDU*, const PDU*);
    std::type_index ti;
};

template <class T> PDU* mk_default() { return new T(); }
template <class T> PDU* t_copy(const PDU* p) { return new T(*static_cast<const T*>(p)); }
template <class T> PDU* t_move(PDU* p) { return new T(std::move(*static_cast<T*>(p))); }
template <class T> void t_assign(PDU* a, const PDU* b) { *static_cast<T*>(a) = *static_cast<const T*>(b); }
template <class T> void t_massign(PDU* a, PDU* b) { *static_cast<T*>(a) = std::move(*static_cast<T*>(b)); }
template <class T> PDU* t_div(const PDU* a, const PDU* b) { return new T(*static_cast<const T*>(a) / *b); }

static std::vector<Desc> g_desc;

template <class T>
void reg(const char* name, char kind, void (*set)(PDU*, uint32_t), uint32_t (*get)(const PDU*), PDU* (*make)() = &mk_default<T>) {
    Desc d = {name, kind, make, set, get, &t_copy<T>, &t_move<T>, &t_assign<T>, &t_massign<T>, &t_div<T>, std::type_index(typeid(T))};
    g_desc.push_back(d);
}

// plain accessor through one setter/getter pair
#define PLAIN(T, NAME, FIELD, CAST) \
    reg<T>(NAME, 'p', [](PDU* p, uint32_t v) { static_cast<T*>(p)->FIELD(CAST(v)); }, \
           [](const PDU* p) -> uint32_t { return uint32_t(static_cast<const T*>(p)->FIELD()); })

// plain accessor: first byte of the source hardware address (the other fields are derived on serialisation)
#define ADDR(T, NAME) \
    reg<T>(NAME, 'p', [](PDU* p, uint32_t v) { T::address_type a; *a.begin() = uint8_t(v); static_cast<T*>(p)->src_addr(a); }, \
           [](const PDU* p) -> uint32_t { return *static_cast<const T*>(p)->src_addr().begin(); })

// the value lives in a container member: an option whose payload length crosses the 8-byte small-buffer limit
static bytes val_payload(uint32_t v) { return bytes(1 + v % 19, uint8_t(v)); }
template <class Opt> uint32_t opt_val(const Opt* o) {
    if (!o || o->data_size() == 0) return 0;
    return o->data_ptr()[0];
}

static PDU* mk_raw() { return new RawPDU(bytes()); }
static PDU* mk_cacher() { return new PDUCacher<IP>(IP()); }

static void build_table() {
    ADDR(EthernetII, "EthernetII");
    reg<IP>("IP", 'c', [](PDU* p, uint32_t v) {
            IP* ip = static_cast<IP*>(p);
            IP::option_identifier id(IP::SSRR);
            ip->remove_option(id);
            if (v) { bytes b = val_payload(v); ip->add_option(IP::option(id, b.begin(), b.end())); }
        }, [](const PDU* p) -> uint32_t { return opt_val(static_cast<const IP*>(p)->search_option(IP::option_identifier(IP::SSRR))); });
    reg<TCP>("TCP", 'c', [](PDU* p, uint32_t v) {
            TCP* t = static_cast<TCP*>(p);
            t->remove_option(TCP::OptionTypes(30));
            if (v) { bytes b = val_payload(v); t->add_option(TCP::option(TCP::OptionTypes(30), b.begin(), b.end())); }
        }, [](const PDU* p) -> uint32_t { return opt_val(static_cast<const TCP*>(p)->search_option(TCP::OptionTypes(30))); });
    PLAIN(UDP, "UDP", sport, uint16_t);
    PLAIN(ICMP, "ICMP", id, uint16_t);
    reg<ICMPv6>("ICMPv6", 'c', [](PDU* p, uint32_t v) {
            ICMPv6* t = static_cast<ICMPv6*>(p);
            t->remove_option(ICMPv6::OptionTypes(200));
            if (v) { bytes b = val_payload(v); t->add_option(ICMPv6::option(200, b.begin(), b.end())); }
        }, [](const PDU* p) -> uint32_t { return opt_val(static_cast<const ICMPv6*>(p)->search_option(ICMPv6::OptionTypes(200))); });
    PLAIN(IPv6, "IPv6", hop_limit, uint8_t);
    PLAIN(ARP, "ARP", opcode, ARP::Flags);
    PLAIN(Dot1Q, "Dot1Q", id, small_uint<12>);
    ADDR(Dot3, "Dot3");
    reg<LLC>("LLC", 'c', [](PDU* p, uint32_t v) {
            LLC* t = static_cast<LLC*>(p);
            t->clear_information_fields();
            if (v) t->add_xid_information(uint8_t(v), 1, 2);
        }, [](const PDU* p) -> uint32_t {
            const LLC* t = static_cast<const LLC*>(p);
            return t->information_fields_.empty() ? 0 : t->information_fields_.front()[0];
        });
    PLAIN(SNAP, "SNAP", org_code, small_uint<24>);
    reg<Loopback>("Loopback", 'f', [](PDU*, uint32_t) {}, [](const PDU*) -> uint32_t { return 0; });   // only field is derived
    PLAIN(SLL, "SLL", packet_type, uint16_t);
    PLAIN(MPLS, "MPLS", ttl, uint8_t);
    reg<VXLAN>("VXLAN", 'p', [](PDU* p, uint32_t v) { static_cast<VXLAN*>(p)->set_vni(small_uint<24>(v)); },
        [](const PDU* p) -> uint32_t { return uint32_t(static_cast<const VXLAN*>(p)->get_vni()); });
    PLAIN(BootP, "BootP", hops, uint8_t);
    reg<DHCP>("DHCP", 'c', [](PDU* p, uint32_t v) {
            DHCP* t = static_cast<DHCP*>(p);
            t->remove_option(DHCP::OptionTypes(224));
            if (v) { bytes b = val_payload(v); t->add_option(DHCP::option(DHCP::OptionTypes(224), b.begin(), b.end())); }
        }, [](const PDU* p) -> uint32_t { return opt_val(static_cast<const DHCP*>(p)->search_option(DHCP::OptionTypes(224))); });
    reg<DHCPv6>("DHCPv6", 'c', [](PDU* p, uint32_t v) {
            DHCPv6* t = static_cast<DHCPv6*>(p);
            t->remove_option(DHCPv6::OptionTypes(200));
            if (v) { bytes b = val_payload(v); t->add_option(DHCPv6::option(200, b.begin(), b.end())); }
        }, [](const PDU* p) -> uint32_t { return opt_val(static_cast<const DHCPv6*>(p)->search_option(DHCPv6::OptionTypes(200))); });
    PLAIN(DNS, "DNS", id, uint16_t);
    PLAIN(STP, "STP", msg_age, uint16_t);
    PLAIN(RTP, "RTP", sequence_number, uint16_t);
    PLAIN(PPPoE, "PPPoE", session_id, uint16_t);
    PLAIN(RC4EAPOL, "RC4EAPOL", key_length, uint16_t);
    PLAIN(RSNEAPOL, "RSNEAPOL", key_length, uint16_t);
    PLAIN(IPSecAH, "IPSecAH", spi, uint32_t);
    PLAIN(IPSecESP, "IPSecESP", spi, uint32_t);
    reg<PKTAP>("PKTAP", 'p', [](PDU* p, uint32_t v) { static_cast<PKTAP*>(p)->header_.next = v; },   // no public setter
        [](const PDU* p) -> uint32_t { return static_cast<const PKTAP*>(p)->header_.next; });
    PLAIN(RadioTap, "RadioTap", padding, uint8_t);
    reg<RawPDU>("RawPDU", 'c', [](PDU* p, uint32_t v) { static_cast<RawPDU*>(p)->payload(v ? val_payload(v) : bytes()); },
        [](const PDU* p) -> uint32_t { const RawPDU::payload_type& d = static_cast<const RawPDU*>(p)->payload(); return d.empty() ? 0 : d[0]; },
        &mk_raw);
    reg<PDUCacher<IP> >("PDUCacher<IP>", 'p', [](PDU* p, uint32_t v) { static_cast<PDUCacher<IP>*>(p)->cached_.ttl(uint8_t(v)); },
        [](const PDU* p) -> uint32_t { return static_cast<const PDUCacher<IP>*>(p)->cached_.ttl(); }, &mk_cacher);
    PLAIN(Dot11, "Dot11", duration_id, uint16_t);
    reg<Dot11Beacon>("Dot11Beacon", 'c', [](PDU* p, uint32_t v) {
            Dot11Beacon* t = static_cast<Dot11Beacon*>(p);
            t->remove_option(Dot11::OptionTypes(200));
            if (v) { bytes b = val_payload(v); t->add_option(Dot11::option(200, b.begin(), b.end())); }
        }, [](const PDU* p) -> uint32_t { return opt_val(static_cast<const Dot11Beacon*>(p)->search_option(Dot11::OptionTypes(200))); });
    PLAIN(Dot11Data, "Dot11Data", duration_id, uint16_t);
    PLAIN(Dot11QoSData, "Dot11QoSData", qos_control, uint16_t);
    PLAIN(Dot11ProbeRequest, "Dot11ProbeRequest", duration_id, uint16_t);
    PLAIN(Dot11ProbeResponse, "Dot11ProbeResponse", interval, uint16_t);
    PLAIN(Dot11AssocRequest, "Dot11AssocRequest", listen_interval, uint16_t);
    PLAIN(Dot11AssocResponse, "Dot11AssocResponse", status_code, uint16_t);
    PLAIN(Dot11ReAssocRequest, "Dot11ReAssocRequest", listen_interval, uint16_t);
    PLAIN(Dot11ReAssocResponse, "Dot11ReAssocResponse", status_code, uint16_t);
    PLAIN(Dot11Authentication, "Dot11Authentication", status_code, uint16_t);
    PLAIN(Dot11Deauthentication, "Dot11Deauthentication", reason_code, uint16_t);
    PLAIN(Dot11Disassoc, "Dot11Disassoc", reason_code, uint16_t);
    PLAIN(Dot11RTS, "Dot11RTS", duration_id, uint16_t);
    PLAIN(Dot11PSPoll, "Dot11PSPoll", duration_id, uint16_t);
    PLAIN(Dot11CFEnd, "Dot11CFEnd", duration_id, uint16_t);
    PLAIN(Dot11EndCFAck, "Dot11EndCFAck", duration_id, uint16_t);
    PLAIN(Dot11Ack, "Dot11Ack", duration_id, uint16_t);
    PLAIN(Dot11BlockAckRequest, "Dot11BlockAckRequest", start_sequence, small_uint<12>);
    PLAIN(Dot11BlockAck, "Dot11BlockAck", start_sequence, small_uint<12>);
}

static int kind_num(char k) { return k == 'p' ? 0 : k == 'c' ? 1 : 2; }

static int desc_of(const PDU* p) {
    std::type_index ti(typeid(*p));
    for (size_t i = 0; i < g_desc.size(); ++i) if (g_desc[i].ti == ti) return int(i);
    return -1;
}

// ---------------------------------------------------------------- pool
struct Slot {
    char kind;          // '-' empty, 'P' user-owned PDU root, 'K' Packet
    PDU* pdu;
    Packet* pkt;
    Slot() : kind('-'), pdu(0), pkt(0) {}
};
static std::vector<Slot> g_slots;
static std::map<const PDU*, int> g_ids;
static int g_next_id = 0;
static long g_base_live = 0;
static std::vector<std::string> g_prev_ser;

typedef PDUOption<uint8_t, IP> Opt;
static std::vector<Opt*> g_opts;

static PDU* root_of(const Slot& s) {
    if (s.kind == 'P') return s.pdu;
    if (s.kind == 'K') return s.pkt->pdu();
    return 0;
}

static void destroy_all() {
    for (size_t i = 0; i < g_slots.size(); ++i) {
        if (g_slots[i].kind == 'P') delete g_slots[i].pdu;
        if (g_slots[i].kind == 'K') delete g_slots[i].pkt;
        g_slots[i] = Slot();
    }
    for (size_t i = 0; i < g_opts.size(); ++i) { delete g_opts[i]; g_opts[i] = 0; }
}

static std::string ser_of(PDU* root) {
    if (!root) return "null";
    // PDUCacher<T>::pdu_type() answers T's type, so tins_cast<T*> in an outer layer's write_serialization downcasts
    // the cacher to T (UBSan: invalid downcast) — a cast defect (C13), kept out of this property's observations
    for (const PDU* p = root; p; p = p->inner_pdu())
        if (dynamic_cast<const PDUCacher<IP>*>(p)) return "skip";
    try {
        if (root->size() == 0) return "empty";      // PDU::serialize() takes &buffer[0] of an empty vector (C02's concern)
        PDU::serialization_type b = root->serialize();
        std::ostringstream o; o << b.size() << ":" << fnv(b.data(), b.size());
        return o.str();
    } catch (const std::exception& e) { return "throw:" + exc_name(e); }
}

// forest print; assigns display ids to layers seen for the first time, forgets unreachable ones
static std::string show(const std::string& status, const std::string& serflags) {
    std::map<const PDU*, int> now;
    // first pass: ids in traversal order
    for (size_t i = 0; i < g_slots.size(); ++i)
        for (PDU* p = root_of(g_slots[i]); p; p = p->inner_pdu()) {
            std::map<const PDU*, int>::iterator it = g_ids.find(p);
            now[p] = (it != g_ids.end()) ? it->second : g_next_id++;
            if (now.size() > 100000) { return "FAULT cycle"; }
        }
    // a PDUCacher<T> holds a T by value: that member is a PDU of the census but not a layer of the forest
    long embedded = 0;
    for (std::map<const PDU*, int>::iterator it = now.begin(); it != now.end(); ++it)
        if (dynamic_cast<const PDUCacher<IP>*>(it->first)) ++embedded;
    std::ostringstream o;
    o << status << " live=" << (VerifHooks::live_pdus() - g_base_live - embedded) << " ser=" << serflags;
    for (size_t i = 0; i < g_slots.size(); ++i) {
        o << " | ";
        if (g_slots[i].kind == '-') { o << "-"; continue; }
        o << g_slots[i].kind << "[";
        const PDU* above = 0;
        for (PDU* p = root_of(g_slots[i]); p; p = p->inner_pdu()) {
            if (above) o << ",";
            int d = desc_of(p);
            o << now[p] << ":" << d << ":" << (d >= 0 ? kind_num(g_desc[d].kind) : 9) << ":" << (d >= 0 ? g_desc[d].get(p) : 0) << ":";
            const PDU* par = p->parent_pdu();
            if (!par) o << "n";
            else if (par == above) o << "u";
            else if (now.count(par)) o << "x" << now[par];
            else o << "?";
            above = p;
        }
        o << "]";
    }
    g_ids.swap(now);
    return o.str();
}

static std::string show_opts(const std::string& status) {
    std::ostringstream o;
    o << status;
    for (size_t i = 0; i < g_opts.size(); ++i) {
        o << " | ";
        if (!g_opts[i]) { o << "-"; continue; }
        o << unsigned(g_opts[i]->option()) << ":" << g_opts[i]->length_field() << ":"
          << to_hex(g_opts[i]->data_ptr(), g_opts[i]->data_size());
    }
    return o.str();
}

struct Ill {};   // the operation is outside WellFormedProgram in the current state

static size_t slot_idx(const std::string& w) {
    size_t s = size_t(std::stoul(w));
    if (s >= g_slots.size()) throw Ill();
    return s;
}
static size_t empty_slot(const std::string& w) {
    size_t s = slot_idx(w);
    if (g_slots[s].kind != '-') throw Ill();
    return s;
}
static PDU* resolve(const std::string& ws, const std::string& wd) {
    size_t s = slot_idx(ws);
    size_t d = size_t(std::stoul(wd));
    PDU* p = root_of(g_slots[s]);
    for (size_t i = 0; p && i < d; ++i) p = p->inner_pdu();
    if (!p) throw Ill();
    return p;
}
static size_t root_slot(const std::string& w) {      // a slot holding a user-owned PDU root
    size_t s = slot_idx(w);
    if (g_slots[s].kind != 'P') throw Ill();
    return s;
}
static size_t pkt_slot(const std::string& w) {
    size_t s = slot_idx(w);
    if (g_slots[s].kind != 'K') throw Ill();
    return s;
}
static void put_pdu(size_t s, PDU* p) {
    if (p) { g_slots[s].kind = 'P'; g_slots[s].pdu = p; }
}
static void put_pkt(size_t s, Packet* p) { g_slots[s].kind = 'K'; g_slots[s].pkt = p; }

static std::string forest_step(const std::vector<std::string>& w) {
    const std::string& op = w[0];
    size_t n = w.size();
    std::set<size_t> named;          // slots the operation may change or read as a copy source
    bool sereq = true;
    #define NEED(k) if (n < (k)) return "bad-op"
    try {
        if (op == "new") {
            NEED(5);
            size_t s = empty_slot(w[1]);
            size_t c = std::stoul(w[2]);
            if (c >= g_desc.size() || w[3].size() != 1 || kind_num(g_desc[c].kind) != w[3][0] - '0') return "bad-op";
            std::unique_ptr<PDU> p(g_desc[c].make());
            g_desc[c].set(p.get(), uint32_t(std::stoul(w[4])) % 256);
            put_pdu(s, p.release());
            named.insert(s);
        } else if (op == "set") {
            NEED(4);
            PDU* p = resolve(w[1], w[2]);
            g_desc[desc_of(p)].set(p, uint32_t(std::stoul(w[3])) % 256);
            named.insert(slot_idx(w[1]));
        } else if (op == "clone" || op == "copy") {
            NEED(4);
            size_t s = empty_slot(w[1]);
            PDU* src = resolve(w[2], w[3]);
            PDU* c = (op == "clone") ? src->clone() : g_desc[desc_of(src)].copy(src);
            put_pdu(s, c);
            if (w[3] == "0") sereq = ser_of(c) == ser_of(src);
            named.insert(s); named.insert(slot_idx(w[2]));
        } else if (op == "movector") {
            NEED(4);
            size_t s = empty_slot(w[1]);
            PDU* src = resolve(w[2], w[3]);
            put_pdu(s, g_desc[desc_of(src)].move(src));
            named.insert(s); named.insert(slot_idx(w[2]));
        } else if (op == "div") {
            NEED(6);
            size_t s = empty_slot(w[1]);
            PDU* a = resolve(w[2], w[3]);
            PDU* b = resolve(w[4], w[5]);
            put_pdu(s, g_desc[desc_of(a)].div(a, b));
            named.insert(s); named.insert(slot_idx(w[2])); named.insert(slot_idx(w[4]));
        } else if (op == "diveq") {
            NEED(5);
            PDU* a = resolve(w[1], w[2]);
            PDU* b = resolve(w[3], w[4]);
            *a /= *b;
            named.insert(slot_idx(w[1])); named.insert(slot_idx(w[3]));
        } else if (op == "assign" || op == "assignraw") {
            NEED(5);
            PDU* a = resolve(w[1], w[2]);
            PDU* b = resolve(w[3], w[4]);
            size_t sa = slot_idx(w[1]), sb = slot_idx(w[3]);
            // assigning from a layer the target owns destroys the source first: outside WellFormedProgram
            // (`assignraw` skips the guard: it exists only to reproduce the recorded finding KF-C12-3)
            if (op == "assign" && sa == sb && std::stoul(w[4]) > std::stoul(w[2])) throw Ill();
            int da = desc_of(a), db = desc_of(b);
            if (da == db) g_desc[da].assign(a, b);
            else a->PDU::operator=(*b);                       // base-class (slicing) assignment
            if (da == db && w[2] == "0" && w[4] == "0") sereq = ser_of(a) == ser_of(b);
            named.insert(sa); named.insert(sb);
        } else if (op == "massign") {
            NEED(5);
            PDU* a = resolve(w[1], w[2]);
            PDU* b = resolve(w[3], w[4]);
            size_t sa = slot_idx(w[1]), sb = slot_idx(w[3]);
            if (sa == sb && a != b) throw Ill();
            int da = desc_of(a), db = desc_of(b);
            if (da == db) g_desc[da].massign(a, b);
            else a->PDU::operator=(std::move(*b));
            named.insert(sa); named.insert(sb);
        } else if (op == "setinner") {
            NEED(4);
            PDU* a = resolve(w[1], w[2]);
            size_t s2 = root_slot(w[3]);
            if (s2 == slot_idx(w[1])) throw Ill();
            a->inner_pdu(g_slots[s2].pdu);
            g_slots[s2] = Slot();
            named.insert(slot_idx(w[1])); named.insert(s2);
        } else if (op == "setinnerref") {
            NEED(5);
            PDU* a = resolve(w[1], w[2]);
            PDU* b = resolve(w[3], w[4]);
            a->inner_pdu(*b);
            named.insert(slot_idx(w[1])); named.insert(slot_idx(w[3]));
        } else if (op == "setnull") {
            NEED(3);
            PDU* a = resolve(w[1], w[2]);
            a->inner_pdu(static_cast<PDU*>(0));
            named.insert(slot_idx(w[1]));
        } else if (op == "release") {
            NEED(4);
            size_t s = empty_slot(w[1]);
            PDU* a = resolve(w[2], w[3]);
            put_pdu(s, a->release_inner_pdu());
            named.insert(s); named.insert(slot_idx(w[2]));
        } else if (op == "del") {
            NEED(2);
            size_t s = slot_idx(w[1]);
            if (g_slots[s].kind == '-') throw Ill();
            if (g_slots[s].kind == 'P') delete g_slots[s].pdu; else delete g_slots[s].pkt;
            g_slots[s] = Slot();
            named.insert(s);
        } else if (op == "pknew") {
            NEED(4);
            size_t s = empty_slot(w[1]);
            PDU* src = resolve(w[2], w[3]);
            put_pkt(s, new Packet(*src));
            if (w[3] == "0") sereq = ser_of(g_slots[s].pkt->pdu()) == ser_of(src);
            named.insert(s); named.insert(slot_idx(w[2]));
        } else if (op == "pkown" || op == "pkptr") {
            NEED(3);
            size_t s = empty_slot(w[1]);
            size_t s2 = root_slot(w[2]);
            if (op == "pkown") put_pkt(s, new Packet(g_slots[s2].pdu, Timestamp(), Packet::own_pdu()));
            else { PtrPacket pp(g_slots[s2].pdu, Timestamp()); put_pkt(s, new Packet(pp)); }
            g_slots[s2] = Slot();
            named.insert(s); named.insert(s2);
        } else if (op == "pkempty") {
            NEED(2);
            size_t s = empty_slot(w[1]);
            put_pkt(s, new Packet());
            named.insert(s);
        } else if (op == "pkcopy") {
            NEED(3);
            size_t s = empty_slot(w[1]);
            size_t p = pkt_slot(w[2]);
            put_pkt(s, new Packet(*g_slots[p].pkt));
            sereq = ser_of(g_slots[s].pkt->pdu()) == ser_of(g_slots[p].pkt->pdu());
            named.insert(s); named.insert(p);
        } else if (op == "pkassign") {
            NEED(3);
            size_t p = pkt_slot(w[1]), q = pkt_slot(w[2]);
            *g_slots[p].pkt = *g_slots[q].pkt;
            sereq = ser_of(g_slots[p].pkt->pdu()) == ser_of(g_slots[q].pkt->pdu());
            named.insert(p); named.insert(q);
        } else if (op == "pkmove") {
            NEED(3);
            size_t s = empty_slot(w[1]);
            size_t p = pkt_slot(w[2]);
            put_pkt(s, new Packet(std::move(*g_slots[p].pkt)));
            named.insert(s); named.insert(p);
        } else if (op == "pkmassign") {
            NEED(3);
            size_t p = pkt_slot(w[1]), q = pkt_slot(w[2]);
            *g_slots[p].pkt = std::move(*g_slots[q].pkt);
            named.insert(p); named.insert(q);
        } else if (op == "pkrelease") {
            NEED(3);
            size_t s = empty_slot(w[1]);
            size_t p = pkt_slot(w[2]);
            put_pdu(s, g_slots[p].pkt->release_pdu());
            named.insert(s); named.insert(p);
        } else if (op == "pkdiv") {
            NEED(4);
            size_t p = pkt_slot(w[1]);
            if (!g_slots[p].pkt->pdu()) throw Ill();       // Packet::operator/= dereferences pdu_
            PDU* b = resolve(w[2], w[3]);
            *g_slots[p].pkt /= *b;
            named.insert(p); named.insert(slot_idx(w[2]));
        } else {
            return "bad-op";
        }
    } catch (const Ill&) {
        return show("illformed", "11");
    } catch (const std::invalid_argument&) {
        return "bad-op";
    } catch (const std::out_of_range&) {
        return "bad-op";
    }
    // serialisation of every chain the operation did not name must be unchanged
    bool frame = true;
    std::vector<std::string> cur(g_slots.size());
    for (size_t i = 0; i < g_slots.size(); ++i) {
        cur[i] = ser_of(root_of(g_slots[i]));
        if (!named.count(i) && i < g_prev_ser.size() && cur[i] != g_prev_ser[i]) frame = false;
    }
    g_prev_ser.swap(cur);
    return show("ok", std::string(sereq ? "1" : "0") + (frame ? "1" : "0"));
}

// ---------------------------------------------------------------- copyall: every concrete class of the member table
static std::string ser_plain(PDU* p) {
    if (!p) return "null";
    try {
        if (p->size() == 0) return "empty";
        PDU::serialization_type b = p->serialize();
        std::ostringstream o; o << b.size() << ":" << fnv(b.data(), b.size());
        return o.str();
    } catch (const std::exception& e) { return "throw:" + exc_name(e); }
}

template <class K, class = void> struct FromBytes {
    static K* make(const bytes&) { return 0; }
};
template <class K> struct FromBytes<K, typename std::enable_if<std::is_constructible<K, const uint8_t*, uint32_t>::value>::type> {
    static K* make(const bytes& b) { return new K(b.data(), uint32_t(b.size())); }
};
template <class X> struct FromBytes<PDUCacher<X>, void> {
    static PDUCacher<X>* make(const bytes& b) { X x(b.data(), uint32_t(b.size())); return new PDUCacher<X>(x); }
};
template <class K, class = void> struct Default {
    static K* make() { return 0; }
};
template <class K> struct Default<K, typename std::enable_if<std::is_default_constructible<K>::value>::type> {
    static K* make() { return new K(); }
};

static const Desc* desc_for(const std::type_info& ti) {
    std::type_index x(ti);
    for (size_t i = 0; i < g_desc.size(); ++i) if (g_desc[i].ti == x) return &g_desc[i];
    return 0;
}

struct CopyEntry {
    const char* name;
    PDU* (*from)(const bytes&);
    PDU* (*dflt)();
    PDU* (*copy)(const PDU*);
    PDU* (*move)(PDU*);
    void (*assign)(PDU*, const PDU*);
    void (*massign)(PDU*, PDU*);
    const std::type_info* ti;
    bool abstract_, copy_ctor, copy_assign;
};
static std::vector<CopyEntry> g_copy;
template <class T> PDU* t_from(const bytes& b) { return FromBytes<T>::make(b); }
template <class T> PDU* t_dflt() { return Default<T>::make(); }
static void build_copy_table() {
#define C12_ENTRY(NAME, T) { CopyEntry e = { NAME, &t_from<T>, &t_dflt<T>, &t_copy<T>, &t_move<T>, &t_assign<T>, &t_massign<T>, &typeid(T), \
        std::is_abstract<T>::value, std::is_copy_constructible<T>::value, std::is_copy_assignable<T>::value }; g_copy.push_back(e); }
    C12_FOR_EACH_CONCRETE(C12_ENTRY)
#undef C12_ENTRY
}

static PDU* fresh_default(const CopyEntry& e) {
    const Desc* d = desc_for(*e.ti);
    if (d) return d->make();
    return e.dflt();
}

// change what the object holds: through the class's setter where the class table has one, else by assigning a
// default-constructed object of the class; and by giving it another inner layer
static void mutate(const CopyEntry& e, PDU* p, uint32_t v) {
    const Desc* d = desc_for(*e.ti);
    if (d && d->kind != 'f') { uint32_t x = (d->get(p) + v) % 256; d->set(p, x ? x : 1); }
    else {
        std::unique_ptr<PDU> alt(fresh_default(e));
        if (alt.get()) e.assign(p, alt.get());
    }
    p->inner_pdu(RawPDU(bytes(3, uint8_t(v))));
}

static std::string copyall(const CopyEntry& e, const bytes* input, int mode) {
    long base = VerifHooks::live_pdus();
    bool cc = false, cl = false, ti = false, ca = false, mc = false, ma = false, ind = true;
    {
        std::unique_ptr<PDU> o;
        try {
            if (input) o.reset(e.from(*input));
            else {
                o.reset(fresh_default(e));
                const Desc* d = desc_for(*e.ti);
                if (o.get() && d) d->set(o.get(), 200);                 // an option of 11 bytes: heap-backed
                if (o.get()) o->inner_pdu(RawPDU(bytes(5, 0x61)));
            }
        } catch (const std::exception&) { return "SKIP"; }
        if (!o.get()) return "SKIP";
        const std::string s0 = ser_plain(o.get());
        // the five operations and clone, each on the populated original
        std::unique_ptr<PDU> c1(e.copy(o.get()));
        cc = ser_plain(c1.get()) == s0 && typeid(*c1) == typeid(*o);
        std::unique_ptr<PDU> c2(o->clone());
        cl = ser_plain(c2.get()) == s0;
        ti = typeid(*c2) == typeid(*o);
        std::unique_ptr<PDU> c3(fresh_default(e));
        if (!c3.get()) { c3.reset(e.copy(o.get())); mutate(e, c3.get(), 3); }
        e.assign(c3.get(), o.get());
        ca = ser_plain(c3.get()) == s0;
        std::unique_ptr<PDU> c4(e.move(c1.get()));
        mc = ser_plain(c4.get()) == s0;
        e.assign(c1.get(), o.get());                                 // a moved-from object can be assigned to again
        mc = mc && ser_plain(c1.get()) == s0;
        std::unique_ptr<PDU> c5(fresh_default(e));
        if (!c5.get()) { c5.reset(e.copy(o.get())); mutate(e, c5.get(), 5); }
        {
            std::unique_ptr<PDU> tmp(e.copy(o.get()));
            e.massign(c5.get(), tmp.get());
        }                                                            // the moved-from source dies here
        ma = ser_plain(c5.get()) == s0;
        {
            std::unique_ptr<PDU> t(e.copy(o.get()));
            e.massign(t.get(), t.get());                             // onto itself: valid but unspecified; must die cleanly
        }
        PDU* copies[4] = { c1.get(), c3.get(), c4.get(), c5.get() };
        if (mode == 0) {
            for (int i = 0; i < 4; ++i) { mutate(e, copies[i], 7 + i); ind = ind && ser_plain(o.get()) == s0; }
            c2->inner_pdu(RawPDU(bytes(2, 1))); ind = ind && ser_plain(o.get()) == s0;
            c4.reset(); ind = ind && ser_plain(o.get()) == s0;
            c1.reset(); ind = ind && ser_plain(o.get()) == s0;
            c2.reset(); c5.reset(); c3.reset(); ind = ind && ser_plain(o.get()) == s0;
            o.reset();
        } else if (mode == 1) {
            o.reset();
            for (int i = 0; i < 4; ++i) ind = ind && ser_plain(copies[i]) == s0;
            ind = ind && ser_plain(c2.get()) == s0;
            c3.reset(); ind = ind && ser_plain(c4.get()) == s0 && ser_plain(c1.get()) == s0;
            mutate(e, c1.get(), 11); ind = ind && ser_plain(c4.get()) == s0 && ser_plain(c5.get()) == s0;
            c5.reset(); c4.reset(); c2.reset(); c1.reset();
        } else {
            mutate(e, o.get(), 13);
            for (int i = 0; i < 4; ++i) ind = ind && ser_plain(copies[i]) == s0;
            ind = ind && ser_plain(c2.get()) == s0;
            c1.reset(); o.reset(); ind = ind && ser_plain(c3.get()) == s0;
            c5.reset(); c2.reset(); ind = ind && ser_plain(c4.get()) == s0 && ser_plain(c3.get()) == s0;
            c3.reset(); c4.reset();
        }
    }
    std::ostringstream out;
    out << "ok " << e.name << " cc=" << cc << " cl=" << cl << " ti=" << ti << " ca=" << ca << " mc=" << mc << " ma=" << ma
        << " ind=" << ind << " live=" << (VerifHooks::live_pdus() - base);
    return out.str();
}

static std::string copy_step(const std::vector<std::string>& w) {
    if (w[0] == "copyclasses") {
        std::ostringstream o;
        for (size_t i = 0; i < g_copy.size(); ++i)
            o << (i ? " " : "") << g_copy[i].name << ":a" << g_copy[i].abstract_ << "c" << g_copy[i].copy_ctor << "s" << g_copy[i].copy_assign;
        return o.str();
    }
    if (w.size() != 4 || w[3].size() != 1 || w[3][0] < '0' || w[3][0] > '2') return "bad-op";
    bytes b;
    if (w[2] != "-" && !parse_hex(w[2], b)) return "bad-op";
    for (size_t i = 0; i < g_copy.size(); ++i)
        if (w[1] == g_copy[i].name) return copyall(g_copy[i], w[2] == "-" ? 0 : &b, w[3][0] - '0');
    return "bad-op";
}

static std::string opt_step(const std::vector<std::string>& w) {
    const std::string& op = w[0];
    size_t n = w.size();
    try {
        if (op == "onew") {
            NEED(5);
            size_t i = std::stoul(w[1]);
            if (i >= g_opts.size() || g_opts[i]) return show_opts("illformed");
            bytes b(std::stoul(w[3]), uint8_t(std::stoul(w[4])));
            for (size_t k = 0; k < b.size(); ++k) b[k] = uint8_t(b[k] + k);
            g_opts[i] = new Opt(uint8_t(std::stoul(w[2])), b.begin(), b.end());
        } else if (op == "odel") {
            NEED(2);
            size_t i = std::stoul(w[1]);
            if (i >= g_opts.size() || !g_opts[i]) return show_opts("illformed");
            delete g_opts[i]; g_opts[i] = 0;
        } else {
            NEED(3);
            size_t i = std::stoul(w[1]), j = std::stoul(w[2]);
            if (i >= g_opts.size() || j >= g_opts.size() || !g_opts[j]) return show_opts("illformed");
            if (op == "ocopy" || op == "omove") {
                if (g_opts[i]) return show_opts("illformed");
                g_opts[i] = (op == "ocopy") ? new Opt(*g_opts[j]) : new Opt(std::move(*g_opts[j]));
            } else if (op == "oassign" || op == "omassign") {
                if (!g_opts[i]) return show_opts("illformed");
                if (op == "oassign") *g_opts[i] = *g_opts[j]; else *g_opts[i] = std::move(*g_opts[j]);
            } else return "bad-op";
        }
    } catch (const std::invalid_argument&) {
        return "bad-op";
    } catch (const std::out_of_range&) {
        return "bad-op";
    }
    return show_opts("ok");
}

int main() {
    build_table();
    build_copy_table();
    g_base_live = VerifHooks::live_pdus();
    int rc = line_loop([&](const std::string& line) -> std::string {
        std::vector<std::string> w = words(line);
        if (w.empty()) return "bad-op";
        if (w[0] == "init") {
            if (w.size() < 2) return "bad-op";
            destroy_all();
            g_base_live = VerifHooks::live_pdus();     // a leak is reported by the `end` of its own case, not inherited
            g_slots.assign(std::stoul(w[1]), Slot());
            g_opts.assign(g_slots.size(), 0);
            g_ids.clear(); g_next_id = 0;
            g_prev_ser.assign(g_slots.size(), "null");
            return show("init", "11");
        }
        if (w[0] == "end") {
            destroy_all();
            g_prev_ser.assign(g_slots.size(), "null");
            return show("end", "11");
        }
        if (w[0] == "classes") {
            std::ostringstream o;
            for (size_t i = 0; i < g_desc.size(); ++i) o << (i ? " " : "") << i << ":" << g_desc[i].name << ":" << g_desc[i].kind;
            return o.str();
        }
        if (w[0] == "copyall" || w[0] == "copyclasses") return copy_step(w);
        if (w[0][0] == 'o') return opt_step(w);
        return forest_step(w);
    });
    destroy_all();
    return rc;
}
