// C01 tie for the stream models: drives the real Memory::InputMemoryStream / OutputMemoryStream.
//   cinit <hex> | cread n | cskip n | cshrink m | cpeek i n | cbool
//   oinit n | owrite <hex> | oskip n | ofill n v | obuf
#include "common.h"
#include <tins/memory_helpers.h>
#include <memory>
using namespace Tins;
using namespace Tins::Memory;
using namespace vh;

int main() {
    bytes in;
    std::unique_ptr<uint8_t[]> blk;
    std::unique_ptr<InputMemoryStream> is;
    bytes out;
    std::unique_ptr<OutputMemoryStream> os;
    return line_loop([&](const std::string& line) -> std::string {
        auto w = words(line);
        std::ostringstream o;
        if (w.size() == 2 && w[0] == "cinit") {
            if (!parse_hex(w[1], in)) return "bad-op";
            blk.reset(new uint8_t[in.size() ? in.size() : 1]);
            if (!in.empty()) memcpy(blk.get(), in.data(), in.size());
            is.reset(new InputMemoryStream(blk.get(), in.size()));
            o << "ok size=" << is->size();
            return o.str();
        }
        if (w.size() == 2 && w[0] == "oinit") {
            out.assign(std::stoul(w[1]), 0);
            out.shrink_to_fit();
            static uint8_t none[1];
            os.reset(new OutputMemoryStream(out.empty() ? none : &out[0], out.size()));
            o << "ok size=" << os->size();
            return o.str();
        }
        if (w[0][0] == 'c') {
            if (!is) return "bad-op";
            if (w[0] == "cread" && w.size() == 2) {
                bytes v;
                is->read(v, std::stoul(w[1]));
                o << "ok " << to_hex(v) << " size=" << is->size();
            } else if (w[0] == "cskip" && w.size() == 2) {
                is->skip(std::stoul(w[1]));
                o << "ok size=" << is->size();
            } else if (w[0] == "cshrink" && w.size() == 2) {
                size_t m = std::stoul(w[1]);
                if (m > is->size()) throw malformed_packet();   // the guard every call site establishes
                is->size(m);
                o << "ok size=" << is->size();
            } else if (w[0] == "cpeek" && w.size() == 3) {
                size_t i = std::stoul(w[1]), n = std::stoul(w[2]);
                if (i + n > is->size()) throw malformed_packet();
                o << "ok " << to_hex(is->pointer() + i, n) << " size=" << is->size();
            } else if (w[0] == "cbool") {
                o << "ok " << (*is ? 1 : 0) << " size=" << is->size();
            } else return "bad-op";
            return o.str();
        }
        if (!os) return "bad-op";
        if (w[0] == "owrite" && w.size() == 2) {
            bytes v;
            if (!parse_hex(w[1], v)) return "bad-op";
            os->write(v.begin(), v.end());
            o << "ok size=" << os->size();
        } else if (w[0] == "oskip" && w.size() == 2) {
            os->skip(std::stoul(w[1]));
            o << "ok size=" << os->size();
        } else if (w[0] == "ofill" && w.size() == 3) {
            os->fill(std::stoul(w[1]), uint8_t(std::stoul(w[2])));
            o << "ok size=" << os->size();
        } else if (w[0] == "obuf") {
            o << "ok " << to_hex(out) << " size=" << os->size();
        } else return "bad-op";
        return o.str();
    });
}
