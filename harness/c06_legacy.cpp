// C06 correspondence harness (legacy follower): drives the real TCPStreamFollower / TCPStream with real IP/TCP/RawPDU
// packets.  Compiled with -fno-access-control so the private per-direction state (sequence numbers, fragment maps)
// can be printed next to the public client_payload()/server_payload().
//   linit <cisn> <sisn> [hex]     fresh follower; SYN (client seq cisn-1), SYN+ACK (server seq sisn-1, ack cisn)
//   lseg  c|s <seq> <hex> [@off]  IP / TCP(seq, ACK) / RawPDU(hex) from the client (c) or the server (s)
//   lsegp c|s <seq> <hex> [@off]  the same packet serialized and re-parsed first (as a sniffer delivers it)
//   lbare c|s <seq>               IP / TCP(seq, ACK) without payload layer
// result: "r=<data callback calls> end=<end callback calls> c=<seq>/<plen>/<fnv>/<frags> s=<seq>/<plen>/<fnv>/<frags>"
//
// session table (any number of interleaved connections; addresses are the raw `ip_addr_` values):
//   minit                                                     fresh follower
//   mconn <i> <ca> <sa> <cp> <sp> <cisn> <sisn> <chex> <shex>  declaration for the spec oracle only ("decl")
//   mpkt  <src> <dst> <sport> <dport> <flags> <seq> <ack> <hex|-|~> [@off]
//                                                             IP(src,dst) / TCP(sport,dport,flags,seq,ack) [/ RawPDU(hex)];
//                                                             "-" = RawPDU with empty payload, "~" = no payload layer
//   mpktp ...                                                 the same packet serialized and re-parsed first
// result: "ev=<functor trace> sess=<session table in std::map order>"
//   functor trace: D<id>/<clen>.<cfnv>/<slen>.<sfnv> (data functor) and E<id>/... (end functor) in call order, "," separated;
//                  the payload sizes / hashes are those of the TCPStream& the functor is handed, at the time of the call
//   session: <key ca.sa.cp.sp>|<id>|<info_ ca.sa.cp.sp>|<syn_ack_sent_><fin_sent_>|<client dir>|<server dir>, ";" separated
#include "common.h"
#include "c06_show.h"
#include <tins/tcp_stream.h>
#include <tins/ip.h>
#include <tins/tcp.h>
#include <tins/rawpdu.h>
#include <memory>
using namespace Tins;
using namespace vh;

struct Ctx {
    std::unique_ptr<TCPStreamFollower> fol;
    int data_calls = 0, end_calls = 0;
    std::vector<std::string> trace;
};

static std::string frags(const std::map<uint32_t, RawPDU*>& m) {
    std::ostringstream o;
    bool first = true;
    for (auto& kv : m) {
        if (!first) o << ",";
        first = false;
        o << show_chunk(kv.first, kv.second->payload());
    }
    return o.str();
}

static std::string show(Ctx& c) {
    std::ostringstream o;
    o << "r=" << c.data_calls << " end=" << c.end_calls;
    if (c.fol->sessions_.empty()) { o << " nostream"; return o.str(); }
    const TCPStream& st = c.fol->sessions_.begin()->second;
    o << " c=" << st.client_seq_ << "/" << st.client_payload().size() << "/" << fnv(st.client_payload()) << "/" << frags(st.client_frags_)
      << " s=" << st.server_seq_ << "/" << st.server_payload().size() << "/" << fnv(st.server_payload()) << "/" << frags(st.server_frags_);
    return o.str();
}

static std::string show_info(const TCPStream::StreamInfo& i) {
    std::ostringstream o;
    o << i.client_addr.ip_addr_ << "." << i.server_addr.ip_addr_ << "." << i.client_port << "." << i.server_port;
    return o.str();
}

static std::string show_dir(uint32_t seq, const TCPStream::payload_type& pl, const std::map<uint32_t, RawPDU*>& fr) {
    std::ostringstream o;
    o << seq << "/" << pl.size() << "/" << fnv(pl) << "/" << frags(fr);
    return o.str();
}

static std::string show_event(char kind, const TCPStream& st) {
    std::ostringstream o;
    o << kind << st.id() << "/" << st.client_payload().size() << "." << fnv(st.client_payload())
      << "/" << st.server_payload().size() << "." << fnv(st.server_payload());
    return o.str();
}

static std::string show_table(Ctx& c) {
    std::ostringstream o;
    o << "ev=";
    if (c.trace.empty()) o << "-";
    for (size_t i = 0; i < c.trace.size(); ++i) o << (i ? "," : "") << c.trace[i];
    o << " sess=";
    if (c.fol->sessions_.empty()) o << "-";
    bool first = true;
    for (auto& kv : c.fol->sessions_) {
        if (!first) o << ";";
        first = false;
        const TCPStream& st = kv.second;
        o << show_info(kv.first) << "|" << st.id() << "|" << show_info(st.stream_info()) << "|"
          << (st.syn_ack_sent_ ? 1 : 0) << (st.is_finished() ? 1 : 0) << "|"
          << show_dir(st.client_seq_, st.client_payload(), st.client_frags_) << "|"
          << show_dir(st.server_seq_, st.server_payload(), st.server_frags_);
    }
    return o.str();
}

static void feed(Ctx& c, IP& ip, bool reparse) {
    Ctx* p = &c;
    auto data_fun = [p](TCPStream& st) { p->data_calls++; p->trace.push_back(show_event('D', st)); };
    auto end_fun = [p](TCPStream& st) { p->end_calls++; p->trace.push_back(show_event('E', st)); };
    if (reparse) {
        std::vector<uint8_t> wire = ip.serialize();
        std::vector<IP> v(1, IP(wire.data(), uint32_t(wire.size())));
        c.fol->follow_streams(v.begin(), v.end(), data_fun, end_fun);
    } else {
        std::vector<IP> v(1, ip);
        c.fol->follow_streams(v.begin(), v.end(), data_fun, end_fun);
    }
}

static IP packet(bool from_client, uint32_t seq, uint32_t ack, int flags, const bytes* payload) {
    IP ip = from_client ? IP("10.0.0.2", "10.0.0.1") / TCP(80, 4321) : IP("10.0.0.1", "10.0.0.2") / TCP(4321, 80);
    TCP& tcp = ip.rfind_pdu<TCP>();
    tcp.seq(seq); tcp.ack_seq(ack); tcp.flags(flags);
    if (payload) tcp.inner_pdu(RawPDU(payload->begin(), payload->end()));
    return ip;
}

int main() {
    Ctx c;
    c.fol.reset(new TCPStreamFollower());
    return line_loop([&](const std::string& line) -> std::string {
        auto w = words(line);
        c.data_calls = 0; c.end_calls = 0; c.trace.clear();
        if (!w.empty() && w[0] == "minit") {
            c.fol.reset(new TCPStreamFollower());
            return show_table(c);
        }
        if (!w.empty() && w[0] == "mconn") return "decl";
        if (w.size() >= 9 && (w[0] == "mpkt" || w[0] == "mpktp")) {
            IPv4Address src, dst;     // the op carries the stored member itself (what operator< / operator== compare)
            src.ip_addr_ = uint32_t(std::stoull(w[1])); dst.ip_addr_ = uint32_t(std::stoull(w[2]));
            IP ip = IP(dst, src) / TCP(uint16_t(std::stoul(w[4])), uint16_t(std::stoul(w[3])));
            TCP& tcp = ip.rfind_pdu<TCP>();
            tcp.flags(small_uint<12>(uint16_t(std::stoul(w[5]) & 0xfff)));
            tcp.seq(uint32_t(std::stoull(w[6]))); tcp.ack_seq(uint32_t(std::stoull(w[7])));
            if (w[8] != "~") {
                bytes d;
                if (!parse_hex(w[8], d)) return "bad-op";
                tcp.inner_pdu(RawPDU(d.begin(), d.end()));
            }
            feed(c, ip, w[0] == "mpktp");
            return show_table(c);
        }
        if (w.size() >= 3 && w[0] == "linit") {
            c.fol.reset(new TCPStreamFollower());
            uint32_t cisn = uint32_t(std::stoull(w[1])), sisn = uint32_t(std::stoull(w[2]));
            IP syn = packet(true, cisn - 1, 0, TCP::SYN, 0);
            feed(c, syn, false);
            IP synack = packet(false, sisn - 1, cisn, TCP::SYN | TCP::ACK, 0);
            feed(c, synack, false);
            return show(c);
        }
        if (w.size() >= 4 && (w[0] == "lseg" || w[0] == "lsegp")) {
            bytes d;
            if (!parse_hex(w[3], d)) return "bad-op";
            IP ip = packet(w[1] == "c", uint32_t(std::stoull(w[2])), 0, TCP::ACK, &d);
            feed(c, ip, w[0] == "lsegp");
            return show(c);
        }
        if (w.size() >= 3 && w[0] == "lbare") {
            IP ip = packet(w[1] == "c", uint32_t(std::stoull(w[2])), 0, TCP::ACK, 0);
            feed(c, ip, false);
            return show(c);
        }
        return "bad-op";
    });
}
