// ip family — nothing modelled yet (stub)
#pragma once
#include "wire_iface.h"
namespace wire {
inline bool ip_dump(const PDU&, std::string&) { return false; }
inline PDU* ip_mk(const std::string&, const std::vector<std::string>&) { return 0; }
inline bool ip_apply(PDU&, const std::vector<std::string>&) { return false; }
inline bool ip_sweep(const PDU&, std::string&) { return false; }
} // namespace wire
