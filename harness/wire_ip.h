// Ip family: IP (IPv4 with its options), IPSecAH, IPSecESP
// Field names, order and value formats are those of lean/TinsModel/Wire/Ip/{Ip4,Ah}.lean `fields`.
#pragma once
#include "wire_iface.h"
#include <memory>
namespace wire {

inline unsigned long ip_num(const std::string& s) { return std::stoul(s); }
inline bool ip_hex(const std::string& s, bytes& b) { return vh::parse_hex(s, b); }

inline bool ip_addr_arg(const std::string& s, IPv4Address& out) {
    bytes b;
    if (!vh::parse_hex(s, b) || b.size() != 4) return false;
    uint32_t v;
    memcpy(&v, b.data(), 4);            // network order in memory, as IPv4Address keeps it
    out = IPv4Address(v);
    return true;
}

// the option_identifier octet: copied << 7 | op_class << 5 | number
inline unsigned ip_opt_type(const IP::option_identifier& id) { return (unsigned(id.copied) << 7) | (unsigned(id.op_class) << 5) | unsigned(id.number); }

template <typename F>
inline std::string ip_typed(F f) {
    try {
        return f();
    } catch (const option_not_found&) {
        return "nf";
    } catch (const malformed_option&) {
        return "malformed_option";
    }
}

inline std::string ip_route_str(const IP::generic_route_option_type& r) {
    std::ostringstream o;
    o << unsigned(r.pointer) << ":";
    for (size_t i = 0; i < r.routes.size(); ++i) {
        if (i) o << ".";
        o << hex_of(r.routes[i]);
    }
    return o.str();
}

inline bool ip_dump(const PDU& p, std::string& out) {
    switch (p.pdu_type()) {
    case PDU::IP: {
        const IP& ip = static_cast<const IP&>(p);
        std::string opts;
        unsigned eol = 0;
        for (IP::options_type::const_iterator it = ip.options().begin(); it != ip.options().end(); ++it) {
            unsigned t = ip_opt_type(it->option());
            if (t == 0) { ++eol; continue; }
            if (!opts.empty()) opts += ",";
            std::ostringstream o;
            o << t << ":" << it->length_field() << ":" << vh::to_hex(it->data_ptr(), it->data_size());
            opts += o.str();
        }
        if (opts.empty()) opts = "-";
        out = FieldDump().num("version", uint32_t(ip.version())).num("~head_len", uint32_t(ip.head_len())).num("tos", ip.tos())
                  .num("~tot_len", ip.tot_len()).num("id", ip.id()).num("flags", uint32_t(ip.flags()))
                  .num("fragment_offset", uint32_t(ip.fragment_offset())).num("ttl", ip.ttl()).num("^protocol", ip.protocol())
                  .num("~checksum", ip.checksum()).str("src_addr", hex_of(ip.src_addr())).str("dst_addr", hex_of(ip.dst_addr()))
                  .str("opts", opts).num("~eol", eol)
                  .str("security", ip_typed([&]() -> std::string {
                      IP::security_type s = ip.security();
                      std::ostringstream o;
                      o << s.security << "." << s.compartments << "." << s.handling_restrictions << "."
                        << uint32_t(s.transmission_control);
                      return o.str(); }))
                  .str("stream_identifier", ip_typed([&]() -> std::string {
                      std::ostringstream o; o << ip.stream_identifier(); return o.str(); }))
                  .str("lsrr", ip_typed([&]() -> std::string { return ip_route_str(ip.lsrr()); }))
                  .str("ssrr", ip_typed([&]() -> std::string { return ip_route_str(ip.ssrr()); }))
                  .str("record_route", ip_typed([&]() -> std::string { return ip_route_str(ip.record_route()); }))
                  .done();
        return true;
    }
    case PDU::IPSEC_AH: {
        const IPSecAH& a = static_cast<const IPSecAH&>(p);
        out = FieldDump().num("^next_header", a.next_header()).num("~length", a.length()).num("spi", a.spi())
                  .num("seq_number", a.seq_number()).str("icv", vh::to_hex(a.icv())).done();
        return true;
    }
    case PDU::IPSEC_ESP: {
        const IPSecESP& e = static_cast<const IPSecESP&>(p);
        out = FieldDump().num("spi", e.spi()).num("seq_number", e.seq_number()).done();
        return true;
    }
    default:
        return false;
    }
}

inline PDU* ip_mk(const std::string& cls, const std::vector<std::string>& a) {
    if (cls == "IP") {
        IPv4Address d, s;
        if (a.size() == 2 && ip_addr_arg(a[0], d) && ip_addr_arg(a[1], s)) return new IP(d, s);
        return new IP();
    }
    if (cls == "IPSecAH") return new IPSecAH();
    if (cls == "IPSecESP") return new IPSecESP();
    return 0;
}

inline bool ip_route_arg(const std::string& ptr, const std::string& list, IP::generic_route_option_type& out) {
    bytes b;
    if (!ip_hex(list, b) || b.size() % 4 != 0) return false;
    out.pointer = uint8_t(ip_num(ptr));
    for (size_t i = 0; i < b.size(); i += 4) {
        uint32_t v;
        memcpy(&v, &b[i], 4);
        out.routes.push_back(IPv4Address(v));
    }
    return true;
}

inline bool ip_apply(PDU& p, const std::vector<std::string>& op) {
    const size_t n = op.size();
    switch (p.pdu_type()) {
    case PDU::IP: {
        IP& ip = static_cast<IP&>(p);
        if (n == 1 && op[0] == "eol") { ip.eol(); return true; }
        if (n == 1 && op[0] == "noop") { ip.noop(); return true; }
        if (n == 3 && op[0] == "add_option") {
            bytes b;
            if (!ip_hex(op[2], b)) return false;
            ip.add_option(IP::option(IP::option_identifier(uint8_t(ip_num(op[1]))), b.begin(), b.end()));
            return true;
        }
        if (n == 4 && op[0] == "add_option_len") {
            bytes b;
            if (!ip_hex(op[3], b)) return false;
            const IP::option o(IP::option_identifier(uint8_t(ip_num(op[1]))), uint16_t(ip_num(op[2])), b.begin(), b.end());
            ip.add_option(o);                                  // the `add_option(const option&)` overload
            return true;
        }
        if (n == 2 && op[0] == "remove_option") {
            ip.remove_option(IP::option_identifier(uint8_t(ip_num(op[1]))));
            return true;
        }
        if (n == 5 && op[0] == "security") {
            ip.security(IP::security_type(uint16_t(ip_num(op[1])), uint16_t(ip_num(op[2])), uint16_t(ip_num(op[3])),
                                          uint32_t(ip_num(op[4]) & 0xffffff)));
            return true;
        }
        if (n == 3 && (op[0] == "lsrr" || op[0] == "ssrr" || op[0] == "record_route")) {
            IP::generic_route_option_type r;
            if (!ip_route_arg(op[1], op[2], r)) return false;
            if (op[0] == "lsrr") ip.lsrr(r);
            else if (op[0] == "ssrr") ip.ssrr(r);
            else ip.record_route(r);
            return true;
        }
        if (n != 2) return false;
        if (op[0] == "src_addr" || op[0] == "dst_addr") {
            IPv4Address a;
            if (!ip_addr_arg(op[1], a)) return false;
            if (op[0] == "src_addr") ip.src_addr(a); else ip.dst_addr(a);
            return true;
        }
        unsigned long v = ip_num(op[1]);
        if (op[0] == "tos") { ip.tos(uint8_t(v)); return true; }
        if (op[0] == "id") { ip.id(uint16_t(v)); return true; }
        if (op[0] == "fragment_offset") { ip.fragment_offset(uint16_t(v & 0x1fff)); return true; }
        if (op[0] == "flags") { ip.flags(IP::Flags(v & 7)); return true; }
        if (op[0] == "ttl") { ip.ttl(uint8_t(v)); return true; }
        if (op[0] == "protocol") { ip.protocol(uint8_t(v)); return true; }
        if (op[0] == "version") { ip.version(uint8_t(v & 15)); return true; }
        if (op[0] == "stream_identifier") { ip.stream_identifier(uint16_t(v)); return true; }
        return false;
    }
    case PDU::IPSEC_AH: {
        IPSecAH& a = static_cast<IPSecAH&>(p);
        if (n != 2) return false;
        if (op[0] == "icv") {
            bytes b;
            if (!ip_hex(op[1], b)) return false;
            a.icv(b);
            return true;
        }
        unsigned long v = ip_num(op[1]);
        if (op[0] == "next_header") { a.next_header(uint8_t(v)); return true; }
        if (op[0] == "length") { a.length(uint8_t(v)); return true; }
        if (op[0] == "spi") { a.spi(uint32_t(v)); return true; }
        if (op[0] == "seq_number") { a.seq_number(uint32_t(v)); return true; }
        return false;
    }
    case PDU::IPSEC_ESP: {
        IPSecESP& e = static_cast<IPSecESP&>(p);
        if (n != 2) return false;
        unsigned long v = ip_num(op[1]);
        if (op[0] == "spi") { e.spi(uint32_t(v)); return true; }
        if (op[0] == "seq_number") { e.seq_number(uint32_t(v)); return true; }
        return false;
    }
    default:
        return false;
    }
}

// read-only accessors that can fail (C01): the typed option getters on every IP packet, every typed decoder on every
// option present, option searches for identifiers present and absent, the fragment test
inline bool ip_sweep(const PDU& p, std::string& out) {
    if (p.pdu_type() != PDU::IP) return false;
    const IP& ip = static_cast<const IP&>(p);
    sweep_item(out, "security", [&] { ip.security(); });
    sweep_item(out, "stream_identifier", [&] { ip.stream_identifier(); });
    sweep_item(out, "lsrr", [&] { ip.lsrr(); });
    sweep_item(out, "ssrr", [&] { ip.ssrr(); });
    sweep_item(out, "record_route", [&] { ip.record_route(); });
    sweep_item(out, "is_fragmented", [&] { ip.is_fragmented(); });
    sweep_item(out, "advertised_size", [&] { ip.advertised_size(); });
    for (unsigned t = 0; t < 256; t += 17)
        sweep_item(out, "search", [&] { ip.search_option(IP::option_identifier(uint8_t(t))); });
    for (IP::options_type::const_iterator it = ip.options().begin(); it != ip.options().end(); ++it) {
        sweep_item(out, "opt.search", [&] {
            if (!ip.search_option(it->option())) throw std::runtime_error("option present but not found");
        });
        sweep_item(out, "opt.to_security", [&] { it->to<IP::security_type>(); });
        sweep_item(out, "opt.to_route", [&] { it->to<IP::generic_route_option_type>(); });
        sweep_item(out, "opt.to_u16", [&] { it->to<uint16_t>(); });
        sweep_item(out, "opt.to_u32", [&] { it->to<uint32_t>(); });
        sweep_item(out, "opt.to_ipv4", [&] { it->to<IPv4Address>(); });
    }
    return true;
}

} // namespace wire
