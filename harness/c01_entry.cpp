// C01 entry-point sweep: calls EVERY construct-from-buffer form of libtins' public interface (the rows of
// lean/TinsModel/Gen/EntryPoints.lean, regenerated from the headers on every run) on an exact-size heap block, so that
// one byte before / past the caller's buffer is an ASan red zone.
//
//   list                               keys (spaces removed) this harness can drive, one line
//   entry <key> <hex> [args…]          call the entry point `key` on the bytes; extra arguments for the hand-glued ones
//                                      -> ok [meta=<header size>,<type>,<next type> | str=<text> | u32=<n> | bool=<0|1>]
//                                         | null | throw <libtins exception>          (a sanitizer abort = FAULT)
//
// * Rows callable with just (buffer, size) -- public constructors, static members, free functions -- are expanded from
//   the GENERATED harness/c01_entry_gen.h: a form added to libtins tomorrow is driven without touching this file.
// * Rows with extra arguments / templates are glued by hand below under the same keys (`glue(...)`); checks/C01.py
//   compares the `list` line with the generated table, so stale or missing glue is reported.
#include "common.h"
#include "c01_entry_gen.h"
#include <tins/tins.h>
#include <tins/detail/pdu_helpers.h>
#include <tins/pdu_allocator.h>
#include <tins/offline_packet_filter.h>
#include <functional>
#include <map>
#include <memory>

using namespace Tins;
using vh::bytes;

typedef std::vector<std::string> args_t;
typedef std::function<std::string(const uint8_t*, uint32_t, const args_t&)> call_t;

static std::map<std::string, call_t>& table() {
    static std::map<std::string, call_t> t;
    return t;
}

static std::string nospace(const std::string& s) {
    std::string o;
    for (size_t i = 0; i < s.size(); ++i) if (s[i] != ' ') o.push_back(s[i]);
    return o;
}

static void glue(const std::string& key, call_t f) { table()[nospace(key)] = f; }

// what a call hands back: an owning pointer (PDU*, Dot11*, EAPOL*) is deleted, anything else is dropped
template <typename T> static std::string finish(T* p) {
    if (!p) return "null";
    delete p;
    return "ok";
}
template <typename T> static std::string finish(const T&) { return "ok"; }
// results the C01 oracle compares with the raw-pointer models of lean/TinsModel/Wire/Raw/Misc.lean
static std::string finish(const PDU::metadata& m) {
    return "ok meta=" + std::to_string(m.header_size) + "," + std::to_string(int(m.current_pdu_type)) + "," + std::to_string(int(m.next_pdu_type));
}
static std::string finish(const std::string& s) { return "ok str=" + (s.empty() ? std::string("-") : s); }
static std::string finish(uint32_t v) { return "ok u32=" + std::to_string(v); }
static std::string finish(bool v) { return v ? "ok bool=1" : "ok bool=0"; }

// a constructed object: PDUs additionally report their size (walks the chain the constructor built)
static void touch(const PDU& p) { (void)p.size(); }
template <typename T> static void touch(const T&) {}

static long arg(const args_t& a, size_t i, long dflt) { return i < a.size() ? std::stol(a[i]) : dflt; }

template <typename T> static std::string conv(const uint8_t* p, uint32_t n, const args_t& a) {
    PDU::endian_type e = arg(a, 0, 0) ? PDU::LE : PDU::BE;
    (void)Internals::Converters::convert(p, n, e, Internals::type_to_type<T>());
    return "ok";
}

// a user-registered protocol (Allocators::register_allocator needs a class with an out-of-line `pdu_flag`)
class UserDNS : public DNS {
public:
    static const PDU::PDUType pdu_flag;
    UserDNS(const uint8_t* b, uint32_t n) : DNS(b, n) {}
    PDUType pdu_type() const { return pdu_flag; }
    UserDNS* clone() const { return new UserDNS(*this); }
};
const PDU::PDUType UserDNS::pdu_flag = PDU::USER_DEFINED_PDU;

static void register_all() {
    // ---- generated: (buffer, size) is the whole argument list
#define X(KEY, CLS) glue(KEY, [](const uint8_t* p, uint32_t n, const args_t&) -> std::string { CLS obj(p, n); touch(obj); return "ok"; });
    C01_ENTRY_CTORS(X)
#undef X
#define X(KEY, FN) glue(KEY, [](const uint8_t* p, uint32_t n, const args_t&) -> std::string { return finish(FN(p, n)); });
    C01_ENTRY_FUNCS(X)
#undef X
    // ---- hand-written glue: the dispatchers (tag first), args = <tag> [rawpdu_on_no_match]
    glue("Internals::pdu_from_flag(Constants::Ethernet::e, const uint8_t *, uint32_t, bool)",
         [](const uint8_t* p, uint32_t n, const args_t& a) {
             return finish(Internals::pdu_from_flag(Constants::Ethernet::e(arg(a, 0, 0x800)), p, n, arg(a, 1, 1) != 0)); });
    glue("Internals::pdu_from_flag(Constants::IP::e, const uint8_t *, uint32_t, bool)",
         [](const uint8_t* p, uint32_t n, const args_t& a) {
             return finish(Internals::pdu_from_flag(Constants::IP::e(arg(a, 0, 6)), p, n, arg(a, 1, 1) != 0)); });
    glue("Internals::pdu_from_dlt_flag(int, const uint8_t *, uint32_t, bool)",
         [](const uint8_t* p, uint32_t n, const args_t& a) {
             return finish(Internals::pdu_from_dlt_flag(int(arg(a, 0, 1)), p, n, arg(a, 1, 1) != 0)); });
    glue("Internals::pdu_from_flag(PDU::PDUType, const uint8_t *, uint32_t)",
         [](const uint8_t* p, uint32_t n, const args_t& a) {
             return finish(Internals::pdu_from_flag(PDU::PDUType(arg(a, 0, 0)), p, n)); });
    // ---- the allocator registry (user-registered protocols): id 0x7777 of the link-layer group builds a DNS,
    //      protocol 253 of the IP group likewise; args = <id>
    Allocators::register_allocator<EthernetII, UserDNS>(0x7777);
    Allocators::register_allocator<IP, UserDNS>(253);
    glue("Internals::allocate(typename pdu_tag_mapper<PDUType>::type::identifier_type, const uint8_t *, uint32_t)",
         [](const uint8_t* p, uint32_t n, const args_t& a) {
             long id = arg(a, 0, 0x7777);
             if (id < 256) return finish(Internals::allocate<IP>(uint8_t(id), p, n));
             return finish(Internals::allocate<EthernetII>(uint16_t(id), p, n)); });
    glue("Internals::PDUAllocator::allocate(Tins::Internals::PDUAllocator::id_type, const uint8_t *, uint32_t)",
         [](const uint8_t* p, uint32_t n, const args_t& a) {
             long id = arg(a, 0, 0x7777);
             if (id < 256) return finish(Internals::PDUAllocator<Internals::pdu_tag<uint8_t> >::allocate(uint8_t(id), p, n));
             return finish(Internals::PDUAllocator<Internals::pdu_tag<uint16_t> >::allocate(uint16_t(id), p, n)); });
    glue("Internals::default_allocator(const uint8_t *, uint32_t)",
         [](const uint8_t* p, uint32_t n, const args_t& a) {
             if (arg(a, 0, 0)) return finish(Internals::default_allocator<IP>(p, n));
             return finish(Internals::default_allocator<UserDNS>(p, n)); });
    // ---- typed option payload decoders, args = <0: big endian | 1: little endian>
#define CONV(T, SPELL) glue("Internals::Converters::convert(const uint8_t *, uint32_t, PDU::endian_type, type_to_type<" SPELL ">)", conv<T >);
    CONV(uint8_t, "uint8_t") CONV(int8_t, "int8_t") CONV(uint16_t, "uint16_t") CONV(uint32_t, "uint32_t") CONV(uint64_t, "uint64_t")
    CONV(HWAddress<6>, "HWAddress<6>") CONV(IPv4Address, "Tins::IPv4Address") CONV(IPv6Address, "Tins::IPv6Address")
    CONV(std::string, "std::string") CONV(std::vector<float>, "std::vector<float>")
    CONV(std::vector<uint8_t>, "std::vector<uint8_t>") CONV(std::vector<uint16_t>, "std::vector<uint16_t>")
    CONV(std::vector<uint32_t>, "std::vector<uint32_t>") CONV(std::vector<IPv4Address>, "std::vector<IPv4Address>")
    CONV(std::vector<IPv6Address>, "std::vector<IPv6Address>")
    typedef std::pair<uint8_t, uint8_t> p88;
    typedef std::pair<uint16_t, uint32_t> p1632;
    typedef std::pair<uint32_t, uint32_t> p3232;
    CONV(std::vector<p88>, "std::vector<std::pair<uint8_t, uint8_t>>")
    CONV(p88, "std::pair<uint8_t, uint8_t>") CONV(p1632, "std::pair<uint16_t, uint32_t>") CONV(p3232, "std::pair<uint32_t, uint32_t>")
#undef CONV
    // ---- a BPF program run over the caller's bytes (libpcap is external; the member only forwards pointer and length)
    glue("OfflinePacketFilter::matches_filter(const uint8_t *, uint32_t)",
         [](const uint8_t* p, uint32_t n, const args_t&) -> std::string {
             static OfflinePacketFilter f("ip or arp or ether[100] = 7", DataLinkType<EthernetII>());
             (void)f.matches_filter(p, n);
             return "ok"; });
}

int main() {
    register_all();
    return vh::line_loop([&](const std::string& line) -> std::string {
        auto w = vh::words(line);
        if (w.empty()) return "bad-op";
        if (w[0] == "list") {
            std::string s = "keys";
            for (std::map<std::string, call_t>::const_iterator it = table().begin(); it != table().end(); ++it) s += " " + it->first;
            return s;
        }
        if (w[0] == "entry" && w.size() >= 3) {
            std::map<std::string, call_t>::const_iterator it = table().find(w[1]);
            if (it == table().end()) return "bad-key";
            bytes b;
            if (!vh::parse_hex(w[2], b)) return "bad-op";
            // exact-size heap block; an empty buffer is the one-past-the-end pointer of a one-byte block
            std::unique_ptr<uint8_t[]> blk(new uint8_t[b.size() ? b.size() : 1]);
            if (!b.empty()) memcpy(blk.get(), b.data(), b.size());
            args_t a(w.begin() + 3, w.end());
            return it->second(b.empty() ? blk.get() + 1 : blk.get(), uint32_t(b.size()), a);   // exceptions: line_loop
        }
        return "bad-op";
    });
}
