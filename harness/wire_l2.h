// L2 family (EthernetII, Dot3, LLC, SNAP, Dot1Q, MPLS, PPPoE, SLL, Loopback, PPI, PKTAP) — modelled so far: EthernetII
#pragma once
#include "wire_iface.h"
namespace wire {

inline bool l2_dump(const PDU& p, std::string& out) {
    if (p.pdu_type() == PDU::ETHERNET_II) {
        const EthernetII& e = static_cast<const EthernetII&>(p);
        out = FieldDump().str("dst_addr", hex_of(e.dst_addr())).str("src_addr", hex_of(e.src_addr()))
                  .num("^payload_type", e.payload_type()).done();
        return true;
    }
    return false;
}

inline bool parse_mac(const std::string& s, HWAddress<6>& out) {
    bytes b;
    if (!vh::parse_hex(s, b) || b.size() != 6) return false;
    out = HWAddress<6>(b.data());
    return true;
}

inline PDU* l2_mk(const std::string& cls, const std::vector<std::string>& a) {
    if (cls == "EthernetII") {
        HWAddress<6> d, s;
        if (a.size() == 2 && parse_mac(a[0], d) && parse_mac(a[1], s)) return new EthernetII(d, s);
        return new EthernetII();
    }
    return 0;
}

inline bool l2_apply(PDU& p, const std::vector<std::string>& op) {
    if (p.pdu_type() == PDU::ETHERNET_II && op.size() == 2) {
        EthernetII& e = static_cast<EthernetII&>(p);
        HWAddress<6> m;
        if (op[0] == "dst_addr" && parse_mac(op[1], m)) { e.dst_addr(m); return true; }
        if (op[0] == "src_addr" && parse_mac(op[1], m)) { e.src_addr(m); return true; }
        if (op[0] == "payload_type") { e.payload_type(uint16_t(std::stoul(op[1]))); return true; }
    }
    return false;
}

inline bool l2_sweep(const PDU&, std::string&) { return false; }

} // namespace wire
