// L2 family: EthernetII, Dot3, LLC, SNAP, Dot1Q, MPLS, PPPoE, SLL, Loopback, PPI, PKTAP
// Field names, order and value formats are those of lean/TinsModel/Wire/L2/<Class>.lean `fields`.
#pragma once
#include "wire_iface.h"
#include <memory>
#include <sys/socket.h>
#include <pcap.h>

// The platform constants the Lean model hard-codes (lean/TinsModel/Wire/L2/{Loopback,Ppi,Pktap}.lean): if this platform
// disagrees the harness does not build and the checks report it.
static_assert(PF_INET == 2 && PF_INET6 == 10, "Loopback.lean: PF_INET / PF_INET6");
#ifdef PF_LLC
static_assert(PF_LLC == 26, "Loopback.lean: PF_LLC");
#endif
static_assert(DLT_NULL == 0 && DLT_EN10MB == 1 && DLT_IEEE802_11 == 105 && DLT_LINUX_SLL == 113 &&
              DLT_IEEE802_11_RADIO == 127 && DLT_PPI == 192, "Ppi.lean / Pktap.lean: DLT_* values");
namespace wire {

// the typed getter of a PPPoE tag (not search_tag: C04's value clause judges what the getter hands back), as hex
inline std::string pppoe_typed(const PPPoE& p, PPPoE::TagTypes t) {
    try {
        std::string s;
        byte_array b;
        switch (t) {
        case PPPoE::SERVICE_NAME: s = p.service_name(); break;
        case PPPoE::AC_NAME: s = p.ac_name(); break;
        case PPPoE::SERVICE_NAME_ERROR: s = p.service_name_error(); break;
        case PPPoE::AC_SYSTEM_ERROR: s = p.ac_system_error(); break;
        case PPPoE::GENERIC_ERROR: s = p.generic_error(); break;
        case PPPoE::HOST_UNIQ: b = p.host_uniq(); return vh::to_hex(b.data(), b.size());
        case PPPoE::AC_COOKIE: b = p.ac_cookie(); return vh::to_hex(b.data(), b.size());
        case PPPoE::RELAY_SESSION_ID: b = p.relay_session_id(); return vh::to_hex(b.data(), b.size());
        default: {
            const PPPoE::tag* tg = p.search_tag(t);
            if (!tg) return "nf";
            return vh::to_hex(tg->data_ptr(), tg->data_size());
        }
        }
        return vh::to_hex((const uint8_t*)s.data(), s.size());
    } catch (const option_not_found&) {
        return "nf";
    } catch (const malformed_option&) {
        return "malformed_option";
    }
}

inline std::string pppoe_vendor(const PPPoE& p) {
    try {
        PPPoE::vendor_spec_type v = p.vendor_specific();
        std::ostringstream o;
        o << v.vendor_id << "." << vh::to_hex(v.data);
        return o.str();
    } catch (const option_not_found&) {
        return "nf";
    } catch (const malformed_option&) {
        return "malformed_option";
    }
}

inline bool l2_dump(const PDU& p, std::string& out) {
    switch (p.pdu_type()) {
    case PDU::ETHERNET_II: {
        const EthernetII& e = static_cast<const EthernetII&>(p);
        out = FieldDump().str("dst_addr", hex_of(e.dst_addr())).str("src_addr", hex_of(e.src_addr()))
                  .num("^payload_type", e.payload_type()).done();
        return true;
    }
    case PDU::IEEE802_3: {
        const Dot3& e = static_cast<const Dot3&>(p);
        out = FieldDump().str("dst_addr", hex_of(e.dst_addr())).str("src_addr", hex_of(e.src_addr()))
                  .num("~length", e.length()).done();
        return true;
    }
    case PDU::LLC: {
        LLC& l = const_cast<LLC&>(static_cast<const LLC&>(p));   // the getters of LLC are not const
        out = FieldDump().num("dsap", l.dsap()).num("ssap", l.ssap()).num("group", l.group()).num("response", l.response())
                  .num("type", l.type()).num("send_seq_number", l.send_seq_number())
                  .num("receive_seq_number", l.receive_seq_number()).num("poll_final", l.poll_final())
                  .num("supervisory_function", l.supervisory_function()).num("modifier_function", l.modifier_function())
                  .done();
        return true;
    }
    case PDU::SNAP: {
        const SNAP& s = static_cast<const SNAP&>(p);
        out = FieldDump().num("dsap", s.dsap()).num("ssap", s.ssap()).num("control", s.control())
                  .num("org_code", uint32_t(s.org_code())).num("^eth_type", s.eth_type()).done();
        return true;
    }
    case PDU::DOT1Q: {
        const Dot1Q& q = static_cast<const Dot1Q&>(p);
        out = FieldDump().num("priority", uint32_t(q.priority())).num("cfi", uint32_t(q.cfi())).num("id", uint32_t(q.id()))
                  .num("^payload_type", q.payload_type()).num("~append_padding", q.append_padding()).done();
        return true;
    }
    case PDU::MPLS: {
        const MPLS& m = static_cast<const MPLS&>(p);
        out = FieldDump().num("label", uint32_t(m.label())).num("experimental", uint32_t(m.experimental()))
                  .num("^bottom_of_stack", uint32_t(m.bottom_of_stack())).num("ttl", m.ttl()).done();
        return true;
    }
    case PDU::PPPOE: {
        const PPPoE& e = static_cast<const PPPoE&>(p);
        std::string tags;
        for (PPPoE::tags_type::const_iterator it = e.tags().begin(); it != e.tags().end(); ++it) {
            if (!tags.empty()) tags += ",";
            std::ostringstream o;
            o << (unsigned)it->option() << ":" << it->length_field() << ":" << vh::to_hex(it->data_ptr(), it->data_size());
            tags += o.str();
        }
        if (tags.empty()) tags = "-";
        out = FieldDump().num("version", uint32_t(e.version())).num("type", uint32_t(e.type())).num("code", e.code())
                  .num("session_id", e.session_id()).num("~payload_length", e.payload_length()).str("tags", tags)
                  .str("service_name", pppoe_typed(e, PPPoE::SERVICE_NAME)).str("ac_name", pppoe_typed(e, PPPoE::AC_NAME))
                  .str("host_uniq", pppoe_typed(e, PPPoE::HOST_UNIQ)).str("ac_cookie", pppoe_typed(e, PPPoE::AC_COOKIE))
                  .str("vendor_specific", pppoe_vendor(e))
                  .str("relay_session_id", pppoe_typed(e, PPPoE::RELAY_SESSION_ID))
                  .str("service_name_error", pppoe_typed(e, PPPoE::SERVICE_NAME_ERROR))
                  .str("ac_system_error", pppoe_typed(e, PPPoE::AC_SYSTEM_ERROR))
                  .str("generic_error", pppoe_typed(e, PPPoE::GENERIC_ERROR)).done();
        return true;
    }
    case PDU::SLL: {
        const SLL& s = static_cast<const SLL&>(p);
        SLL::address_type a = s.address();
        out = FieldDump().num("packet_type", s.packet_type()).num("lladdr_type", s.lladdr_type())
                  .num("lladdr_len", s.lladdr_len()).str("address", vh::to_hex(a.begin(), 8))
                  .num("^protocol", s.protocol()).done();
        return true;
    }
    case PDU::LOOPBACK: {
        const Loopback& l = static_cast<const Loopback&>(p);
        out = FieldDump().num("^family", l.family()).done();
        return true;
    }
    case PDU::PPI: {
        const PPI& i = static_cast<const PPI&>(p);
        out = FieldDump().num("version", i.version()).num("flags", i.flags()).num("length", i.length())
                  .num("dlt", i.dlt()).done();
        return true;
    }
    case PDU::PKTAP:
        out = "";
        return true;
    default:
        return false;
    }
}

inline bool parse_mac(const std::string& s, HWAddress<6>& out) {
    bytes b;
    if (!vh::parse_hex(s, b) || b.size() != 6) return false;
    out = HWAddress<6>(b.data());
    return true;
}

inline bool hex_arg(const std::string& s, bytes& b) { return vh::parse_hex(s, b); }
inline unsigned long num_arg(const std::string& s) { return std::stoul(s); }

inline PDU* l2_mk(const std::string& cls, const std::vector<std::string>& a) {
    if (cls == "EthernetII") {
        HWAddress<6> d, s;
        if (a.size() == 2 && parse_mac(a[0], d) && parse_mac(a[1], s)) return new EthernetII(d, s);
        return new EthernetII();
    }
    if (cls == "Dot3") {
        HWAddress<6> d, s;
        if (a.size() == 2 && parse_mac(a[0], d) && parse_mac(a[1], s)) return new Dot3(d, s);
        return new Dot3();
    }
    if (cls == "LLC") {
        if (a.size() == 2) return new LLC(uint8_t(num_arg(a[0])), uint8_t(num_arg(a[1])));
        return new LLC();
    }
    if (cls == "SNAP") return new SNAP();
    if (cls == "Dot1Q") {
        if (a.size() == 2) return new Dot1Q(uint16_t(num_arg(a[0]) & 0xfff), a[1] == "1");
        return new Dot1Q();
    }
    if (cls == "MPLS") return new MPLS();
    if (cls == "PPPoE") return new PPPoE();
    if (cls == "SLL") return new SLL();
    if (cls == "Loopback") return new Loopback();
    if (cls == "PKTAP" && a.size() == 1) {
        // the central harness has no `parse PKTAP`: `push PKTAP <hex>` runs the parsing constructor
        bytes b;
        if (!hex_arg(a[0], b)) return 0;
        std::unique_ptr<uint8_t[]> blk(new uint8_t[b.size() ? b.size() : 1]);
        if (!b.empty()) memcpy(blk.get(), b.data(), b.size());
        return new PKTAP(b.empty() ? blk.get() + 1 : blk.get(), uint32_t(b.size()));
    }
    return 0;
}

inline bool l2_apply(PDU& p, const std::vector<std::string>& op) {
    const size_t n = op.size();
    switch (p.pdu_type()) {
    case PDU::ETHERNET_II: {
        if (n != 2) return false;
        EthernetII& e = static_cast<EthernetII&>(p);
        HWAddress<6> m;
        if (op[0] == "dst_addr" && parse_mac(op[1], m)) { e.dst_addr(m); return true; }
        if (op[0] == "src_addr" && parse_mac(op[1], m)) { e.src_addr(m); return true; }
        if (op[0] == "payload_type") { e.payload_type(uint16_t(num_arg(op[1]))); return true; }
        return false;
    }
    case PDU::IEEE802_3: {
        if (n != 2) return false;
        Dot3& e = static_cast<Dot3&>(p);
        HWAddress<6> m;
        if (op[0] == "dst_addr" && parse_mac(op[1], m)) { e.dst_addr(m); return true; }
        if (op[0] == "src_addr" && parse_mac(op[1], m)) { e.src_addr(m); return true; }
        if (op[0] == "length") { e.length(uint16_t(num_arg(op[1]))); return true; }
        return false;
    }
    case PDU::LLC: {
        LLC& l = static_cast<LLC&>(p);
        if (n == 1 && op[0] == "clear_information_fields") { l.clear_information_fields(); return true; }
        if (n == 4 && op[0] == "add_xid_information") {
            l.add_xid_information(uint8_t(num_arg(op[1])), uint8_t(num_arg(op[2])), uint8_t(num_arg(op[3])));
            return true;
        }
        if (n != 2) return false;
        unsigned long v = num_arg(op[1]);
        if (op[0] == "dsap") { l.dsap(uint8_t(v)); return true; }
        if (op[0] == "ssap") { l.ssap(uint8_t(v)); return true; }
        if (op[0] == "group") { l.group(v == 1); return true; }
        if (op[0] == "response") { l.response(v == 1); return true; }
        if (op[0] == "type" && (v == 0 || v == 1 || v == 3)) { l.type(LLC::Format(v)); return true; }
        if (op[0] == "send_seq_number") { l.send_seq_number(uint8_t(v)); return true; }
        if (op[0] == "receive_seq_number") { l.receive_seq_number(uint8_t(v)); return true; }
        if (op[0] == "poll_final") { l.poll_final(v == 1); return true; }
        if (op[0] == "supervisory_function") { l.supervisory_function(LLC::SupervisoryFunctions(v & 3)); return true; }
        if (op[0] == "modifier_function") { l.modifier_function(LLC::ModifierFunctions(v & 31)); return true; }
        return false;
    }
    case PDU::SNAP: {
        if (n != 2) return false;
        SNAP& s = static_cast<SNAP&>(p);
        unsigned long v = num_arg(op[1]);
        if (op[0] == "control") { s.control(uint8_t(v)); return true; }
        if (op[0] == "org_code") { s.org_code(uint32_t(v & 0xffffff)); return true; }
        if (op[0] == "eth_type") { s.eth_type(uint16_t(v)); return true; }
        return false;
    }
    case PDU::DOT1Q: {
        if (n != 2) return false;
        Dot1Q& q = static_cast<Dot1Q&>(p);
        unsigned long v = num_arg(op[1]);
        if (op[0] == "priority") { q.priority(uint8_t(v & 7)); return true; }
        if (op[0] == "cfi") { q.cfi(uint8_t(v & 1)); return true; }
        if (op[0] == "id") { q.id(uint16_t(v & 0xfff)); return true; }
        if (op[0] == "payload_type") { q.payload_type(uint16_t(v)); return true; }
        if (op[0] == "append_padding") { q.append_padding(v == 1); return true; }
        return false;
    }
    case PDU::MPLS: {
        if (n != 2) return false;
        MPLS& m = static_cast<MPLS&>(p);
        unsigned long v = num_arg(op[1]);
        if (op[0] == "label") { m.label(uint32_t(v & 0xfffff)); return true; }
        if (op[0] == "experimental") { m.experimental(uint8_t(v & 7)); return true; }
        if (op[0] == "bottom_of_stack") { m.bottom_of_stack(uint8_t(v & 1)); return true; }
        if (op[0] == "ttl") { m.ttl(uint8_t(v)); return true; }
        return false;
    }
    case PDU::PPPOE: {
        PPPoE& e = static_cast<PPPoE&>(p);
        if (n == 1 && op[0] == "end_of_list") { e.end_of_list(); return true; }
        if (n == 3 && op[0] == "add_tag") {
            bytes b;
            if (!hex_arg(op[2], b)) return false;
            e.add_tag(PPPoE::tag(PPPoE::TagTypes(uint16_t(num_arg(op[1]))), b.begin(), b.end()));
            return true;
        }
        if (n == 3 && op[0] == "add_tag_copy") {          // the `add_tag(const tag&)` overload (the rvalue one is inline)
            bytes b;
            if (!hex_arg(op[2], b)) return false;
            const PPPoE::tag t(PPPoE::TagTypes(uint16_t(num_arg(op[1]))), b.begin(), b.end());
            e.add_tag(t);
            return true;
        }
        if (n == 3 && op[0] == "vendor_specific") {
            bytes b;
            if (!hex_arg(op[2], b)) return false;
            e.vendor_specific(PPPoE::vendor_spec_type(uint32_t(num_arg(op[1])), b));
            return true;
        }
        if (n != 2) return false;
        if (op[0] == "version") { e.version(uint8_t(num_arg(op[1]) & 15)); return true; }
        if (op[0] == "type") { e.type(uint8_t(num_arg(op[1]) & 15)); return true; }
        if (op[0] == "code") { e.code(uint8_t(num_arg(op[1]))); return true; }
        if (op[0] == "session_id") { e.session_id(uint16_t(num_arg(op[1]))); return true; }
        if (op[0] == "payload_length") { e.payload_length(uint16_t(num_arg(op[1]))); return true; }
        bytes b;
        if (!hex_arg(op[1], b)) return false;
        std::string s(b.begin(), b.end());
        if (op[0] == "service_name") { e.service_name(s); return true; }
        if (op[0] == "ac_name") { e.ac_name(s); return true; }
        if (op[0] == "host_uniq") { e.host_uniq(b); return true; }
        if (op[0] == "ac_cookie") { e.ac_cookie(b); return true; }
        if (op[0] == "relay_session_id") { e.relay_session_id(b); return true; }
        if (op[0] == "service_name_error") { e.service_name_error(s); return true; }
        if (op[0] == "ac_system_error") { e.ac_system_error(s); return true; }
        if (op[0] == "generic_error") { e.generic_error(s); return true; }
        return false;
    }
    case PDU::SLL: {
        if (n != 2) return false;
        SLL& s = static_cast<SLL&>(p);
        if (op[0] == "address") {
            bytes b;
            if (!hex_arg(op[1], b) || b.size() != 8) return false;
            s.address(SLL::address_type(b.data()));
            return true;
        }
        unsigned long v = num_arg(op[1]);
        if (op[0] == "packet_type") { s.packet_type(uint16_t(v)); return true; }
        if (op[0] == "lladdr_type") { s.lladdr_type(uint16_t(v)); return true; }
        if (op[0] == "lladdr_len") { s.lladdr_len(uint16_t(v)); return true; }
        if (op[0] == "protocol") { s.protocol(uint16_t(v)); return true; }
        return false;
    }
    case PDU::LOOPBACK: {
        if (n != 2) return false;
        Loopback& l = static_cast<Loopback&>(p);
        if (op[0] == "family") { l.family(uint32_t(num_arg(op[1]))); return true; }
        return false;
    }
    default:
        return false;
    }
}

// read-only accessors that can fail: the typed tag getters of PPPoE on every packet (present or not, well-formed or not)
inline bool l2_sweep(const PDU& p, std::string& out) {
    if (p.pdu_type() != PDU::PPPOE) return false;
    const PPPoE& e = static_cast<const PPPoE&>(p);
    sweep_item(out, "service_name", [&] { e.service_name(); });
    sweep_item(out, "ac_name", [&] { e.ac_name(); });
    sweep_item(out, "host_uniq", [&] { e.host_uniq(); });
    sweep_item(out, "ac_cookie", [&] { e.ac_cookie(); });
    sweep_item(out, "vendor_specific", [&] { e.vendor_specific(); });
    sweep_item(out, "relay_session_id", [&] { e.relay_session_id(); });
    sweep_item(out, "service_name_error", [&] { e.service_name_error(); });
    sweep_item(out, "ac_system_error", [&] { e.ac_system_error(); });
    sweep_item(out, "generic_error", [&] { e.generic_error(); });
    for (PPPoE::tags_type::const_iterator it = e.tags().begin(); it != e.tags().end(); ++it) {
        sweep_item(out, "tag.to_vendor", [&] { it->to<PPPoE::vendor_spec_type>(); });
        sweep_item(out, "tag.to_string", [&] { it->to<std::string>(); });
    }
    return true;
}

} // namespace wire
