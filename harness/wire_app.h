// app family — nothing modelled yet (stub)
#pragma once
#include "wire_iface.h"
namespace wire {
inline bool app_dump(const PDU&, std::string&) { return false; }
inline PDU* app_mk(const std::string&, const std::vector<std::string>&) { return 0; }
inline bool app_apply(PDU&, const std::vector<std::string>&) { return false; }
inline bool app_sweep(const PDU&, std::string&) { return false; }
} // namespace wire
