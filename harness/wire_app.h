// App family: BootP, DHCP, DHCPv6, RTP, VXLAN, ARP, STP (DNS belongs to C10).
// Field names, order and value formats mirror lean/TinsModel/Wire/App/*.lean (`fields`).
#pragma once
#include "wire_iface.h"
#include <tins/bootp.h>
#include <tins/dhcp.h>
#include <tins/arp.h>
namespace wire {

// ---------------------------------------------------------------- helpers
inline bool app_hex(const std::string& s, bytes& out) { return vh::parse_hex(s, out); }
inline bool app_hex_n(const std::string& s, size_t n, bytes& out) { return vh::parse_hex(s, out) && out.size() == n; }
inline bool app_mac(const std::string& s, HWAddress<6>& out) {
    bytes b;
    if (!app_hex_n(s, 6, b)) return false;
    out = HWAddress<6>(b.data());
    return true;
}
inline bool app_ip4(const std::string& s, IPv4Address& out) {
    bytes b;
    if (!app_hex_n(s, 4, b)) return false;
    uint32_t v;
    memcpy(&v, b.data(), 4);
    out = IPv4Address(v);
    return true;
}
inline bool app_ip6(const std::string& s, IPv6Address& out) {
    bytes b;
    if (!app_hex_n(s, 16, b)) return false;
    out = IPv6Address(b.data());
    return true;
}
inline std::vector<std::string> app_split(const std::string& s, char sep) {
    std::vector<std::string> out;
    std::string cur;
    for (size_t i = 0; i < s.size(); ++i) {
        if (s[i] == sep) { out.push_back(cur); cur.clear(); }
        else cur.push_back(s[i]);
    }
    out.push_back(cur);
    return out;
}
// comma separated list argument; "-" = empty list
inline std::vector<std::string> app_list(const std::string& s) {
    if (s == "-") return std::vector<std::string>();
    return app_split(s, ',');
}
inline std::string app_join(const std::vector<std::string>& v) {
    if (v.empty()) return "-";
    std::string s;
    for (size_t i = 0; i < v.size(); ++i) { if (i) s += ","; s += v[i]; }
    return s;
}
inline std::string app_num(unsigned long long v) { std::ostringstream o; o << v; return o.str(); }

// a typed getter: value, "none" (option_not_found) or "bad" (malformed_option); anything else propagates
template <typename F>
inline std::string app_typed(F f) {
    try { return f(); }
    catch (const option_not_found&) { return "none"; }
    catch (const malformed_option&) { return "bad"; }
}

template <typename Opts>
inline std::string app_opts(const Opts& opts) {
    std::vector<std::string> items;
    for (typename Opts::const_iterator it = opts.begin(); it != opts.end(); ++it) {
        std::ostringstream o;
        o << (unsigned long)it->option() << ":" << it->length_field() << ":" << vh::to_hex(it->data_ptr(), it->data_size());
        items.push_back(o.str());
    }
    return app_join(items);
}

inline std::string app_ip4_list(const std::vector<IPv4Address>& v) {
    std::vector<std::string> items;
    for (size_t i = 0; i < v.size(); ++i) items.push_back(hex_of(v[i]));
    return app_join(items);
}

inline std::string app_class_data(const std::vector<std::vector<uint8_t> >& v) {
    if (v.empty()) return "empty";
    std::string s;
    for (size_t i = 0; i < v.size(); ++i) { if (i) s += ","; s += vh::to_hex(v[i]); }
    return s;
}
inline bool app_class_arg(const std::string& s, std::vector<std::vector<uint8_t> >& out) {
    out.clear();
    if (s == "empty") return true;
    std::vector<std::string> parts = app_split(s, ',');
    for (size_t i = 0; i < parts.size(); ++i) {
        bytes b;
        if (!app_hex(parts[i], b)) return false;
        out.push_back(b);
    }
    return true;
}

// ---------------------------------------------------------------- dumps
inline void bootp_header_dump(FieldDump& d, const BootP& b) {
    BootP::chaddr_type ch = b.chaddr();
    d.num("opcode", b.opcode()).num("htype", b.htype()).num("hlen", b.hlen()).num("hops", b.hops())
     .num("xid", b.xid()).num("secs", b.secs()).num("padding", b.padding())
     .str("ciaddr", hex_of(b.ciaddr())).str("yiaddr", hex_of(b.yiaddr())).str("siaddr", hex_of(b.siaddr()))
     .str("giaddr", hex_of(b.giaddr())).hex("chaddr", ch.begin(), 16)
     .hex("sname", b.sname(), 64).hex("file", b.file(), 128);
}

inline std::string dhcpv6_dump(const DHCPv6& d) {
    FieldDump f;
    f.num("msg_type", (unsigned)d.msg_type());
    if (d.is_relay_message()) {
        f.num("hop_count", d.hop_count()).str("link_address", hex_of(d.link_address()))
         .str("peer_address", hex_of(d.peer_address()));
    } else {
        f.num("transaction_id", (uint32_t)d.transaction_id());
    }
    f.str("opts", app_opts(d.options()));
    f.str("ia_na", app_typed([&]() -> std::string {
        DHCPv6::ia_na_type v = d.ia_na();
        return app_num(v.id) + "." + app_num(v.t1) + "." + app_num(v.t2) + "." + vh::to_hex(v.options); }));
    f.str("ia_ta", app_typed([&]() -> std::string {
        DHCPv6::ia_ta_type v = d.ia_ta();
        return app_num(v.id) + "." + vh::to_hex(v.options); }));
    f.str("ia_address", app_typed([&]() -> std::string {
        DHCPv6::ia_address_type v = d.ia_address();
        return hex_of(v.address) + "." + app_num(v.preferred_lifetime) + "." + app_num(v.valid_lifetime) + "." + vh::to_hex(v.options); }));
    f.str("option_request", app_typed([&]() -> std::string {
        DHCPv6::option_request_type v = d.option_request();
        std::vector<std::string> items;
        for (size_t i = 0; i < v.size(); ++i) items.push_back(app_num(v[i]));
        return app_join(items); }));
    f.str("preference", app_typed([&]() -> std::string { return app_num(d.preference()); }));
    f.str("elapsed_time", app_typed([&]() -> std::string { return app_num(d.elapsed_time()); }));
    f.str("relay_message", app_typed([&]() -> std::string { return vh::to_hex(d.relay_message()); }));
    f.str("authentication", app_typed([&]() -> std::string {
        DHCPv6::authentication_type v = d.authentication();
        return app_num(v.protocol) + "." + app_num(v.algorithm) + "." + app_num(v.rdm) + "." + app_num(v.replay_detection) + "." + vh::to_hex(v.auth_info); }));
    f.str("server_unicast", app_typed([&]() -> std::string { return hex_of(d.server_unicast()); }));
    f.str("status_code", app_typed([&]() -> std::string {
        DHCPv6::status_code_type v = d.status_code();
        return app_num(v.code) + "." + vh::to_hex((const uint8_t*)v.message.data(), v.message.size()); }));
    f.num("has_rapid_commit", d.has_rapid_commit() ? 1 : 0);
    f.str("user_class", app_typed([&]() -> std::string { return app_class_data(d.user_class().data); }));
    f.str("vendor_class", app_typed([&]() -> std::string {
        DHCPv6::vendor_class_type v = d.vendor_class();
        return app_num(v.enterprise_number) + "." + app_class_data(v.vendor_class_data); }));
    f.str("vendor_info", app_typed([&]() -> std::string {
        DHCPv6::vendor_info_type v = d.vendor_info();
        return app_num(v.enterprise_number) + "." + vh::to_hex(v.data); }));
    f.str("interface_id", app_typed([&]() -> std::string { return vh::to_hex(d.interface_id()); }));
    f.str("reconfigure_msg", app_typed([&]() -> std::string { return app_num(d.reconfigure_msg()); }));
    f.num("has_reconfigure_accept", d.has_reconfigure_accept() ? 1 : 0);
    f.str("client_id", app_typed([&]() -> std::string {
        DHCPv6::duid_type v = d.client_id();
        return app_num(v.id) + "." + vh::to_hex(v.data); }));
    f.str("server_id", app_typed([&]() -> std::string {
        DHCPv6::duid_type v = d.server_id();
        return app_num(v.id) + "." + vh::to_hex(v.data); }));
    return f.done();
}

inline bool app_dump(const PDU& p, std::string& out) {
    switch (p.pdu_type()) {
    case PDU::ARP: {
        const ARP& a = static_cast<const ARP&>(p);
        out = FieldDump().num("hw_addr_format", a.hw_addr_format()).num("prot_addr_format", a.prot_addr_format())
                  .num("hw_addr_length", a.hw_addr_length()).num("prot_addr_length", a.prot_addr_length())
                  .num("opcode", a.opcode())
                  .str("sender_hw_addr", hex_of(a.sender_hw_addr())).str("sender_ip_addr", hex_of(a.sender_ip_addr()))
                  .str("target_hw_addr", hex_of(a.target_hw_addr())).str("target_ip_addr", hex_of(a.target_ip_addr()))
                  .done();
        return true;
    }
    case PDU::VXLAN: {
        const VXLAN& v = static_cast<const VXLAN&>(p);
        out = FieldDump().num("flags", v.get_flags()).num("vni", (uint32_t)v.get_vni()).done();
        return true;
    }
    case PDU::STP: {
        const STP& s = static_cast<const STP&>(p);
        STP::bpdu_id_type r = s.root_id(), b = s.bridge_id();
        out = FieldDump().num("proto_id", s.proto_id()).num("proto_version", s.proto_version())
                  .num("bpdu_type", s.bpdu_type()).num("bpdu_flags", s.bpdu_flags())
                  .num("root_id_priority", (unsigned)r.priority).num("root_id_ext_id", (unsigned)r.ext_id)
                  .str("root_id_id", hex_of(r.id))
                  .num("root_path_cost", s.root_path_cost())
                  .num("bridge_id_priority", (unsigned)b.priority).num("bridge_id_ext_id", (unsigned)b.ext_id)
                  .str("bridge_id_id", hex_of(b.id))
                  .num("port_id", s.port_id()).num("msg_age", s.msg_age()).num("max_age", s.max_age())
                  .num("hello_time", s.hello_time()).num("fwd_delay", s.fwd_delay()).done();
        return true;
    }
    case PDU::RTP: {
        const RTP& r = static_cast<const RTP&>(p);
        std::vector<std::string> cs, ed;
        for (size_t i = 0; i < r.csrc_ids().size(); ++i) cs.push_back(app_num(Endian::be_to_host(r.csrc_ids()[i])));
        for (size_t i = 0; i < r.extension_data().size(); ++i) ed.push_back(app_num(Endian::be_to_host(r.extension_data()[i])));
        out = FieldDump().num("version", (unsigned)r.version()).num("padding_bit", (unsigned)r.padding_bit())
                  .num("extension_bit", (unsigned)r.extension_bit()).num("csrc_count", (unsigned)r.csrc_count())
                  .num("marker_bit", (unsigned)r.marker_bit()).num("payload_type", (unsigned)r.payload_type())
                  .num("sequence_number", r.sequence_number()).num("timestamp", r.timestamp()).num("ssrc_id", r.ssrc_id())
                  .str("csrc_ids", app_join(cs))
                  .num("extension_profile", r.extension_profile()).num("extension_length", r.extension_length())
                  .str("extension_data", app_join(ed)).num("padding_size", r.padding_size()).done();
        return true;
    }
    case PDU::BOOTP: {
        const BootP& b = static_cast<const BootP&>(p);
        FieldDump d;
        bootp_header_dump(d, b);
        d.str("vend", vh::to_hex(b.vend()));
        out = d.done();
        return true;
    }
    case PDU::DHCP: {
        const DHCP& h = static_cast<const DHCP&>(p);
        FieldDump d;
        bootp_header_dump(d, h);
        d.str("opts", app_opts(h.options()));
        d.str("type", app_typed([&]() -> std::string { return app_num(h.type()); }));
        d.str("server_identifier", app_typed([&]() -> std::string { return hex_of(h.server_identifier()); }));
        d.str("lease_time", app_typed([&]() -> std::string { return app_num(h.lease_time()); }));
        d.str("renewal_time", app_typed([&]() -> std::string { return app_num(h.renewal_time()); }));
        d.str("rebind_time", app_typed([&]() -> std::string { return app_num(h.rebind_time()); }));
        d.str("subnet_mask", app_typed([&]() -> std::string { return hex_of(h.subnet_mask()); }));
        d.str("routers", app_typed([&]() -> std::string { return app_ip4_list(h.routers()); }));
        d.str("domain_name_servers", app_typed([&]() -> std::string { return app_ip4_list(h.domain_name_servers()); }));
        d.str("broadcast", app_typed([&]() -> std::string { return hex_of(h.broadcast()); }));
        d.str("requested_ip", app_typed([&]() -> std::string { return hex_of(h.requested_ip()); }));
        d.str("domain_name", app_typed([&]() -> std::string {
            std::string s = h.domain_name(); return vh::to_hex((const uint8_t*)s.data(), s.size()); }));
        d.str("hostname", app_typed([&]() -> std::string {
            std::string s = h.hostname(); return vh::to_hex((const uint8_t*)s.data(), s.size()); }));
        out = d.done();
        return true;
    }
    case PDU::DHCPv6:
        out = dhcpv6_dump(static_cast<const DHCPv6&>(p));
        return true;
    default:
        return false;
    }
}

// ---------------------------------------------------------------- constructors
inline PDU* app_mk(const std::string& cls, const std::vector<std::string>& a) {
    if (cls == "ARP") {
        IPv4Address tip, sip;
        HWAddress<6> thw, shw;
        if (a.size() == 4 && app_ip4(a[0], tip) && app_ip4(a[1], sip) && app_mac(a[2], thw) && app_mac(a[3], shw))
            return new ARP(tip, sip, thw, shw);
        return new ARP();
    }
    if (cls == "VXLAN") {
        if (a.size() == 1) return new VXLAN(small_uint<24>(uint32_t(std::stoul(a[0]))));
        return new VXLAN();
    }
    if (cls == "STP") return new STP();
    if (cls == "RTP") return new RTP();
    if (cls == "BootP") return new BootP();
    if (cls == "DHCP") return new DHCP();
    if (cls == "DHCPv6") return new DHCPv6();
    return 0;
}

// ---------------------------------------------------------------- setters
inline bool bootp_apply(BootP& b, const std::vector<std::string>& op) {
    if (op.size() != 2) return false;
    const std::string& k = op[0];
    const std::string& v = op[1];
    IPv4Address ip;
    bytes x;
    if (k == "opcode") { b.opcode(uint8_t(std::stoul(v))); return true; }
    if (k == "htype") { b.htype(uint8_t(std::stoul(v))); return true; }
    if (k == "hlen") { b.hlen(uint8_t(std::stoul(v))); return true; }
    if (k == "hops") { b.hops(uint8_t(std::stoul(v))); return true; }
    if (k == "xid") { b.xid(uint32_t(std::stoul(v))); return true; }
    if (k == "secs") { b.secs(uint16_t(std::stoul(v))); return true; }
    if (k == "padding") { b.padding(uint16_t(std::stoul(v))); return true; }
    if (k == "ciaddr" && app_ip4(v, ip)) { b.ciaddr(ip); return true; }
    if (k == "yiaddr" && app_ip4(v, ip)) { b.yiaddr(ip); return true; }
    if (k == "siaddr" && app_ip4(v, ip)) { b.siaddr(ip); return true; }
    if (k == "giaddr" && app_ip4(v, ip)) { b.giaddr(ip); return true; }
    if (k == "chaddr" && app_hex(v, x)) {
        if (x.size() == 6) { b.chaddr(HWAddress<6>(x.data())); return true; }
        if (x.size() == 16) { b.chaddr(HWAddress<16>(x.data())); return true; }
        return false;
    }
    if (k == "sname" && app_hex_n(v, 64, x)) { b.sname(x.data()); return true; }
    if (k == "file" && app_hex_n(v, 128, x)) { b.file(x.data()); return true; }
    return false;
}

inline bool app_ip4_list_arg(const std::string& s, std::vector<IPv4Address>& out) {
    std::vector<std::string> parts = app_list(s);
    for (size_t i = 0; i < parts.size(); ++i) {
        IPv4Address ip;
        if (!app_ip4(parts[i], ip)) return false;
        out.push_back(ip);
    }
    return true;
}

inline bool dhcp_apply(DHCP& d, const std::vector<std::string>& op) {
    const std::string& k = op[0];
    bytes x;
    IPv4Address ip;
    if (k == "add_option" && op.size() == 3 && app_hex(op[2], x)) {
        d.add_option(DHCP::option(uint8_t(std::stoul(op[1])), x.size(), x.empty() ? (const uint8_t*)"" : x.data()));
        return true;
    }
    if (k == "remove_option" && op.size() == 2) { d.remove_option(DHCP::OptionTypes(uint8_t(std::stoul(op[1])))); return true; }
    if (k == "end" && op.size() == 1) { d.end(); return true; }
    if (op.size() == 2) {
        const std::string& v = op[1];
        if (k == "type") { d.type(DHCP::Flags(uint8_t(std::stoul(v)))); return true; }
        if (k == "server_identifier" && app_ip4(v, ip)) { d.server_identifier(ip); return true; }
        if (k == "lease_time") { d.lease_time(uint32_t(std::stoul(v))); return true; }
        if (k == "renewal_time") { d.renewal_time(uint32_t(std::stoul(v))); return true; }
        if (k == "rebind_time") { d.rebind_time(uint32_t(std::stoul(v))); return true; }
        if (k == "subnet_mask" && app_ip4(v, ip)) { d.subnet_mask(ip); return true; }
        if (k == "routers") { std::vector<IPv4Address> l; if (!app_ip4_list_arg(v, l)) return false; d.routers(l); return true; }
        if (k == "domain_name_servers") { std::vector<IPv4Address> l; if (!app_ip4_list_arg(v, l)) return false; d.domain_name_servers(l); return true; }
        if (k == "broadcast" && app_ip4(v, ip)) { d.broadcast(ip); return true; }
        if (k == "requested_ip" && app_ip4(v, ip)) { d.requested_ip(ip); return true; }
        if (k == "domain_name" && app_hex(v, x)) { d.domain_name(std::string(x.begin(), x.end())); return true; }
        if (k == "hostname" && app_hex(v, x)) { d.hostname(std::string(x.begin(), x.end())); return true; }
    }
    return bootp_apply(d, op);
}

inline bool dhcpv6_apply(DHCPv6& d, const std::vector<std::string>& op) {
    const std::string& k = op[0];
    size_t n = op.size();
    bytes x;
    IPv6Address ip6;
    if (k == "msg_type" && n == 2) { d.msg_type(DHCPv6::MessageType(uint8_t(std::stoul(op[1])))); return true; }
    if (k == "hop_count" && n == 2) { d.hop_count(uint8_t(std::stoul(op[1]))); return true; }
    if (k == "transaction_id" && n == 2) { d.transaction_id(small_uint<24>(uint32_t(std::stoul(op[1])))); return true; }
    if (k == "peer_address" && n == 2 && app_ip6(op[1], ip6)) { d.peer_address(ip6); return true; }
    if (k == "link_address" && n == 2 && app_ip6(op[1], ip6)) { d.link_address(ip6); return true; }
    if (k == "add_option" && n == 3 && app_hex(op[2], x)) {
        d.add_option(DHCPv6::option(uint16_t(std::stoul(op[1])), x.begin(), x.end()));
        return true;
    }
    if (k == "remove_option" && n == 2) { d.remove_option(DHCPv6::OptionTypes(uint16_t(std::stoul(op[1])))); return true; }
    if (k == "ia_na" && n == 5 && app_hex(op[4], x)) {
        d.ia_na(DHCPv6::ia_na_type(uint32_t(std::stoul(op[1])), uint32_t(std::stoul(op[2])), uint32_t(std::stoul(op[3])), x));
        return true;
    }
    if (k == "ia_ta" && n == 3 && app_hex(op[2], x)) { d.ia_ta(DHCPv6::ia_ta_type(uint32_t(std::stoul(op[1])), x)); return true; }
    if (k == "ia_address" && n == 5 && app_ip6(op[1], ip6) && app_hex(op[4], x)) {
        d.ia_address(DHCPv6::ia_address_type(ip6, uint32_t(std::stoul(op[2])), uint32_t(std::stoul(op[3])), x));
        return true;
    }
    if (k == "option_request" && n == 2) {
        DHCPv6::option_request_type l;
        std::vector<std::string> parts = app_list(op[1]);
        for (size_t i = 0; i < parts.size(); ++i) l.push_back(uint16_t(std::stoul(parts[i])));
        d.option_request(l);
        return true;
    }
    if (k == "preference" && n == 2) { d.preference(uint8_t(std::stoul(op[1]))); return true; }
    if (k == "elapsed_time" && n == 2) { d.elapsed_time(uint16_t(std::stoul(op[1]))); return true; }
    if (k == "relay_message" && n == 2 && app_hex(op[1], x)) { d.relay_message(x); return true; }
    if (k == "authentication" && n == 6 && app_hex(op[5], x)) {
        d.authentication(DHCPv6::authentication_type(uint8_t(std::stoul(op[1])), uint8_t(std::stoul(op[2])),
                                                     uint8_t(std::stoul(op[3])), uint64_t(std::stoull(op[4])), x));
        return true;
    }
    if (k == "server_unicast" && n == 2 && app_ip6(op[1], ip6)) { d.server_unicast(ip6); return true; }
    if (k == "status_code" && n == 3 && app_hex(op[2], x)) {
        d.status_code(DHCPv6::status_code_type(uint16_t(std::stoul(op[1])), std::string(x.begin(), x.end())));
        return true;
    }
    if (k == "rapid_commit" && n == 1) { d.rapid_commit(); return true; }
    if (k == "user_class" && n == 2) {
        DHCPv6::user_class_type::data_type l;
        if (!app_class_arg(op[1], l)) return false;
        d.user_class(DHCPv6::user_class_type(l));
        return true;
    }
    if (k == "vendor_class" && n == 3) {
        DHCPv6::vendor_class_type::class_data_type l;
        if (!app_class_arg(op[2], l)) return false;
        d.vendor_class(DHCPv6::vendor_class_type(uint32_t(std::stoul(op[1])), l));
        return true;
    }
    if (k == "vendor_info" && n == 3 && app_hex(op[2], x)) {
        d.vendor_info(DHCPv6::vendor_info_type(uint32_t(std::stoul(op[1])), x));
        return true;
    }
    if (k == "interface_id" && n == 2 && app_hex(op[1], x)) { d.interface_id(x); return true; }
    if (k == "reconfigure_msg" && n == 2) { d.reconfigure_msg(uint8_t(std::stoul(op[1]))); return true; }
    if (k == "reconfigure_accept" && n == 1) { d.reconfigure_accept(); return true; }
    if (k == "client_id" && n == 3 && app_hex(op[2], x)) { d.client_id(DHCPv6::duid_type(uint16_t(std::stoul(op[1])), x)); return true; }
    if (k == "server_id" && n == 3 && app_hex(op[2], x)) { d.server_id(DHCPv6::duid_type(uint16_t(std::stoul(op[1])), x)); return true; }
    return false;
}

inline bool app_apply(PDU& p, const std::vector<std::string>& op) {
    if (op.empty()) return false;
    const std::string& k = op[0];
    switch (p.pdu_type()) {
    case PDU::ARP: {
        if (op.size() != 2) return false;
        ARP& a = static_cast<ARP&>(p);
        const std::string& v = op[1];
        HWAddress<6> m;
        IPv4Address ip;
        if (k == "hw_addr_format") { a.hw_addr_format(uint16_t(std::stoul(v))); return true; }
        if (k == "prot_addr_format") { a.prot_addr_format(uint16_t(std::stoul(v))); return true; }
        if (k == "hw_addr_length") { a.hw_addr_length(uint8_t(std::stoul(v))); return true; }
        if (k == "prot_addr_length") { a.prot_addr_length(uint8_t(std::stoul(v))); return true; }
        if (k == "opcode") { a.opcode(ARP::Flags(uint16_t(std::stoul(v)))); return true; }
        if (k == "sender_hw_addr" && app_mac(v, m)) { a.sender_hw_addr(m); return true; }
        if (k == "target_hw_addr" && app_mac(v, m)) { a.target_hw_addr(m); return true; }
        if (k == "sender_ip_addr" && app_ip4(v, ip)) { a.sender_ip_addr(ip); return true; }
        if (k == "target_ip_addr" && app_ip4(v, ip)) { a.target_ip_addr(ip); return true; }
        return false;
    }
    case PDU::VXLAN: {
        if (op.size() != 2) return false;
        VXLAN& v = static_cast<VXLAN&>(p);
        if (k == "flags") { v.set_flags(uint8_t(std::stoul(op[1]))); return true; }
        if (k == "vni") { v.set_vni(small_uint<24>(uint32_t(std::stoul(op[1])))); return true; }
        return false;
    }
    case PDU::STP: {
        STP& s = static_cast<STP&>(p);
        if (op.size() == 4 && (k == "root_id" || k == "bridge_id")) {
            HWAddress<6> m;
            if (!app_mac(op[3], m)) return false;
            STP::bpdu_id_type id(small_uint<4>(uint8_t(std::stoul(op[1]))), small_uint<12>(uint16_t(std::stoul(op[2]))), m);
            if (k == "root_id") s.root_id(id); else s.bridge_id(id);
            return true;
        }
        if (op.size() != 2) return false;
        unsigned long v = std::stoul(op[1]);
        if (k == "proto_id") { s.proto_id(uint16_t(v)); return true; }
        if (k == "proto_version") { s.proto_version(uint8_t(v)); return true; }
        if (k == "bpdu_type") { s.bpdu_type(uint8_t(v)); return true; }
        if (k == "bpdu_flags") { s.bpdu_flags(uint8_t(v)); return true; }
        if (k == "root_path_cost") { s.root_path_cost(uint32_t(v)); return true; }
        if (k == "port_id") { s.port_id(uint16_t(v)); return true; }
        if (k == "msg_age") { s.msg_age(uint16_t(v)); return true; }
        if (k == "max_age") { s.max_age(uint16_t(v)); return true; }
        if (k == "hello_time") { s.hello_time(uint16_t(v)); return true; }
        if (k == "fwd_delay") { s.fwd_delay(uint16_t(v)); return true; }
        return false;
    }
    case PDU::RTP: {
        if (op.size() != 2) return false;
        RTP& r = static_cast<RTP&>(p);
        unsigned long v = std::stoul(op[1]);
        if (k == "version") { r.version(small_uint<2>(uint8_t(v))); return true; }
        if (k == "extension_bit") { r.extension_bit(small_uint<1>(uint8_t(v))); return true; }
        if (k == "marker_bit") { r.marker_bit(small_uint<1>(uint8_t(v))); return true; }
        if (k == "payload_type") { r.payload_type(small_uint<7>(uint8_t(v))); return true; }
        if (k == "sequence_number") { r.sequence_number(uint16_t(v)); return true; }
        if (k == "timestamp") { r.timestamp(uint32_t(v)); return true; }
        if (k == "ssrc_id") { r.ssrc_id(uint32_t(v)); return true; }
        if (k == "padding_size") { r.padding_size(uint8_t(v)); return true; }
        if (k == "extension_profile") { r.extension_profile(uint16_t(v)); return true; }
        if (k == "add_extension_data") { r.add_extension_data(uint32_t(v)); return true; }
        if (k == "remove_extension_data") { r.remove_extension_data(uint32_t(v)); return true; }
        if (k == "add_csrc_id") { r.add_csrc_id(uint32_t(v)); return true; }
        if (k == "remove_csrc_id") { r.remove_csrc_id(uint32_t(v)); return true; }
        return false;
    }
    case PDU::BOOTP: {
        BootP& b = static_cast<BootP&>(p);
        bytes x;
        if (k == "vend" && op.size() == 2 && app_hex(op[1], x)) { b.vend(x); return true; }
        return bootp_apply(b, op);
    }
    case PDU::DHCP:
        return dhcp_apply(static_cast<DHCP&>(p), op);
    case PDU::DHCPv6:
        return dhcpv6_apply(static_cast<DHCPv6&>(p), op);
    default:
        return false;
    }
}

// ---------------------------------------------------------------- accessor sweep (C01)
// run `f` on every option; the item reports the worst outcome: a non-libtins exception, else a libtins exception, else ok
template <typename Opts, typename F>
inline void sweep_all(std::string& out, const char* name, const Opts& opts, F f) {
    std::string worst = "ok";
    for (typename Opts::const_iterator it = opts.begin(); it != opts.end(); ++it) {
        try { f(*it); }
        catch (const std::exception& e) {
            std::string n = vh::exc_name(e);
            if (n.compare(0, 4, "std:") == 0) worst = "throw:" + n;
            else if (worst == "ok") worst = "throw:" + n;
        }
    }
    if (!out.empty()) out += ",";
    out += std::string(name) + ":" + worst;
}

inline bool app_sweep(const PDU& p, std::string& out) {
    if (p.pdu_type() == PDU::DHCP) {
        const DHCP& d = static_cast<const DHCP&>(p);
        const DHCP::options_type opts = d.options();
        typedef DHCP::option O;
        sweep_all(out, "dhcp.u8", opts, [](const O& o) { o.to<uint8_t>(); });
        sweep_all(out, "dhcp.u16", opts, [](const O& o) { o.to<uint16_t>(); });
        sweep_all(out, "dhcp.u32", opts, [](const O& o) { o.to<uint32_t>(); });
        sweep_all(out, "dhcp.u64", opts, [](const O& o) { o.to<uint64_t>(); });
        sweep_all(out, "dhcp.ip", opts, [](const O& o) { o.to<IPv4Address>(); });
        sweep_all(out, "dhcp.ip6", opts, [](const O& o) { o.to<IPv6Address>(); });
        sweep_all(out, "dhcp.hw", opts, [](const O& o) { o.to<HWAddress<6> >(); });
        sweep_all(out, "dhcp.str", opts, [](const O& o) { o.to<std::string>(); });
        sweep_all(out, "dhcp.vu8", opts, [](const O& o) { o.to<std::vector<uint8_t> >(); });
        sweep_all(out, "dhcp.vu16", opts, [](const O& o) { o.to<std::vector<uint16_t> >(); });
        sweep_all(out, "dhcp.vu32", opts, [](const O& o) { o.to<std::vector<uint32_t> >(); });
        sweep_all(out, "dhcp.vip", opts, [](const O& o) { o.to<std::vector<IPv4Address> >(); });
        sweep_all(out, "dhcp.vip6", opts, [](const O& o) { o.to<std::vector<IPv6Address> >(); });
        sweep_all(out, "dhcp.pair", opts, [](const O& o) { o.to<std::pair<uint16_t, uint32_t> >(); });
        sweep_all(out, "dhcp.vpair", opts, [](const O& o) { o.to<std::vector<std::pair<uint8_t, uint8_t> > >(); });
        sweep_item(out, "dhcp.search", [&]() { for (int c = 0; c < 256; ++c) d.search_option(DHCP::OptionTypes(c)); });
        return true;
    }
    if (p.pdu_type() == PDU::DHCPv6) {
        const DHCPv6& d = static_cast<const DHCPv6&>(p);
        const DHCPv6::options_type& opts = d.options();
        typedef DHCPv6::option O;
        sweep_all(out, "v6.ia_na", opts, [](const O& o) { DHCPv6::ia_na_type::from_option(o); });
        sweep_all(out, "v6.ia_ta", opts, [](const O& o) { DHCPv6::ia_ta_type::from_option(o); });
        sweep_all(out, "v6.ia_addr", opts, [](const O& o) { DHCPv6::ia_address_type::from_option(o); });
        sweep_all(out, "v6.auth", opts, [](const O& o) { DHCPv6::authentication_type::from_option(o); });
        sweep_all(out, "v6.status", opts, [](const O& o) { DHCPv6::status_code_type::from_option(o); });
        sweep_all(out, "v6.vinfo", opts, [](const O& o) { DHCPv6::vendor_info_type::from_option(o); });
        sweep_all(out, "v6.vclass", opts, [](const O& o) { DHCPv6::vendor_class_type::from_option(o); });
        sweep_all(out, "v6.uclass", opts, [](const O& o) { DHCPv6::user_class_type::from_option(o); });
        sweep_all(out, "v6.duid", opts, [](const O& o) { DHCPv6::duid_type::from_option(o); });
        sweep_all(out, "v6.duid_llt", opts, [](const O& o) { DHCPv6::duid_llt::from_bytes(o.data_ptr(), uint32_t(o.data_size())); });
        sweep_all(out, "v6.duid_en", opts, [](const O& o) { DHCPv6::duid_en::from_bytes(o.data_ptr(), uint32_t(o.data_size())); });
        sweep_all(out, "v6.duid_ll", opts, [](const O& o) { DHCPv6::duid_ll::from_bytes(o.data_ptr(), uint32_t(o.data_size())); });
        sweep_all(out, "v6.u8", opts, [](const O& o) { o.to<uint8_t>(); });
        sweep_all(out, "v6.u16", opts, [](const O& o) { o.to<uint16_t>(); });
        sweep_all(out, "v6.u32", opts, [](const O& o) { o.to<uint32_t>(); });
        sweep_all(out, "v6.ip6", opts, [](const O& o) { o.to<IPv6Address>(); });
        sweep_all(out, "v6.vu16", opts, [](const O& o) { o.to<std::vector<uint16_t> >(); });
        sweep_all(out, "v6.vip6", opts, [](const O& o) { o.to<std::vector<IPv6Address> >(); });
        sweep_item(out, "v6.search", [&]() { for (int c = 0; c < 90; ++c) d.search_option(DHCPv6::OptionTypes(c)); });
        return true;
    }
    if (p.pdu_type() == PDU::RTP) {
        RTP& r = const_cast<RTP&>(static_cast<const RTP&>(p));   // search_* are non-const members but do not modify
        sweep_item(out, "rtp.search", [&]() { r.search_csrc_id(0); r.search_extension_data(0); });
        return true;
    }
    return false;
}

} // namespace wire
