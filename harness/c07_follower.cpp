// C07 correspondence harness: drives the real TCPIP::StreamFollower with real IP/IPv6 + TCP [+ RawPDU] packets.
//   case attach=<0|1> maxc=<n> maxb=<n> ka=<microseconds> acl=<0|1> ooo=<0|1>
//   decl <v4|v6> <src> <sport> <dst> <dport> <isn> <hex>          (oracle only: the byte stream src->dst)
//   pkt <ts> <v4|v6> <src> <sport> <dst> <dport> <flags> <seq> <ack> <none|-|hex> [mss=<n>] [sack]
//   find <v4|v6> <a> <aport> <b> <bport>
// Addresses are hex (8 digits IPv4, 32 digits IPv6).  Output of `pkt`: `<events ;-separated or -> | <status>` where the
// status is that of the stream found under the packet's own 4-tuple after the packet (or `none`).
// Built with -fno-access-control: the buffering limits have no public setter (max_buffered_chunks_/bytes_).
#include "common.h"
#include <tins/tcp_ip/stream_follower.h>
#include <tins/ip.h>
#include <tins/ipv6.h>
#include <tins/tcp.h>
#include <tins/rawpdu.h>
#include <tins/packet.h>
#include <chrono>
#include <map>
#include <memory>
using namespace Tins;
using namespace vh;
using Tins::TCPIP::Stream;
using Tins::TCPIP::Flow;
using Tins::TCPIP::StreamFollower;

static std::vector<std::string> events;
static bool cfg_acl = true, cfg_ooo = false;

static std::string kv(const std::vector<std::string>& w, const std::string& key, const std::string& dflt) {
    for (auto& s : w) if (s.compare(0, key.size() + 1, key + "=") == 0) return s.substr(key.size() + 1);
    return dflt;
}

static std::string hex4(IPv4Address a) {
    uint32_t v = a;                      // stored in network byte order
    return to_hex(reinterpret_cast<const uint8_t*>(&v), 4);
}
static std::string hex16(const IPv6Address& a) {
    bytes b(a.begin(), a.end());
    return to_hex(b);
}
static IPv4Address addr4(const std::string& h) {
    bytes b; parse_hex(h, b);
    if (b.size() != 4) throw std::runtime_error("bad v4");
    std::ostringstream o;
    o << int(b[0]) << "." << int(b[1]) << "." << int(b[2]) << "." << int(b[3]);
    return IPv4Address(o.str());
}
static IPv6Address addr6(const std::string& h) {
    bytes b; parse_hex(h, b);
    if (b.size() != 16) throw std::runtime_error("bad v6");
    return IPv6Address(b.data());
}

static std::string sid(const Stream& s) {
    std::ostringstream o;
    if (s.is_v6()) o << "v6:" << hex16(s.client_addr_v6()) << ":" << s.client_port() << ">" << hex16(s.server_addr_v6()) << ":" << s.server_port();
    else o << "v4:" << hex4(s.client_addr_v4()) << ":" << s.client_port() << ">" << hex4(s.server_addr_v4()) << ":" << s.server_port();
    return o.str();
}
static const char* state_name(Flow::State st) {
    switch (st) {
        case Flow::UNKNOWN: return "UNKNOWN";
        case Flow::SYN_SENT: return "SYN_SENT";
        case Flow::ESTABLISHED: return "ESTABLISHED";
        case Flow::FIN_SENT: return "FIN_SENT";
        case Flow::RST_SENT: return "RST_SENT";
    }
    return "?";
}
static size_t real_bytes(const Flow& f) {
    size_t n = 0;
    for (auto& kvp : f.buffered_payload()) n += kvp.second.size();
    return n;
}
static size_t chunks_of(const Stream& s) { return s.client_flow().buffered_payload().size() + s.server_flow().buffered_payload().size(); }
static uint32_t bytes_of(const Stream& s) { return s.client_flow().total_buffered_bytes() + s.server_flow().total_buffered_bytes(); }

static std::string status(const Stream& s) {
    const Flow& c = s.client_flow(); const Flow& v = s.server_flow();
    std::ostringstream o;
    o << sid(s) << " partial=" << s.is_partial_stream() << " cst=" << state_name(c.state()) << " sst=" << state_name(v.state())
      << " cseq=" << c.sequence_number() << " sseq=" << v.sequence_number()
      << " cch=" << c.buffered_payload().size() << " sch=" << v.buffered_payload().size()
      << " cb=" << c.total_buffered_bytes() << " sb=" << v.total_buffered_bytes()
      << " real=" << (real_bytes(c) + real_bytes(v))
      << " cpl=" << c.payload().size() << " spl=" << v.payload().size()
      << " cmss=" << c.mss() << " smss=" << v.mss() << " csack=" << c.sack_permitted() << " ssack=" << v.sack_permitted()
      << " created=" << s.create_time().count() << " seen=" << s.last_seen().count();
    return o.str();
}

static void install(Stream& s) {
    s.client_data_callback([](Stream& st) {
        std::ostringstream o; o << "cdata " << sid(st) << " len=" << st.client_payload().size() << " h=" << fnv(st.client_payload());
        events.push_back(o.str());
    });
    s.server_data_callback([](Stream& st) {
        std::ostringstream o; o << "sdata " << sid(st) << " len=" << st.server_payload().size() << " h=" << fnv(st.server_payload());
        events.push_back(o.str());
    });
    s.stream_closed_callback([](Stream& st) { events.push_back("closed " + sid(st)); });
    if (cfg_ooo) {
        s.client_out_of_order_callback([](Stream& st, uint32_t seq, const Stream::payload_type& p) {
            std::ostringstream o; o << "cooo " << sid(st) << " seq=" << seq << " len=" << p.size() << " h=" << fnv(p);
            events.push_back(o.str());
        });
        s.server_out_of_order_callback([](Stream& st, uint32_t seq, const Stream::payload_type& p) {
            std::ostringstream o; o << "sooo " << sid(st) << " seq=" << seq << " len=" << p.size() << " h=" << fnv(p);
            events.push_back(o.str());
        });
    }
    if (!cfg_acl) s.auto_cleanup_payloads(false);
}

static std::unique_ptr<StreamFollower> make_follower(const std::vector<std::string>& w) {
    std::unique_ptr<StreamFollower> f(new StreamFollower());
    cfg_acl = kv(w, "acl", "1") == "1";
    cfg_ooo = kv(w, "ooo", "0") == "1";
    f->follow_partial_streams(kv(w, "attach", "0") == "1");
    // a limit the case line does not mention keeps the value the constructor gave it (DEFAULT_MAX_BUFFERED_CHUNKS, ...)
    if (kv(w, "maxc", "") != "") f->max_buffered_chunks_ = size_t(std::stoull(kv(w, "maxc", "")));
    if (kv(w, "maxb", "") != "") f->max_buffered_bytes_ = uint32_t(std::stoull(kv(w, "maxb", "")));
    if (kv(w, "ka", "") != "") f->stream_keep_alive(std::chrono::microseconds(std::stoll(kv(w, "ka", ""))));
    f->new_stream_callback([](Stream& s) {
        std::ostringstream o; o << "new " << sid(s) << " partial=" << s.is_partial_stream();
        events.push_back(o.str());
        install(s);
    });
    f->stream_termination_callback([](Stream& s, StreamFollower::TerminationReason r) {
        const char* n = r == StreamFollower::TIMEOUT ? "TIMEOUT" : r == StreamFollower::BUFFERED_DATA ? "BUFFERED_DATA" : "SACKED_SEGMENTS";
        std::ostringstream o; o << "term " << sid(s) << " " << n << " chunks=" << chunks_of(s) << " bytes=" << bytes_of(s);
        events.push_back(o.str());
    });
    return f;
}

static std::string find(StreamFollower& f, const std::string& fam, const std::string& a, uint16_t ap, const std::string& b, uint16_t bp) {
    try {
        Stream& s = fam == "v6" ? f.find_stream(addr6(a), ap, addr6(b), bp) : f.find_stream(addr4(a), ap, addr4(b), bp);
        return status(s);
    } catch (const stream_not_found&) {
        return "none";
    }
}

int main() {
    std::unique_ptr<StreamFollower> fol = make_follower({});
    static const uint8_t dummy = 0;
    return line_loop([&](const std::string& line) -> std::string {
        auto w = words(line);
        if (w.empty()) return "bad-op";
        if (w[0] == "case") {
            fol = make_follower(w);
            events.clear();
            return "case";
        }
        if (w[0] == "decl") return "decl";
        if (w[0] == "find" && w.size() >= 6) {
            return "find " + find(*fol, w[1], w[2], uint16_t(std::stoul(w[3])), w[4], uint16_t(std::stoul(w[5])));
        }
        if (w[0] == "pkt" && w.size() >= 11) {
            const long long ts = std::stoll(w[1]);
            const std::string& fam = w[2];
            const uint16_t sport = uint16_t(std::stoul(w[4])), dport = uint16_t(std::stoul(w[6]));
            PDU* l3;
            if (fam == "v6") l3 = new IPv6(addr6(w[5]), addr6(w[3]));
            else l3 = new IP(addr4(w[5]), addr4(w[3]));
            Packet pkt(l3, Timestamp(std::chrono::microseconds(ts)), Packet::own_pdu());
            TCP* tcp = new TCP(dport, sport);
            l3->inner_pdu(tcp);
            tcp->flags(small_uint<12>(uint16_t(std::stoul(w[7]) & 0xfff)));
            tcp->seq(uint32_t(std::stoull(w[8])));
            tcp->ack_seq(uint32_t(std::stoull(w[9])));
            for (size_t i = 11; i < w.size(); ++i) {
                if (w[i].compare(0, 4, "mss=") == 0) tcp->mss(uint16_t(std::stoul(w[i].substr(4))));
                else if (w[i] == "sack") tcp->sack_permitted();
            }
            if (w[10] != "none") {
                bytes d;
                if (!parse_hex(w[10], d)) return "bad-op";
                tcp->inner_pdu(new RawPDU(d.empty() ? &dummy : d.data(), uint32_t(d.size())));
            }
            events.clear();
            fol->process_packet(pkt);
            std::string ev;
            for (auto& e : events) { if (!ev.empty()) ev += ";"; ev += e; }
            if (ev.empty()) ev = "-";
            return ev + " | " + find(*fol, fam, w[3], sport, w[5], dport);
        }
        return "bad-op";
    });
}
