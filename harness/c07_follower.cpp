// C07 correspondence harness: drives the real TCPIP::StreamFollower with real IP/IPv6 + TCP [+ RawPDU] packets.
//   case attach=<0|1> maxc=<n> maxb=<n> ka=<microseconds> acl=<0|1> ooo=<0|1> [ack=<0..3>] [usesack=<0|1>] [ign=<0..3>] [maxs=<n>] [nocb=1] [rec=<window>]
//        ack: Flow::enable_ack_tracking in the new-stream callback (bit 0 client flow, bit 1 server flow);
//        usesack: AckTracker::use_sack on both flows' trackers there; ign: ignore_client_data (bit 0) / ignore_server_data
//        (bit 1) there; rec: Stream::enable_recovery_mode(window) there, after the callbacks have been installed; nocb: no new-stream callback is installed at all (callback_not_set path); maxs: what the check read for DEFAULT_MAX_SACKED_INTERVALS (answered with the compiled value)
//   decl <v4|v6> <src> <sport> <dst> <dport> <isn> <hex>          (oracle only: the byte stream src->dst)
//   pkt <ts> <v4|v6> <src> <sport> <dst> <dport> <flags> <seq> <ack> <none|-|hex> [mss=<n>] [sack] [sk=<-|edge,edge,..>] [skraw=<hex>]
//        sk: a SACK option built with TCP::sack (decimal 32-bit edges; `-` = no edges); skraw: a SACK option with arbitrary data
//   find <v4|v6> <a> <aport> <b> <bport>
// Addresses are hex (8 digits IPv4, 32 digits IPv6).  Output of `pkt`: `<events ;-separated or -> | <status>` where the
// status is that of the stream found under the packet's own 4-tuple after the packet (or `none`).
// Built with -fno-access-control: the buffering limits have no public setter (max_buffered_chunks_/bytes_).
#include "common.h"
#include <tins/tcp_ip/stream_follower.h>
#include <tins/ip.h>
#include <tins/ipv6.h>
#include <tins/tcp.h>
#include <tins/rawpdu.h>
#include <tins/packet.h>
#include <tins/config.h>
#include <tins/tcp_ip/ack_tracker.h>
#include <chrono>
#include <map>
#include <memory>
using namespace Tins;
using namespace vh;
using Tins::TCPIP::Stream;
using Tins::TCPIP::Flow;
using Tins::TCPIP::StreamFollower;

static std::vector<std::string> events;
static bool cfg_acl = true, cfg_ooo = false, cfg_usesack = false;
static int cfg_ack = 0, cfg_ign = 0;
static long long cfg_rec = -1;

static std::string kv(const std::vector<std::string>& w, const std::string& key, const std::string& dflt) {
    for (auto& s : w) if (s.compare(0, key.size() + 1, key + "=") == 0) return s.substr(key.size() + 1);
    return dflt;
}

static std::string hex4(IPv4Address a) {
    uint32_t v = a;                      // stored in network byte order
    return to_hex(reinterpret_cast<const uint8_t*>(&v), 4);
}
static std::string hex16(const IPv6Address& a) {
    bytes b(a.begin(), a.end());
    return to_hex(b);
}
static IPv4Address addr4(const std::string& h) {
    bytes b; parse_hex(h, b);
    if (b.size() != 4) throw std::runtime_error("bad v4");
    std::ostringstream o;
    o << int(b[0]) << "." << int(b[1]) << "." << int(b[2]) << "." << int(b[3]);
    return IPv4Address(o.str());
}
static IPv6Address addr6(const std::string& h) {
    bytes b; parse_hex(h, b);
    if (b.size() != 16) throw std::runtime_error("bad v6");
    return IPv6Address(b.data());
}

static std::string sid(const Stream& s) {
    std::ostringstream o;
    if (s.is_v6()) o << "v6:" << hex16(s.client_addr_v6()) << ":" << s.client_port() << ">" << hex16(s.server_addr_v6()) << ":" << s.server_port();
    else o << "v4:" << hex4(s.client_addr_v4()) << ":" << s.client_port() << ">" << hex4(s.server_addr_v4()) << ":" << s.server_port();
    return o.str();
}
static const char* state_name(Flow::State st) {
    switch (st) {
        case Flow::UNKNOWN: return "UNKNOWN";
        case Flow::SYN_SENT: return "SYN_SENT";
        case Flow::ESTABLISHED: return "ESTABLISHED";
        case Flow::FIN_SENT: return "FIN_SENT";
        case Flow::RST_SENT: return "RST_SENT";
    }
    return "?";
}
static size_t real_bytes(const Flow& f) {
    size_t n = 0;
    for (auto& kvp : f.buffered_payload()) n += kvp.second.size();
    return n;
}
static size_t chunks_of(const Stream& s) { return s.client_flow().buffered_payload().size() + s.server_flow().buffered_payload().size(); }
static uint32_t bytes_of(const Stream& s) { return s.client_flow().total_buffered_bytes() + s.server_flow().total_buffered_bytes(); }

static std::string ivs_of(const Flow& f) {
    std::ostringstream o;
    bool first = true;
    for (auto& iv : f.ack_tracker().acked_intervals()) {
        if (!first) o << ",";
        first = false;
        o << boost::icl::first(iv) << "-" << boost::icl::last(iv);
    }
    return first ? "-" : o.str();
}
static uint32_t sacked_of(const Stream& s) {
    return uint32_t(s.client_flow().ack_tracker().acked_intervals().iterative_size()) +
           uint32_t(s.server_flow().ack_tracker().acked_intervals().iterative_size());
}

static std::string status(const Stream& s) {
    const Flow& c = s.client_flow(); const Flow& v = s.server_flow();
    std::ostringstream o;
    o << sid(s) << " partial=" << s.is_partial_stream() << " cst=" << state_name(c.state()) << " sst=" << state_name(v.state())
      << " cseq=" << c.sequence_number() << " sseq=" << v.sequence_number()
      << " cch=" << c.buffered_payload().size() << " sch=" << v.buffered_payload().size()
      << " cb=" << c.total_buffered_bytes() << " sb=" << v.total_buffered_bytes()
      << " real=" << (real_bytes(c) + real_bytes(v))
      << " cpl=" << c.payload().size() << " spl=" << v.payload().size()
      << " cmss=" << c.mss() << " smss=" << v.mss() << " csack=" << c.sack_permitted() << " ssack=" << v.sack_permitted()
      << " created=" << s.create_time().count() << " seen=" << s.last_seen().count()
      << " ctrk=" << c.ack_tracking_enabled() << " strk=" << v.ack_tracking_enabled()
      << " cak=" << c.ack_tracker().ack_number() << " sak=" << v.ack_tracker().ack_number()
      << " civn=" << c.ack_tracker().acked_intervals().iterative_size() << " sivn=" << v.ack_tracker().acked_intervals().iterative_size()
      << " civ=" << ivs_of(c) << " siv=" << ivs_of(v) << " rec=" << s.is_recovery_mode_enabled();
    return o.str();
}

static void install(Stream& s) {
    s.client_data_callback([](Stream& st) {
        std::ostringstream o; o << "cdata " << sid(st) << " len=" << st.client_payload().size() << " h=" << fnv(st.client_payload());
        events.push_back(o.str());
    });
    s.server_data_callback([](Stream& st) {
        std::ostringstream o; o << "sdata " << sid(st) << " len=" << st.server_payload().size() << " h=" << fnv(st.server_payload());
        events.push_back(o.str());
    });
    s.stream_closed_callback([](Stream& st) { events.push_back("closed " + sid(st)); });
    if (cfg_ooo) {
        s.client_out_of_order_callback([](Stream& st, uint32_t seq, const Stream::payload_type& p) {
            std::ostringstream o; o << "cooo " << sid(st) << " seq=" << seq << " len=" << p.size() << " h=" << fnv(p);
            events.push_back(o.str());
        });
        s.server_out_of_order_callback([](Stream& st, uint32_t seq, const Stream::payload_type& p) {
            std::ostringstream o; o << "sooo " << sid(st) << " seq=" << seq << " len=" << p.size() << " h=" << fnv(p);
            events.push_back(o.str());
        });
    }
    if (!cfg_acl) s.auto_cleanup_payloads(false);
    if (cfg_ack & 1) s.client_flow().enable_ack_tracking();
    if (cfg_ack & 2) s.server_flow().enable_ack_tracking();
    if (cfg_usesack) { s.client_flow().ack_tracker().use_sack(); s.server_flow().ack_tracker().use_sack(); }
    if (cfg_ign & 1) s.ignore_client_data();
    if (cfg_ign & 2) s.ignore_server_data();
    if (cfg_rec >= 0) s.enable_recovery_mode(uint32_t(cfg_rec));
}

static std::unique_ptr<StreamFollower> make_follower(const std::vector<std::string>& w) {
    std::unique_ptr<StreamFollower> f(new StreamFollower());
    cfg_acl = kv(w, "acl", "1") == "1";
    cfg_ooo = kv(w, "ooo", "0") == "1";
    cfg_ack = std::stoi(kv(w, "ack", "0"));
    cfg_ign = std::stoi(kv(w, "ign", "0"));
    cfg_usesack = kv(w, "usesack", "0") == "1";
    cfg_rec = std::stoll(kv(w, "rec", "-1"));
    f->follow_partial_streams(kv(w, "attach", "0") == "1");
    // a limit the case line does not mention keeps the value the constructor gave it (DEFAULT_MAX_BUFFERED_CHUNKS, ...)
    if (kv(w, "maxc", "") != "") f->max_buffered_chunks_ = size_t(std::stoull(kv(w, "maxc", "")));
    if (kv(w, "maxb", "") != "") f->max_buffered_bytes_ = uint32_t(std::stoull(kv(w, "maxb", "")));
    if (kv(w, "ka", "") != "") f->stream_keep_alive(std::chrono::microseconds(std::stoll(kv(w, "ka", ""))));
    if (kv(w, "nocb", "0") != "1") f->new_stream_callback([](Stream& s) {
        std::ostringstream o; o << "new " << sid(s) << " partial=" << s.is_partial_stream();
        events.push_back(o.str());
        install(s);
    });
    f->stream_termination_callback([](Stream& s, StreamFollower::TerminationReason r) {
        const char* n = r == StreamFollower::TIMEOUT ? "TIMEOUT" : r == StreamFollower::BUFFERED_DATA ? "BUFFERED_DATA" : "SACKED_SEGMENTS";
        std::ostringstream o; o << "term " << sid(s) << " " << n << " chunks=" << chunks_of(s) << " bytes=" << bytes_of(s) << " sacked=" << sacked_of(s);
        events.push_back(o.str());
    });
    return f;
}

static std::string find(StreamFollower& f, const std::string& fam, const std::string& a, uint16_t ap, const std::string& b, uint16_t bp) {
    try {
        Stream& s = fam == "v6" ? f.find_stream(addr6(a), ap, addr6(b), bp) : f.find_stream(addr4(a), ap, addr4(b), bp);
        return status(s);
    } catch (const stream_not_found&) {
        return "none";
    }
}

int main() {
    std::unique_ptr<StreamFollower> fol = make_follower({});
    static const uint8_t dummy = 0;
    return line_loop([&](const std::string& line) -> std::string {
        auto w = words(line);
        if (w.empty()) return "bad-op";
        if (w[0] == "case") {
            fol = make_follower(w);
            events.clear();
            return "case maxs=" + std::to_string(StreamFollower::DEFAULT_MAX_SACKED_INTERVALS);
        }
        if (w[0] == "decl") return "decl";
        if (w[0] == "find" && w.size() >= 6) {
            return "find " + find(*fol, w[1], w[2], uint16_t(std::stoul(w[3])), w[4], uint16_t(std::stoul(w[5])));
        }
        if (w[0] == "pkt" && w.size() >= 11) {
            const long long ts = std::stoll(w[1]);
            const std::string& fam = w[2];
            const uint16_t sport = uint16_t(std::stoul(w[4])), dport = uint16_t(std::stoul(w[6]));
            PDU* l3;
            if (fam == "v6") l3 = new IPv6(addr6(w[5]), addr6(w[3]));
            else l3 = new IP(addr4(w[5]), addr4(w[3]));
            Packet pkt(l3, Timestamp(std::chrono::microseconds(ts)), Packet::own_pdu());
            TCP* tcp = new TCP(dport, sport);
            l3->inner_pdu(tcp);
            tcp->flags(small_uint<12>(uint16_t(std::stoul(w[7]) & 0xfff)));
            tcp->seq(uint32_t(std::stoull(w[8])));
            tcp->ack_seq(uint32_t(std::stoull(w[9])));
            for (size_t i = 11; i < w.size(); ++i) {
                if (w[i].compare(0, 4, "mss=") == 0) tcp->mss(uint16_t(std::stoul(w[i].substr(4))));
                else if (w[i] == "sack") tcp->sack_permitted();
                else if (w[i].compare(0, 3, "sk=") == 0) {
                    TCP::sack_type edges;
                    std::string list = w[i].substr(3);
                    if (list != "-") {
                        std::istringstream in(list);
                        std::string item;
                        while (std::getline(in, item, ',')) edges.push_back(uint32_t(std::stoull(item)));
                    }
                    if (edges.size() > 60) return "bad-op";      // TCP::sack truncates the size to uint8_t
                    tcp->sack(edges);
                }
                else if (w[i].compare(0, 6, "skraw=") == 0) {
                    bytes d;
                    if (!parse_hex(w[i].substr(6), d) || d.size() > 255) return "bad-op";
                    tcp->add_option(TCP::option(TCP::SACK, d.size(), d.data()));
                }
            }
            if (w[10] != "none") {
                bytes d;
                if (!parse_hex(w[10], d)) return "bad-op";
                tcp->inner_pdu(new RawPDU(d.empty() ? &dummy : d.data(), uint32_t(d.size())));
            }
            events.clear();
            try {
                fol->process_packet(pkt);
            } catch (const callback_not_set&) {
                events.push_back("exc callback_not_set");
            } catch (const std::exception& e) {
                events.push_back("exc " + exc_name(e));
            }
            std::string ev;
            for (auto& e : events) { if (!ev.empty()) ev += ";"; ev += e; }
            if (ev.empty()) ev = "-";
            return ev + " | " + find(*fol, fam, w[3], sport, w[5], dport);
        }
        return "bad-op";
    });
}
