// C17 correspondence harness: real PacketWriter / FileSniffer / OfflinePacketFilter on real capture files.
//
// Normal mode (argv[1] = directory for the capture files). One case = one capture file:
//   file <LT> <method>
//        LT     : E:<ETH2|DOT3|SLL|RADIOTAP|DOT11>  (PacketWriter::LinkType enumerator)
//                 T:<EthernetII|Dot3|SLL|Loopback|PPI|Dot11|RadioTap|IP>   (DataLinkType<T>)
//                 N:<int>  (integer cast to PacketWriter::LinkType, only values inside the enum's range are used)
//        method : loop | dispatch | exact   (pcap_loop, pcap_dispatch, custom method handing the handler an exact-size
//                 heap copy of every frame so that ASan sees any read past caplen)
//   w <how> <sec> <usec> <hex> | <annotation>     how = raw (RawPDU around the bytes) | pdu:<Class> (parsed first)
//        written through PacketWriter::write(Packet&) with Timestamp(timeval{sec,usec})
//   close                          destroys the writer, reports size / hash / header fields of the file
//   rotate                         `writer = PacketWriter(other_path, lt)` (move assignment onto the live writer, the
//                                  usual way to start the next file): the first file must be complete and nothing leak
//   chop <k>                       truncates the file by k bytes
//   read k=v ...                   api=next|loop|iter  filt=none|empty|cfg|ctor|post|clr (ctor filter, then set_filter(""))  raw=0|1  src=name|fp  mv=0|1  tog=K (api=next: raw mode flipped after K packets)
//                                  max=<n> stop=<k> thr=<i>:<mal|nf>,...  cb=packet|pdu   f=<filter text to end of line>
//   offline <how> f=<filter>       OfflinePacketFilter over the frames read back as RawPDU (how = pdu | buf)
//
// Annotate mode (argv[1] = "annotate"): stateless, two lines per frame
//   ann <dlt> <how> <hex> f=<filter>   -> s=<hex written> adv=<n> m=<0|1> mo=<0|1>
//   annp <classes,comma> <hex of s>    -> p:<Class>=<outcome> ...
// the outcomes come from constructing the classes directly and from libpcap's pcap_offline_filter called directly;
// they are the abstract parse / filter oracles of the Lean model (which models the loop, not the dissectors).
#include "common.h"
#include <tins/tins.h>
#include <tins/offline_packet_filter.h>
#include <tins/packet_writer.h>
#include <tins/sniffer.h>
#include <tins/loopback.h>
#include <pcap.h>
#include <map>
#include <memory>
#include <unistd.h>
#include <sys/stat.h>
#include <sanitizer/lsan_interface.h>

using namespace Tins;
using namespace vh;

static std::string xname(const std::exception& e) {
    if (dynamic_cast<const unknown_link_type*>(&e)) return "unknown_link_type";
    if (dynamic_cast<const invalid_pcap_filter*>(&e)) return "invalid_pcap_filter";
    if (dynamic_cast<const pcap_error*>(&e)) return "pcap_error";
    if (dynamic_cast<const pcap_open_failed*>(&e)) return "pcap_open_failed";
    if (dynamic_cast<const protocol_disabled*>(&e)) return "protocol_disabled";
    return exc_name(e);
}

// exact-size heap block whose END coincides with the end of the allocation (also for n == 0)
struct Exact {
    uint8_t* block; uint8_t* p; size_t n;
    Exact(const uint8_t* src, size_t len) : block((uint8_t*)malloc(len + 8)), p(block + 8), n(len) {
        if (len) memcpy(p, src, len);
    }
    ~Exact() { free(block); }
private:
    Exact(const Exact&); Exact& operator=(const Exact&);
};

static std::string chain_of(const PDU& pdu) {
    std::ostringstream o;
    bool first = true;
    for (const PDU* p = &pdu; p; p = p->inner_pdu()) {
        if (!first) o << ".";
        first = false;
        o << int(p->pdu_type());
    }
    return o.str();
}

// canonical description of a parsed packet: layer chain / size / hash of its serialization
static std::string describe(PDU& pdu) {
    std::ostringstream o;
    o << chain_of(pdu) << "/" << pdu.size() << "/";
    try {
        PDU::serialization_type b = pdu.serialize();
        o << fnv(b.data(), b.size());
    } catch (const std::exception& e) {
        o << "throw:" << xname(e);
    }
    return o.str();
}

static PDU* parse_class(const std::string& cls, const uint8_t* p, uint32_t n) {
    if (cls == "EthernetII") return new EthernetII(p, n);
    if (cls == "Dot3") return new Dot3(p, n);
    if (cls == "Loopback") return new Loopback(p, n);
    if (cls == "SLL") return new SLL(p, n);
    if (cls == "PPI") return new PPI(p, n);
    if (cls == "RadioTap") return new RadioTap(p, n);
    if (cls == "Dot11") return Dot11::from_bytes(p, n);
    if (cls == "IP") return new IP(p, n);
    if (cls == "IPv6") return new IPv6(p, n);
    if (cls == "RawPDU") return new RawPDU(p, n);
    throw std::runtime_error("harness: unknown class " + cls);
}

static std::string parse_outcome(const std::string& cls, const uint8_t* p, uint32_t n) {
    Exact ex(p, n);
    try {
        std::unique_ptr<PDU> pdu(parse_class(cls, ex.p, n));
        if (!pdu) return "null";
        return "ok:" + describe(*pdu);
    } catch (const malformed_packet&) {
        return "mal";
    } catch (const std::exception& e) {
        return "exc:" + xname(e);
    }
}

static std::string rest_after(const std::string& line, const std::string& key) {
    size_t p = line.find(" " + key);
    if (p == std::string::npos) return "";
    return line.substr(p + 1 + key.size());
}

// ------------------------------------------------------------------------------------------------ annotate mode

struct Filt { pcap_t* handle; bpf_program prog; bool ok; };
static std::map<std::string, Filt> g_filters;
static std::string g_anndir = ".";

// libpcap compiles some expressions differently for a savefile than for a dead handle (e.g. `ip6` on DLT_NULL:
// the AF_INET6 values of the BSDs for a savefile, this host's value otherwise), so the sniffer's filter is compared
// with a program compiled on a savefile handle of the same link type, OfflinePacketFilter with one compiled on a
// dead handle.
static pcap_t* savefile_handle(int dlt) {
    std::string path = g_anndir + "/c17-ann-" + std::to_string(getpid()) + "-" + std::to_string(dlt) + ".pcap";
    pcap_t* dead = pcap_open_dead(dlt, 262144);
    if (!dead) return 0;
    pcap_dumper_t* d = pcap_dump_open(dead, path.c_str());
    if (d) pcap_dump_close(d);
    pcap_close(dead);
    char err[PCAP_ERRBUF_SIZE];
    pcap_t* h = d ? pcap_open_offline(path.c_str(), err) : 0;
    unlink(path.c_str());
    return h;
}

static Filt& get_filter(int dlt, const std::string& text, bool savefile) {
    std::string key = std::to_string(dlt) + (savefile ? "|s|" : "|d|") + text;
    auto it = g_filters.find(key);
    if (it != g_filters.end()) return it->second;
    Filt f; f.ok = false;
    f.handle = savefile ? savefile_handle(dlt) : pcap_open_dead(dlt, 65535);
    if (f.handle && pcap_compile(f.handle, &f.prog, text.c_str(), savefile ? 0 : 1, savefile ? 0 : 0xffffffff) == 0) f.ok = true;
    return g_filters[key] = f;
}

static int direct_match(int dlt, const std::string& text, bool savefile, const uint8_t* p, uint32_t caplen, uint32_t len) {
    if (text.empty()) return 1;
    Filt& f = get_filter(dlt, text, savefile);
    if (!f.ok) return -1;
    Exact ex(p, caplen);
    pcap_pkthdr h; memset(&h, 0, sizeof h);
    h.caplen = caplen; h.len = len;
    return pcap_offline_filter(&f.prog, &h, ex.p) != 0 ? 1 : 0;
}

// the PDU that `w <how>` writes for these bytes
static PDU* pdu_to_write(const std::string& how, const bytes& b) {
    if (how.compare(0, 4, "pdu:") == 0) {
        try {
            Exact ex(b.data(), b.size());
            PDU* p = parse_class(how.substr(4), ex.p, uint32_t(b.size()));
            if (p) return p;
        } catch (const malformed_packet&) { }
    }
    return new RawPDU(b.data(), uint32_t(b.size()));
}

// `ann <dlt> <how> <hex> f=<filter>`  ->  s=<hex written> adv=<n> m=<0|1> mo=<0|1>       (the writer's side)
// `annp <classes,comma> <hex>`         ->  p:<Class>=<outcome> ...                       (the dissectors' side)
static std::string annotate(const std::string& line) {
    auto w = words(line);
    if (w.size() >= 3 && w[0] == "annp") {
        bytes b;
        if (!parse_hex(w[2], b)) return "bad-op";
        std::ostringstream o;
        std::istringstream cs(w[1]);
        std::string cls;
        bool first = true;
        while (std::getline(cs, cls, ',')) {
            if (!first) o << " ";
            first = false;
            o << "p:" << cls << "=" << parse_outcome(cls, b.data(), uint32_t(b.size()));
        }
        return o.str();
    }
    if (w.size() < 4 || w[0] != "ann") return "bad-op";
    int dlt = std::stoi(w[1]);
    bytes b;
    if (!parse_hex(w[3], b)) return "bad-op";
    std::string filter = rest_after(line, "f=");
    std::ostringstream o;
    std::unique_ptr<PDU> pdu(pdu_to_write(w[2], b));
    uint32_t adv = pdu->advertised_size();
    PDU::serialization_type s;
    try {
        s = pdu->serialize();
    } catch (const std::exception& e) {
        return "s=throw:" + xname(e);
    }
    o << "s=" << to_hex(s.data(), s.size()) << " adv=" << adv;
    o << " m=" << direct_match(dlt, filter, true, s.data(), uint32_t(s.size()), adv);
    o << " mo=" << direct_match(dlt, filter, false, s.data(), uint32_t(s.size()), uint32_t(s.size()));
    return o.str();
}

// ------------------------------------------------------------------------------------------------ normal mode

static int exact_method(pcap_t* h, int, pcap_handler cb, u_char* user) {
    struct pcap_pkthdr* hdr = 0;
    const u_char* data = 0;
    int r = pcap_next_ex(h, &hdr, &data);
    if (r == 1) {
        Exact ex(data, hdr->caplen);
        cb(user, hdr, ex.p);
        return 1;
    }
    if (r == PCAP_ERROR_BREAK) return 0;     // end of the savefile: no packet, handler not called
    return r;
}

struct Case {
    std::string path;
    std::string lt;          // writer link type token
    std::string method;
    std::unique_ptr<PacketWriter> writer;
};

static PacketWriter* make_writer(const std::string& path, const std::string& lt) {
    std::string k = lt.substr(0, 2), v = lt.substr(2);
    if (k == "E:") {
        if (v == "ETH2") return new PacketWriter(path, PacketWriter::ETH2);
        if (v == "DOT3") return new PacketWriter(path, PacketWriter::DOT3);
        if (v == "SLL") return new PacketWriter(path, PacketWriter::SLL);
        if (v == "RADIOTAP") return new PacketWriter(path, PacketWriter::RADIOTAP);
        if (v == "DOT11") return new PacketWriter(path, PacketWriter::DOT11);
    }
    if (k == "T:") {
        if (v == "EthernetII") return new PacketWriter(path, DataLinkType<EthernetII>());
        if (v == "Dot3") return new PacketWriter(path, DataLinkType<Dot3>());
        if (v == "SLL") return new PacketWriter(path, DataLinkType<SLL>());
        if (v == "Loopback") return new PacketWriter(path, DataLinkType<Loopback>());
        if (v == "PPI") return new PacketWriter(path, DataLinkType<PPI>());
        if (v == "Dot11") return new PacketWriter(path, DataLinkType<Dot11>());
        if (v == "RadioTap") return new PacketWriter(path, DataLinkType<RadioTap>());
        if (v == "IP") return new PacketWriter(path, DataLinkType<IP>());
    }
    if (k == "N:") return new PacketWriter(path, static_cast<PacketWriter::LinkType>(std::stoi(v)));
    throw std::runtime_error("harness: bad link type token " + lt);
}

static bool read_file(const std::string& path, bytes& out) {
    FILE* f = fopen(path.c_str(), "rb");
    if (!f) return false;
    out.clear();
    uint8_t buf[65536];
    size_t n;
    while ((n = fread(buf, 1, sizeof buf, f)) > 0) out.insert(out.end(), buf, buf + n);
    fclose(f);
    return true;
}

static uint32_t le32(const bytes& b, size_t off) {
    return uint32_t(b[off]) | uint32_t(b[off + 1]) << 8 | uint32_t(b[off + 2]) << 16 | uint32_t(b[off + 3]) << 24;
}

static std::string show_pkt(const Timestamp* ts, PDU& pdu) {
    std::ostringstream o;
    if (ts) o << (long long)ts->seconds() << "." << (long long)ts->microseconds();
    else o << "-";
    o << ":" << describe(pdu);
    return o.str();
}

struct Script {
    std::vector<std::string>* out;
    long stop;                                  // return false at the stop-th invocation (1-based); 0 = never
    std::map<long, std::string>* thr;           // invocation index (0-based) -> mal | nf
    long* count;
    bool operator()(Packet& p) {
        long i = (*count)++;
        out->push_back(show_pkt(&p.timestamp(), *p.pdu()));
        auto it = thr->find(i);
        if (it != thr->end()) {
            if (it->second == "mal") throw malformed_packet();
            if (it->second == "nf") throw pdu_not_found();
        }
        return !(stop && i + 1 == stop);
    }
};
struct ScriptPdu {
    Script s;
    bool operator()(PDU& pdu) {
        long i = (*s.count)++;
        s.out->push_back(show_pkt(0, pdu));
        auto it = s.thr->find(i);
        if (it != s.thr->end()) {
            if (it->second == "mal") throw malformed_packet();
            if (it->second == "nf") throw pdu_not_found();
        }
        return !(s.stop && i + 1 == s.stop);
    }
};

static std::string join(const std::vector<std::string>& v) {
    std::string s;
    for (size_t i = 0; i < v.size(); ++i) { if (i) s += ","; s += v[i]; }
    return s.empty() ? "-" : s;
}

static std::map<std::string, std::string> kvs(const std::vector<std::string>& w) {
    std::map<std::string, std::string> m;
    for (size_t i = 1; i < w.size(); ++i) {
        size_t p = w[i].find('=');
        if (p != std::string::npos) m[w[i].substr(0, p)] = w[i].substr(p + 1);
    }
    return m;
}

static BaseSniffer::PcapSniffingMethod method_of(const std::string& m) {
    if (m == "dispatch") return pcap_dispatch;
    if (m == "exact") return exact_method;
    return pcap_loop;
}

// drain with next_packet until a null packet; returns the end marker
static std::string drain(FileSniffer& sn, std::vector<std::string>& out, long tog = 0, bool raw_after = false) {
    try {
        long n = 0;
        while (true) {
            Packet p = sn.next_packet();
            if (!p) break;
            out.push_back(show_pkt(&p.timestamp(), *p.pdu()));
            // tog=K: after the K-th delivered packet the user switches the raw mode of the live sniffer
            if (tog && ++n == tog) sn.set_extract_raw_pdus(raw_after);
        }
        Packet again = sn.next_packet();          // the end is sticky
        return again ? "eof-then-packet" : "eof";
    } catch (const std::exception& e) {
        return "escape:" + xname(e);
    }
}

static std::string do_read(Case& c, const std::string& line) {
    auto w = words(line);
    auto kv = kvs(w);
    std::string api = kv.count("api") ? kv["api"] : "next";
    std::string filt = kv.count("filt") ? kv["filt"] : "none";
    std::string filter = rest_after(line, "f=");
    bool raw = kv["raw"] == "1";
    long maxp = kv.count("max") ? std::stol(kv["max"]) : 0;
    long stop = kv.count("stop") ? std::stol(kv["stop"]) : 0;
    std::map<long, std::string> thr;
    if (kv.count("thr")) {
        std::istringstream ts(kv["thr"]);
        std::string item;
        while (std::getline(ts, item, ',')) {
            size_t p = item.find(':');
            if (p != std::string::npos) thr[std::stol(item.substr(0, p))] = item.substr(p + 1);
        }
    }
    long base = VerifHooks::live_pdus();
    std::ostringstream o;
    o << "read";
    {
        std::unique_ptr<FileSniffer> sn;
        try {
            FILE* fp = 0;
            if (kv["src"] == "fp") {
                fp = fopen(c.path.c_str(), "rb");
                if (!fp) return "read open=nofile";
            }
            if (filt == "cfg" || filt == "none") {
                SnifferConfiguration cfg;
                if (filt == "cfg") cfg.set_filter(filter);
                cfg.set_pcap_sniffing_method(method_of(c.method));
                if (fp) sn.reset(new FileSniffer(fp, cfg)); else sn.reset(new FileSniffer(c.path, cfg));
            } else if (filt == "ctor" || filt == "clr") {
                if (fp) sn.reset(new FileSniffer(fp, filter)); else sn.reset(new FileSniffer(c.path, filter));
            } else {
                if (fp) sn.reset(new FileSniffer(fp)); else sn.reset(new FileSniffer(c.path));
            }
            if (filt == "post") {
                if (!sn->set_filter(filter)) return "read open=ok set_filter=0";
            }
            if (filt == "clr") {
                // the filter given to the constructor is removed again: the empty expression accepts every frame
                if (!sn->set_filter("")) return "read open=ok set_filter=0";
            }
            sn->set_pcap_sniffing_method(method_of(c.method));
        } catch (const std::exception& e) {
            return "read open=throw:" + xname(e);
        }
        if (kv["mv"] == "1") {
            // read through a move-constructed sniffer; the moved-from one is destroyed first
            std::unique_ptr<FileSniffer> moved(new FileSniffer(std::move(*sn)));
            sn.swap(moved);
            moved.reset();
        }
        o << " open=ok dlt=" << sn->link_type();
        if (raw) sn->set_extract_raw_pdus(true);
        std::vector<std::string> first, rest;
        std::string end1 = "-", end2 = "-";
        if (api == "next") {
            end1 = drain(*sn, first, kv.count("tog") ? std::stol(kv["tog"]) : 0, !raw);
        } else if (api == "loop") {
            long count = 0;
            Script s = { &first, stop, &thr, &count };
            try {
                if (kv["cb"] == "pdu") { ScriptPdu sp = { s }; sn->sniff_loop(sp, uint32_t(maxp)); }
                else sn->sniff_loop(s, uint32_t(maxp));
                end1 = "returned";
            } catch (const std::exception& e) {
                end1 = "escape:" + xname(e);
            }
            if (end1 == "returned") end2 = drain(*sn, rest);
        } else if (api == "iter") {
            long count = 0;
            try {
                end1 = "exhausted";
                for (Packet& p : *sn) {
                    first.push_back(show_pkt(&p.timestamp(), *p.pdu()));
                    if (stop && ++count == stop) { end1 = "break"; break; }
                }
            } catch (const std::exception& e) {
                end1 = "escape:" + xname(e);
            }
            if (end1.compare(0, 6, "escape") != 0) end2 = drain(*sn, rest);
        } else {
            return "bad-op";
        }
        o << " pkts=" << join(first) << " end=" << end1 << " rest=" << join(rest) << " end2=" << end2;
    }
    o << " live=" << (VerifHooks::live_pdus() - base);
    return o.str();
}

// OfflinePacketFilter over the frames read back as RawPDUs
static std::string do_offline(Case& c, const std::string& line) {
    auto w = words(line);
    if (w.size() < 2) return "bad-op";
    std::string filter = rest_after(line, "f=");
    std::unique_ptr<OfflinePacketFilter> of;
    try {
        std::string v = c.lt.size() > 2 && c.lt.compare(0, 2, "T:") == 0 ? c.lt.substr(2) : "";
        if (v == "EthernetII") of.reset(new OfflinePacketFilter(filter, DataLinkType<EthernetII>()));
        else if (v == "Dot3") of.reset(new OfflinePacketFilter(filter, DataLinkType<Dot3>()));
        else if (v == "SLL") of.reset(new OfflinePacketFilter(filter, DataLinkType<SLL>()));
        else if (v == "Loopback") of.reset(new OfflinePacketFilter(filter, DataLinkType<Loopback>()));
        else if (v == "PPI") of.reset(new OfflinePacketFilter(filter, DataLinkType<PPI>()));
        else if (v == "Dot11") of.reset(new OfflinePacketFilter(filter, DataLinkType<Dot11>()));
        else if (v == "RadioTap") of.reset(new OfflinePacketFilter(filter, DataLinkType<RadioTap>()));
        else if (v == "IP") of.reset(new OfflinePacketFilter(filter, DataLinkType<IP>()));
        else return "offline unsupported-link-type-token";
    } catch (const std::exception& e) {
        return "offline throw:" + xname(e);
    }
    std::ostringstream o;
    o << "offline bits=";
    try {
        SnifferConfiguration cfg;
        cfg.set_pcap_sniffing_method(method_of(c.method));
        FileSniffer sn(c.path, cfg);
        sn.set_extract_raw_pdus(true);
        OfflinePacketFilter copy(*of);            // copies re-compile the expression
        size_t n = 0;
        while (true) {
            Packet p = sn.next_packet();
            if (!p) break;
            bool m;
            if (w[1] == "pdu") m = (n % 2 ? copy : *of).matches_filter(*p.pdu());
            else {
                const RawPDU& r = p.pdu()->rfind_pdu<RawPDU>();
                Exact ex(r.payload().data(), r.payload().size());
                m = of->matches_filter(ex.p, uint32_t(ex.n));
            }
            o << (m ? "1" : "0");
            ++n;
        }
        if (n == 0) o << "-";
    } catch (const std::exception& e) {
        o << " escape:" << xname(e);
    }
    return o.str();
}

int main(int argc, char** argv) {
    if (argc >= 2 && std::string(argv[1]) == "annotate") {
        if (argc >= 3) g_anndir = argv[2];
        mkdir(g_anndir.c_str(), 0777);
        int r = line_loop(annotate);
        for (auto& kv : g_filters) {
            if (kv.second.ok) pcap_freecode(&kv.second.prog);
            if (kv.second.handle) pcap_close(kv.second.handle);
        }
        return r;
    }
    std::string dir = argc >= 2 ? argv[1] : ".";
    mkdir(dir.c_str(), 0777);
    Case c;
    c.path = dir + "/c17-" + std::to_string(getpid()) + ".pcap";
    c.method = "loop";
    int rc = line_loop([&](const std::string& line) -> std::string {
        auto w = words(line);
        if (w.empty()) return "bad-op";
        try {
            if (w[0] == "file" && w.size() >= 3) {
                c.writer.reset();
                unlink(c.path.c_str());
                c.lt = w[1];
                c.method = w[2];
                // every writer goes through the move constructor once (the moved-from one is destroyed right away)
                std::unique_ptr<PacketWriter> first(make_writer(c.path, w[1]));
                c.writer.reset(new PacketWriter(std::move(*first)));
                first.reset();
                return "file ok";
            }
            if (w[0] == "w" && w.size() >= 5) {
                if (!c.writer) return "w nowriter";
                bytes b;
                if (!parse_hex(w[4], b)) return "bad-op";
                timeval tv;
                tv.tv_sec = std::stoll(w[2]);
                tv.tv_usec = std::stoll(w[3]);
                std::unique_ptr<PDU> pdu(pdu_to_write(w[1], b));
                Packet pkt(pdu.release(), Timestamp(tv), Packet::own_pdu());
                c.writer->write(pkt);
                return "w ok";
            }
            if (w[0] == "close") {
                c.writer.reset();
                bytes f;
                if (!read_file(c.path, f)) return "close nofile";
                std::ostringstream o;
                o << "close size=" << f.size() << " fnv=" << fnv(f);
                if (f.size() >= 24) o << " snaplen=" << le32(f, 16) << " linktype=" << le32(f, 20);
                return o.str();
            }
            if (w[0] == "rotate") {
                if (!c.writer) return "rotate nowriter";
                std::string other = c.path + ".b";
                {
                    std::unique_ptr<PacketWriter> next(make_writer(other, c.lt));
                    *c.writer = std::move(*next);
                }
                int leak = __lsan_do_recoverable_leak_check();
                bytes f;
                if (!read_file(c.path, f)) return "rotate nofile";
                std::ostringstream o;
                o << "rotate size=" << f.size() << " fnv=" << fnv(f);
                if (f.size() >= 24) o << " snaplen=" << le32(f, 16) << " linktype=" << le32(f, 20);
                o << " leak=" << (leak ? 1 : 0);
                c.writer.reset();
                unlink(other.c_str());
                return o.str();
            }
            if (w[0] == "chop" && w.size() >= 2) {
                struct stat st;
                if (stat(c.path.c_str(), &st) != 0) return "chop nofile";
                long long k = std::stoll(w[1]);
                long long n = st.st_size > k ? st.st_size - k : 0;
                if (truncate(c.path.c_str(), n) != 0) return "chop failed";
                return "chop size=" + std::to_string(n);
            }
            if (w[0] == "read") return do_read(c, line);
            if (w[0] == "offline") return do_offline(c, line);
        } catch (const std::exception& e) {
            return std::string(w[0]) + " throw:" + xname(e);
        }
        return "bad-op";
    });
    c.writer.reset();
    unlink(c.path.c_str());
    return rc;
}
