// C17 correspondence harness: real PacketWriter / FileSniffer / OfflinePacketFilter on real capture files.
//
// Normal mode (argv[1] = directory for the capture files). One case = one capture file:
//   file <LT> <method>
//        LT     : E:<ETH2|DOT3|SLL|RADIOTAP|DOT11>  (PacketWriter::LinkType enumerator)
//                 T:<EthernetII|Dot3|SLL|Loopback|PPI|Dot11|RadioTap|IP>   (DataLinkType<T>)
//                 N:<int>  (integer cast to PacketWriter::LinkType, only values inside the enum's range are used)
//        method : loop | dispatch | exact   (pcap_loop, pcap_dispatch, custom method handing the handler an exact-size
//                 heap copy of every frame so that ASan sees any read past caplen)
//   w <how> <sec> <usec> <hex> | <annotation>     how = raw (RawPDU around the bytes) | pdu:<Class> (parsed first)
//        written through PacketWriter::write(Packet&) with Timestamp(timeval{sec,usec})
//   close                          destroys the writer, reports size / hash / header fields of the file
//   rotate                         `writer = PacketWriter(other_path, lt)` (move assignment onto the live writer, the
//                                  usual way to start the next file): the first file must be complete and nothing leak
//   chop <k>                       truncates the file by k bytes
//   read k=v ...                   api=next|loop|iter  filt=none|empty|cfg|ctor|post|clr (ctor filter, then set_filter(""))  raw=0|1  src=name|fp  mv=0|1  tog=K (api=next: raw mode flipped after K packets)
//                                  max=<n> stop=<k> thr=<i>:<mal|nf>,...  cb=packet|pdu   f=<filter text to end of line>
//   offline <how> f=<filter>       OfflinePacketFilter over the frames read back as RawPDU (how = pdu | buf)
//   wp / wq <how> <sec> <usec> <hex> | <annotation>   write(PDU&) / write(T&) with T = unique_ptr<PDU>: the record is
//        stamped with the wall clock; the harness reads gettimeofday before and after the call and, at close, checks
//        that the stored stamp lies between the two readings and then replaces it by <sec>.<usec> (so that the file
//        is deterministic and is compared byte for byte like every other one)
//   wr-begin <val|ptr|uptr|sptr|list> / wr-item <how> <sec> <usec> <hex> | <ann> ... / wr-end
//        write(begin, end) over a vector<RawPDU> / vector<PDU*> / vector<unique_ptr<PDU>> / vector<shared_ptr<PDU>> /
//        list<PDU*>; every element is wall-clock stamped (checked and replaced like wp)
//   wmv                            the live writer is move-constructed into a new object mid-file
//   wma                            `other = std::move(writer)` onto a second writer mid-file; the first object (now
//                                  holding the second file) is destroyed; writing goes on through `other`
//   session src=name|fp init=none|<i> s=<tok>,<tok>,... |f| <filter 0> |f| <filter 1> ...
//        a script of calls on ONE live FileSniffer; tokens: np  drain  loop:<max>:<stop>:<thr>:<k|u>:<side>
//        iter:<stop>:<0|1 postfix ++>:<side>  raw:<0|1>  filt:<i|e>  bad:<j>  meth:<l|d|x>  mvc  mva  lt  ss
//        thr = - | i.mal+i.nf+i.oth   side = - | i.ss+i.r0+i.r1+i.f<j>+i.fe (calls made by the functor at its i-th run)
//
// Annotate mode (argv[1] = "annotate"): stateless, two lines per frame
//   ann <dlt> <how> <hex> f=<filter>   -> s=<hex written> adv=<n> m=<0|1> mo=<0|1>
//   annp <classes,comma> <hex of s>    -> p:<Class>=<outcome> ...
// the outcomes come from constructing the classes directly and from libpcap's pcap_offline_filter called directly;
// they are the abstract parse / filter oracles of the Lean model (which models the loop, not the dissectors).
#include "common.h"
#include <tins/tins.h>
#include <tins/offline_packet_filter.h>
#include <tins/packet_writer.h>
#include <tins/sniffer.h>
#include <tins/loopback.h>
#include <pcap.h>
#include <map>
#include <list>
#include <sys/time.h>
#include <memory>
#include <unistd.h>
#include <sys/stat.h>
#include <sanitizer/lsan_interface.h>

using namespace Tins;
using namespace vh;

static std::string xname(const std::exception& e) {
    if (dynamic_cast<const unknown_link_type*>(&e)) return "unknown_link_type";
    if (dynamic_cast<const invalid_pcap_filter*>(&e)) return "invalid_pcap_filter";
    if (dynamic_cast<const pcap_error*>(&e)) return "pcap_error";
    if (dynamic_cast<const pcap_open_failed*>(&e)) return "pcap_open_failed";
    if (dynamic_cast<const protocol_disabled*>(&e)) return "protocol_disabled";
    return exc_name(e);
}

// exact-size heap block whose END coincides with the end of the allocation (also for n == 0)
struct Exact {
    uint8_t* block; uint8_t* p; size_t n;
    Exact(const uint8_t* src, size_t len) : block((uint8_t*)malloc(len + 8)), p(block + 8), n(len) {
        if (len) memcpy(p, src, len);
    }
    ~Exact() { free(block); }
private:
    Exact(const Exact&); Exact& operator=(const Exact&);
};

static std::string chain_of(const PDU& pdu) {
    std::ostringstream o;
    bool first = true;
    for (const PDU* p = &pdu; p; p = p->inner_pdu()) {
        if (!first) o << ".";
        first = false;
        o << int(p->pdu_type());
    }
    return o.str();
}

// canonical description of a parsed packet: layer chain / size / hash of its serialization
static std::string describe(PDU& pdu) {
    std::ostringstream o;
    o << chain_of(pdu) << "/" << pdu.size() << "/";
    try {
        PDU::serialization_type b = pdu.serialize();
        o << fnv(b.data(), b.size());
    } catch (const std::exception& e) {
        o << "throw:" << xname(e);
    }
    return o.str();
}

static PDU* parse_class(const std::string& cls, const uint8_t* p, uint32_t n) {
    if (cls == "EthernetII") return new EthernetII(p, n);
    if (cls == "Dot3") return new Dot3(p, n);
    if (cls == "Loopback") return new Loopback(p, n);
    if (cls == "SLL") return new SLL(p, n);
    if (cls == "PPI") return new PPI(p, n);
    if (cls == "RadioTap") return new RadioTap(p, n);
    if (cls == "Dot11") return Dot11::from_bytes(p, n);
    if (cls == "IP") return new IP(p, n);
    if (cls == "IPv6") return new IPv6(p, n);
    if (cls == "RawPDU") return new RawPDU(p, n);
    throw std::runtime_error("harness: unknown class " + cls);
}

static std::string parse_outcome(const std::string& cls, const uint8_t* p, uint32_t n) {
    Exact ex(p, n);
    try {
        std::unique_ptr<PDU> pdu(parse_class(cls, ex.p, n));
        if (!pdu) return "null";
        return "ok:" + describe(*pdu);
    } catch (const malformed_packet&) {
        return "mal";
    } catch (const std::exception& e) {
        return "exc:" + xname(e);
    }
}

static std::string rest_after(const std::string& line, const std::string& key) {
    size_t p = line.find(" " + key);
    if (p == std::string::npos) return "";
    return line.substr(p + 1 + key.size());
}

// ------------------------------------------------------------------------------------------------ annotate mode

struct Filt { pcap_t* handle; bpf_program prog; bool ok; };
static std::map<std::string, Filt> g_filters;
static std::string g_anndir = ".";

// libpcap compiles some expressions differently for a savefile than for a dead handle (e.g. `ip6` on DLT_NULL:
// the AF_INET6 values of the BSDs for a savefile, this host's value otherwise), so the sniffer's filter is compared
// with a program compiled on a savefile handle of the same link type, OfflinePacketFilter with one compiled on a
// dead handle.
static pcap_t* savefile_handle(int dlt) {
    std::string path = g_anndir + "/c17-ann-" + std::to_string(getpid()) + "-" + std::to_string(dlt) + ".pcap";
    pcap_t* dead = pcap_open_dead(dlt, 262144);
    if (!dead) return 0;
    pcap_dumper_t* d = pcap_dump_open(dead, path.c_str());
    if (d) pcap_dump_close(d);
    pcap_close(dead);
    char err[PCAP_ERRBUF_SIZE];
    pcap_t* h = d ? pcap_open_offline(path.c_str(), err) : 0;
    unlink(path.c_str());
    return h;
}

static Filt& get_filter(int dlt, const std::string& text, bool savefile) {
    std::string key = std::to_string(dlt) + (savefile ? "|s|" : "|d|") + text;
    auto it = g_filters.find(key);
    if (it != g_filters.end()) return it->second;
    Filt f; f.ok = false;
    f.handle = savefile ? savefile_handle(dlt) : pcap_open_dead(dlt, 65535);
    if (f.handle && pcap_compile(f.handle, &f.prog, text.c_str(), savefile ? 0 : 1, savefile ? 0 : 0xffffffff) == 0) f.ok = true;
    return g_filters[key] = f;
}

static int direct_match(int dlt, const std::string& text, bool savefile, const uint8_t* p, uint32_t caplen, uint32_t len) {
    if (text.empty()) return 1;
    Filt& f = get_filter(dlt, text, savefile);
    if (!f.ok) return -1;
    Exact ex(p, caplen);
    pcap_pkthdr h; memset(&h, 0, sizeof h);
    h.caplen = caplen; h.len = len;
    return pcap_offline_filter(&f.prog, &h, ex.p) != 0 ? 1 : 0;
}

// the PDU that `w <how>` writes for these bytes
static PDU* pdu_to_write(const std::string& how, const bytes& b) {
    if (how.compare(0, 4, "pdu:") == 0) {
        try {
            Exact ex(b.data(), b.size());
            PDU* p = parse_class(how.substr(4), ex.p, uint32_t(b.size()));
            if (p) return p;
        } catch (const malformed_packet&) { }
    }
    return new RawPDU(b.data(), uint32_t(b.size()));
}

// `ann <dlt> <how> <hex> f=<filter>`  ->  s=<hex written> adv=<n> m=<0|1> mo=<0|1>       (the writer's side)
// `annp <classes,comma> <hex>`         ->  p:<Class>=<outcome> ...                       (the dissectors' side)
static std::string annotate(const std::string& line) {
    auto w = words(line);
    if (w.size() >= 3 && w[0] == "annp") {
        bytes b;
        if (!parse_hex(w[2], b)) return "bad-op";
        std::ostringstream o;
        std::istringstream cs(w[1]);
        std::string cls;
        bool first = true;
        while (std::getline(cs, cls, ',')) {
            if (!first) o << " ";
            first = false;
            o << "p:" << cls << "=" << parse_outcome(cls, b.data(), uint32_t(b.size()));
        }
        return o.str();
    }
    if (w.size() >= 4 && w[0] == "annf") {
        // `annf <dlt> <adv> <hex of the stored bytes> f=<filter>` -> x=<0|1|-1>: what a savefile-compiled program says
        bytes b;
        if (!parse_hex(w[3], b)) return "bad-op";
        return "x=" + std::to_string(direct_match(std::stoi(w[1]), rest_after(line, "f="), true, b.data(), uint32_t(b.size()),
                                                   uint32_t(std::stoul(w[2]))));
    }
    if (w.size() < 4 || w[0] != "ann") return "bad-op";
    int dlt = std::stoi(w[1]);
    bytes b;
    if (!parse_hex(w[3], b)) return "bad-op";
    std::string filter = rest_after(line, "f=");
    std::ostringstream o;
    std::unique_ptr<PDU> pdu(pdu_to_write(w[2], b));
    uint32_t adv = pdu->advertised_size();
    PDU::serialization_type s;
    try {
        s = pdu->serialize();
    } catch (const std::exception& e) {
        return "s=throw:" + xname(e);
    }
    o << "s=" << to_hex(s.data(), s.size()) << " adv=" << adv;
    o << " m=" << direct_match(dlt, filter, true, s.data(), uint32_t(s.size()), adv);
    o << " mo=" << direct_match(dlt, filter, false, s.data(), uint32_t(s.size()), uint32_t(s.size()));
    return o.str();
}

// ------------------------------------------------------------------------------------------------ normal mode

static int exact_method(pcap_t* h, int, pcap_handler cb, u_char* user) {
    struct pcap_pkthdr* hdr = 0;
    const u_char* data = 0;
    int r = pcap_next_ex(h, &hdr, &data);
    if (r == 1) {
        Exact ex(data, hdr->caplen);
        cb(user, hdr, ex.p);
        return 1;
    }
    if (r == PCAP_ERROR_BREAK) return 0;     // end of the savefile: no packet, handler not called
    return r;
}

struct Wall { size_t idx; timeval t0, t1; long long sec, usec; };
struct Pending { std::string how; bytes b; long long sec, usec; };

struct Case {
    std::string path;
    std::string lt;          // writer link type token
    std::string method;
    std::unique_ptr<PacketWriter> writer;
    size_t nrec;             // records handed to the writer so far
    std::vector<Wall> wall;  // the wall-clock stamped ones
    bool in_range;
    std::string range_kind;
    std::vector<Pending> pending;
    Case() : nrec(0), in_range(false) { }
};

static PacketWriter* make_writer(const std::string& path, const std::string& lt) {
    std::string k = lt.substr(0, 2), v = lt.substr(2);
    if (k == "E:") {
        if (v == "ETH2") return new PacketWriter(path, PacketWriter::ETH2);
        if (v == "DOT3") return new PacketWriter(path, PacketWriter::DOT3);
        if (v == "SLL") return new PacketWriter(path, PacketWriter::SLL);
        if (v == "RADIOTAP") return new PacketWriter(path, PacketWriter::RADIOTAP);
        if (v == "DOT11") return new PacketWriter(path, PacketWriter::DOT11);
    }
    if (k == "T:") {
        if (v == "EthernetII") return new PacketWriter(path, DataLinkType<EthernetII>());
        if (v == "Dot3") return new PacketWriter(path, DataLinkType<Dot3>());
        if (v == "SLL") return new PacketWriter(path, DataLinkType<SLL>());
        if (v == "Loopback") return new PacketWriter(path, DataLinkType<Loopback>());
        if (v == "PPI") return new PacketWriter(path, DataLinkType<PPI>());
        if (v == "Dot11") return new PacketWriter(path, DataLinkType<Dot11>());
        if (v == "RadioTap") return new PacketWriter(path, DataLinkType<RadioTap>());
        if (v == "IP") return new PacketWriter(path, DataLinkType<IP>());
    }
    if (k == "N:") return new PacketWriter(path, static_cast<PacketWriter::LinkType>(std::stoi(v)));
    throw std::runtime_error("harness: bad link type token " + lt);
}

static bool read_file(const std::string& path, bytes& out) {
    FILE* f = fopen(path.c_str(), "rb");
    if (!f) return false;
    out.clear();
    uint8_t buf[65536];
    size_t n;
    while ((n = fread(buf, 1, sizeof buf, f)) > 0) out.insert(out.end(), buf, buf + n);
    fclose(f);
    return true;
}

static uint32_t le32(const bytes& b, size_t off) {
    return uint32_t(b[off]) | uint32_t(b[off + 1]) << 8 | uint32_t(b[off + 2]) << 16 | uint32_t(b[off + 3]) << 24;
}

static std::string show_pkt(const Timestamp* ts, PDU& pdu) {
    std::ostringstream o;
    if (ts) o << (long long)ts->seconds() << "." << (long long)ts->microseconds();
    else o << "-";
    o << ":" << describe(pdu);
    return o.str();
}

struct Script {
    std::vector<std::string>* out;
    long stop;                                  // return false at the stop-th invocation (1-based); 0 = never
    std::map<long, std::string>* thr;           // invocation index (0-based) -> mal | nf
    long* count;
    bool operator()(Packet& p) {
        long i = (*count)++;
        out->push_back(show_pkt(&p.timestamp(), *p.pdu()));
        auto it = thr->find(i);
        if (it != thr->end()) {
            if (it->second == "mal") throw malformed_packet();
            if (it->second == "nf") throw pdu_not_found();
        }
        return !(stop && i + 1 == stop);
    }
};
struct ScriptPdu {
    Script s;
    bool operator()(PDU& pdu) {
        long i = (*s.count)++;
        s.out->push_back(show_pkt(0, pdu));
        auto it = s.thr->find(i);
        if (it != s.thr->end()) {
            if (it->second == "mal") throw malformed_packet();
            if (it->second == "nf") throw pdu_not_found();
        }
        return !(s.stop && i + 1 == s.stop);
    }
};

static std::string join(const std::vector<std::string>& v) {
    std::string s;
    for (size_t i = 0; i < v.size(); ++i) { if (i) s += ","; s += v[i]; }
    return s.empty() ? "-" : s;
}

static std::map<std::string, std::string> kvs(const std::vector<std::string>& w) {
    std::map<std::string, std::string> m;
    for (size_t i = 1; i < w.size(); ++i) {
        size_t p = w[i].find('=');
        if (p != std::string::npos) m[w[i].substr(0, p)] = w[i].substr(p + 1);
    }
    return m;
}

static BaseSniffer::PcapSniffingMethod method_of(const std::string& m) {
    if (m == "dispatch") return pcap_dispatch;
    if (m == "exact") return exact_method;
    return pcap_loop;
}

// drain with next_packet until a null packet; returns the end marker
static std::string drain(FileSniffer& sn, std::vector<std::string>& out, long tog = 0, bool raw_after = false) {
    try {
        long n = 0;
        while (true) {
            Packet p = sn.next_packet();
            if (!p) break;
            out.push_back(show_pkt(&p.timestamp(), *p.pdu()));
            // tog=K: after the K-th delivered packet the user switches the raw mode of the live sniffer
            if (tog && ++n == tog) sn.set_extract_raw_pdus(raw_after);
        }
        Packet again = sn.next_packet();          // the end is sticky
        return again ? "eof-then-packet" : "eof";
    } catch (const std::exception& e) {
        return "escape:" + xname(e);
    }
}

static bool tv_le(const timeval& a, const timeval& b) {
    return a.tv_sec < b.tv_sec || (a.tv_sec == b.tv_sec && a.tv_usec <= b.tv_usec);
}

static void put32(bytes& f, size_t off, uint32_t v) {
    f[off] = uint8_t(v); f[off + 1] = uint8_t(v >> 8); f[off + 2] = uint8_t(v >> 16); f[off + 3] = uint8_t(v >> 24);
}

// after the writer was destroyed: every wall-clock stamped record must carry a stamp between the two gettimeofday
// readings taken around its write call; the stamp is then replaced by the scripted one
static std::string settle_wall_clock(Case& c) {
    if (c.wall.empty()) return "ok";
    bytes f;
    if (!read_file(c.path, f)) return "nofile";
    std::vector<size_t> offs;
    size_t off = 24;
    while (off + 16 <= f.size()) {
        offs.push_back(off);
        off += 16 + size_t(le32(f, off + 8));
    }
    std::string res = "ok";
    for (size_t i = 0; i < c.wall.size(); ++i) {
        const Wall& w = c.wall[i];
        if (w.idx >= offs.size()) { res = "missing@" + std::to_string(w.idx); continue; }
        size_t o = offs[w.idx];
        timeval st; st.tv_sec = le32(f, o); st.tv_usec = le32(f, o + 4);
        if (!(st.tv_usec < 1000000 && tv_le(w.t0, st) && tv_le(st, w.t1))) res = "bad@" + std::to_string(w.idx);
        put32(f, o, uint32_t(w.sec));
        put32(f, o + 4, uint32_t(w.usec));
    }
    FILE* fp = fopen(c.path.c_str(), "wb");
    if (!fp) return "nowrite";
    if (!f.empty()) fwrite(f.data(), 1, f.size(), fp);
    fclose(fp);
    c.wall.clear();
    return res;
}

static const char* BAD_FILTERS[] = { "tcp port", "ip and and udp", "host 300.1.1.1", "((", "len >", "no such primitive" };

static std::vector<std::string> split(const std::string& s, char sep) {
    std::vector<std::string> v;
    std::istringstream is(s);
    std::string t;
    while (std::getline(is, t, sep)) v.push_back(t);
    return v;
}

// the scripted functor of a session: records the packet, makes its configuration calls on the live sniffer, ends as told
struct SessBody {
    FileSniffer* sn;
    std::vector<std::string>* out;
    long stop;
    std::map<long, std::string> thr;
    std::map<long, std::vector<std::string> > side;
    const std::vector<std::string>* filters;
    bool* cur_raw;
    bool* threw_other;
    long count;
    bool run(const Timestamp* ts, PDU& pdu) {
        long i = count++;
        out->push_back(show_pkt(ts, pdu));
        auto sd = side.find(i);
        if (sd != side.end()) {
            for (const std::string& a : sd->second) {
                if (a == "ss") sn->stop_sniff();
                else if (a == "r0") { sn->set_extract_raw_pdus(false); *cur_raw = false; }
                else if (a == "r1") { sn->set_extract_raw_pdus(true); *cur_raw = true; }
                else if (a == "fe") sn->set_filter("");
                else if (a.size() > 1 && a[0] == 'f') {
                    size_t k = size_t(std::stol(a.substr(1)));
                    if (k < filters->size()) sn->set_filter((*filters)[k]);
                }
            }
        }
        auto it = thr.find(i);
        if (it != thr.end()) {
            if (it->second == "mal") throw malformed_packet();
            if (it->second == "nf") throw pdu_not_found();
            if (it->second == "oth") { *threw_other = true; throw option_not_found(); }
        }
        return !(stop && i + 1 == stop);
    }
};
struct SessPkt { SessBody* b; bool operator()(Packet& p) { return b->run(&p.timestamp(), *p.pdu()); } };
struct SessPdu { SessBody* b; bool operator()(PDU& pdu) { return b->run(0, pdu); } };

static void parse_body(SessBody& b, const std::string& thr, const std::string& side) {
    if (thr != "-" && !thr.empty())
        for (const std::string& item : split(thr, '+')) {
            size_t p = item.find('.');
            if (p != std::string::npos) b.thr[std::stol(item.substr(0, p))] = item.substr(p + 1);
        }
    if (side != "-" && !side.empty())
        for (const std::string& item : split(side, '+')) {
            size_t p = item.find('.');
            if (p != std::string::npos) b.side[std::stol(item.substr(0, p))].push_back(item.substr(p + 1));
        }
}

static std::string do_session(Case& c, const std::string& line) {
    size_t fpos = line.find(" |f| ");
    std::string head = fpos == std::string::npos ? line : line.substr(0, fpos);
    std::vector<std::string> filters;
    while (fpos != std::string::npos) {
        size_t nx = line.find(" |f| ", fpos + 5);
        filters.push_back(line.substr(fpos + 5, nx == std::string::npos ? std::string::npos : nx - fpos - 5));
        fpos = nx;
    }
    auto kv = kvs(words(head));
    std::vector<std::string> script = split(kv["s"], ',');
    long base = VerifHooks::live_pdus();
    std::ostringstream o;
    o << "session";
    {
        std::unique_ptr<FileSniffer> sn;
        try {
            FILE* fp = 0;
            if (kv["src"] == "fp") {
                fp = fopen(c.path.c_str(), "rb");
                if (!fp) return "session open=nofile";
            }
            std::string init = kv.count("init") ? kv["init"] : "none";
            if (init == "none") {
                if (fp) sn.reset(new FileSniffer(fp)); else sn.reset(new FileSniffer(c.path));
            } else {
                size_t k = size_t(std::stol(init));
                std::string f = k < filters.size() ? filters[k] : "";
                if (fp) sn.reset(new FileSniffer(fp, f)); else sn.reset(new FileSniffer(c.path, f));
            }
            sn->set_pcap_sniffing_method(method_of(c.method));
        } catch (const std::exception& e) {
            return "session open=throw:" + xname(e);
        }
        o << " open=ok r=";
        bool cur_raw = false, aborted = false, first = true;
        for (const std::string& tokfull : script) {
            std::vector<std::string> t = split(tokfull, ':');
            if (t.empty()) continue;
            std::string r;
            if (aborted) r = "aborted";
            else if (t[0] == "np") {
                try {
                    Packet p = sn->next_packet();
                    r = p ? "np=" + show_pkt(&p.timestamp(), *p.pdu()) : "np=null";
                } catch (const std::exception& e) { r = "np=escape:" + xname(e); aborted = true; }
            } else if (t[0] == "drain") {
                std::vector<std::string> out;
                std::string end = drain(*sn, out);
                r = "drain=" + join(out) + "/" + end;
                if (end.compare(0, 6, "escape") == 0) aborted = true;
            } else if (t[0] == "loop" && t.size() >= 6) {
                std::vector<std::string> out;
                bool threw_other = false;
                SessBody b; b.sn = sn.get(); b.out = &out; b.stop = std::stol(t[2]); b.filters = &filters;
                b.cur_raw = &cur_raw; b.threw_other = &threw_other; b.count = 0;
                parse_body(b, t[3], t[5]);
                std::string end = "returned";
                try {
                    if (t[4] == "u") { SessPdu f = { &b }; sn->sniff_loop(f, uint32_t(std::stoul(t[1]))); }
                    else { SessPkt f = { &b }; sn->sniff_loop(f, uint32_t(std::stoul(t[1]))); }
                } catch (const std::exception& e) {
                    end = "escape:" + xname(e);
                    if (!threw_other) aborted = true;
                }
                r = "loop=" + join(out) + "/" + end;
            } else if (t[0] == "iter" && t.size() >= 4) {
                std::vector<std::string> out;
                bool threw_other = false;
                SessBody b; b.sn = sn.get(); b.out = &out; b.stop = std::stol(t[1]); b.filters = &filters;
                b.cur_raw = &cur_raw; b.threw_other = &threw_other; b.count = 0;
                parse_body(b, "-", t[3]);
                std::string end = "exhausted";
                try {
                    if (t[2] == "1") {
                        for (BaseSniffer::iterator it = sn->begin(); it != sn->end(); it++) {
                            Packet& p = *it;
                            if (!b.run(&p.timestamp(), *p.pdu())) { end = "break"; break; }
                        }
                    } else {
                        for (Packet& p : *sn) {
                            if (!b.run(&p.timestamp(), *p.pdu())) { end = "break"; break; }
                        }
                    }
                } catch (const std::exception& e) { end = "escape:" + xname(e); aborted = true; }
                r = "iter=" + join(out) + "/" + end;
            } else if (t[0] == "raw" && t.size() >= 2) {
                cur_raw = t[1] == "1";
                sn->set_extract_raw_pdus(cur_raw);
                r = "raw=ok";
            } else if (t[0] == "filt" && t.size() >= 2) {
                std::string f;
                if (t[1] != "e") { size_t k = size_t(std::stol(t[1])); if (k < filters.size()) f = filters[k]; }
                r = std::string("filt=") + (sn->set_filter(f) ? "1" : "0");
            } else if (t[0] == "bad" && t.size() >= 2) {
                size_t k = size_t(std::stol(t[1])) % (sizeof BAD_FILTERS / sizeof BAD_FILTERS[0]);
                r = std::string("bad=") + (sn->set_filter(BAD_FILTERS[k]) ? "1" : "0");
            } else if (t[0] == "meth" && t.size() >= 2) {
                sn->set_pcap_sniffing_method(method_of(t[1] == "d" ? "dispatch" : t[1] == "x" ? "exact" : "loop"));
                r = "meth=ok";
            } else if (t[0] == "mvc") {
                std::unique_ptr<FileSniffer> n(new FileSniffer(std::move(*sn)));
                sn.swap(n);
                n.reset();                                  // the moved-from object is destroyed first
                r = "mvc=ok";
            } else if (t[0] == "mva") {
                // a second sniffer on the same file, fresh (position 0, no filter, pcap_loop) and in the OTHER raw mode
                std::unique_ptr<FileSniffer> other(new FileSniffer(c.path));
                other->set_extract_raw_pdus(!cur_raw);
                *other = std::move(*sn);
                sn.swap(other);
                other.reset();                              // destroys the object now holding the fresh handle
                r = "mva=ok";
            } else if (t[0] == "lt") {
                r = "lt=" + std::to_string(sn->link_type());
            } else if (t[0] == "ss") {
                sn->stop_sniff();
                r = "ss=ok";
            } else r = "bad-token";
            if (!first) o << ";";
            first = false;
            o << r;
        }
        if (first) o << "-";
    }
    o << " live=" << (VerifHooks::live_pdus() - base);
    return o.str();
}

// write(PDU&) / write(T&) / write(begin, end): wall-clock stamped
static void note_wall(Case& c, const timeval& t0, const timeval& t1, size_t first, const std::vector<Pending>& items) {
    for (size_t i = 0; i < items.size(); ++i) {
        Wall w; w.idx = first + i; w.t0 = t0; w.t1 = t1; w.sec = items[i].sec; w.usec = items[i].usec;
        c.wall.push_back(w);
    }
}

static std::string do_range(Case& c) {
    std::vector<Pending> items;
    items.swap(c.pending);
    std::string kind = c.range_kind;
    c.in_range = false;
    if (!c.writer) return "wr-end nowriter";
    size_t first = c.nrec;
    timeval t0, t1;
    std::vector<std::unique_ptr<PDU> > own;
    for (const Pending& it : items) own.push_back(std::unique_ptr<PDU>(pdu_to_write(it.how, it.b)));
    if (kind == "val") {
        std::vector<RawPDU> v;
        for (const Pending& it : items) v.push_back(RawPDU(it.b.data(), uint32_t(it.b.size())));
        gettimeofday(&t0, 0); c.writer->write(v.begin(), v.end()); gettimeofday(&t1, 0);
    } else if (kind == "ptr") {
        std::vector<PDU*> v;
        for (auto& p : own) v.push_back(p.get());
        gettimeofday(&t0, 0); c.writer->write(v.begin(), v.end()); gettimeofday(&t1, 0);
    } else if (kind == "list") {
        std::list<PDU*> v;
        for (auto& p : own) v.push_back(p.get());
        gettimeofday(&t0, 0); c.writer->write(v.begin(), v.end()); gettimeofday(&t1, 0);
    } else if (kind == "sptr") {
        std::vector<std::shared_ptr<PDU> > v;
        for (auto& p : own) v.push_back(std::shared_ptr<PDU>(p.release()));
        gettimeofday(&t0, 0); c.writer->write(v.begin(), v.end()); gettimeofday(&t1, 0);
    } else {
        gettimeofday(&t0, 0); c.writer->write(own.begin(), own.end()); gettimeofday(&t1, 0);
    }
    note_wall(c, t0, t1, first, items);
    c.nrec += items.size();
    return "wr-end n=" + std::to_string(items.size());
}

static std::string do_read(Case& c, const std::string& line) {
    auto w = words(line);
    auto kv = kvs(w);
    std::string api = kv.count("api") ? kv["api"] : "next";
    std::string filt = kv.count("filt") ? kv["filt"] : "none";
    std::string filter = rest_after(line, "f=");
    bool raw = kv["raw"] == "1";
    long maxp = kv.count("max") ? std::stol(kv["max"]) : 0;
    long stop = kv.count("stop") ? std::stol(kv["stop"]) : 0;
    std::map<long, std::string> thr;
    if (kv.count("thr")) {
        std::istringstream ts(kv["thr"]);
        std::string item;
        while (std::getline(ts, item, ',')) {
            size_t p = item.find(':');
            if (p != std::string::npos) thr[std::stol(item.substr(0, p))] = item.substr(p + 1);
        }
    }
    long base = VerifHooks::live_pdus();
    std::ostringstream o;
    o << "read";
    {
        std::unique_ptr<FileSniffer> sn;
        try {
            FILE* fp = 0;
            if (kv["src"] == "fp") {
                fp = fopen(c.path.c_str(), "rb");
                if (!fp) return "read open=nofile";
            }
            if (filt == "cfg" || filt == "none") {
                SnifferConfiguration cfg;
                if (filt == "cfg") cfg.set_filter(filter);
                cfg.set_pcap_sniffing_method(method_of(c.method));
                if (fp) sn.reset(new FileSniffer(fp, cfg)); else sn.reset(new FileSniffer(c.path, cfg));
            } else if (filt == "ctor" || filt == "clr") {
                if (fp) sn.reset(new FileSniffer(fp, filter)); else sn.reset(new FileSniffer(c.path, filter));
            } else {
                if (fp) sn.reset(new FileSniffer(fp)); else sn.reset(new FileSniffer(c.path));
            }
            if (filt == "post") {
                if (!sn->set_filter(filter)) return "read open=ok set_filter=0";
            }
            if (filt == "clr") {
                // the filter given to the constructor is removed again: the empty expression accepts every frame
                if (!sn->set_filter("")) return "read open=ok set_filter=0";
            }
            sn->set_pcap_sniffing_method(method_of(c.method));
        } catch (const std::exception& e) {
            return "read open=throw:" + xname(e);
        }
        if (kv["mv"] == "1") {
            // read through a move-constructed sniffer; the moved-from one is destroyed first
            std::unique_ptr<FileSniffer> moved(new FileSniffer(std::move(*sn)));
            sn.swap(moved);
            moved.reset();
        }
        o << " open=ok dlt=" << sn->link_type();
        if (raw) sn->set_extract_raw_pdus(true);
        std::vector<std::string> first, rest;
        std::string end1 = "-", end2 = "-";
        if (api == "next") {
            end1 = drain(*sn, first, kv.count("tog") ? std::stol(kv["tog"]) : 0, !raw);
        } else if (api == "loop") {
            long count = 0;
            Script s = { &first, stop, &thr, &count };
            try {
                if (kv["cb"] == "pdu") { ScriptPdu sp = { s }; sn->sniff_loop(sp, uint32_t(maxp)); }
                else sn->sniff_loop(s, uint32_t(maxp));
                end1 = "returned";
            } catch (const std::exception& e) {
                end1 = "escape:" + xname(e);
            }
            if (end1 == "returned") end2 = drain(*sn, rest);
        } else if (api == "iter") {
            long count = 0;
            try {
                end1 = "exhausted";
                for (Packet& p : *sn) {
                    first.push_back(show_pkt(&p.timestamp(), *p.pdu()));
                    if (stop && ++count == stop) { end1 = "break"; break; }
                }
            } catch (const std::exception& e) {
                end1 = "escape:" + xname(e);
            }
            if (end1.compare(0, 6, "escape") != 0) end2 = drain(*sn, rest);
        } else {
            return "bad-op";
        }
        o << " pkts=" << join(first) << " end=" << end1 << " rest=" << join(rest) << " end2=" << end2;
    }
    o << " live=" << (VerifHooks::live_pdus() - base);
    return o.str();
}

// OfflinePacketFilter over the frames read back as RawPDUs
static std::string do_offline(Case& c, const std::string& line) {
    auto w = words(line);
    if (w.size() < 2) return "bad-op";
    std::string filter = rest_after(line, "f=");
    std::unique_ptr<OfflinePacketFilter> of;
    try {
        std::string v = c.lt.size() > 2 && c.lt.compare(0, 2, "T:") == 0 ? c.lt.substr(2) : "";
        if (v == "EthernetII") of.reset(new OfflinePacketFilter(filter, DataLinkType<EthernetII>()));
        else if (v == "Dot3") of.reset(new OfflinePacketFilter(filter, DataLinkType<Dot3>()));
        else if (v == "SLL") of.reset(new OfflinePacketFilter(filter, DataLinkType<SLL>()));
        else if (v == "Loopback") of.reset(new OfflinePacketFilter(filter, DataLinkType<Loopback>()));
        else if (v == "PPI") of.reset(new OfflinePacketFilter(filter, DataLinkType<PPI>()));
        else if (v == "Dot11") of.reset(new OfflinePacketFilter(filter, DataLinkType<Dot11>()));
        else if (v == "RadioTap") of.reset(new OfflinePacketFilter(filter, DataLinkType<RadioTap>()));
        else if (v == "IP") of.reset(new OfflinePacketFilter(filter, DataLinkType<IP>()));
        else return "offline unsupported-link-type-token";
    } catch (const std::exception& e) {
        return "offline throw:" + xname(e);
    }
    std::ostringstream o;
    o << "offline bits=";
    try {
        SnifferConfiguration cfg;
        cfg.set_pcap_sniffing_method(method_of(c.method));
        FileSniffer sn(c.path, cfg);
        sn.set_extract_raw_pdus(true);
        OfflinePacketFilter copy(*of);            // copies re-compile the expression
        size_t n = 0;
        while (true) {
            Packet p = sn.next_packet();
            if (!p) break;
            bool m;
            if (w[1] == "pdu") m = (n % 2 ? copy : *of).matches_filter(*p.pdu());
            else {
                const RawPDU& r = p.pdu()->rfind_pdu<RawPDU>();
                Exact ex(r.payload().data(), r.payload().size());
                m = of->matches_filter(ex.p, uint32_t(ex.n));
            }
            o << (m ? "1" : "0");
            ++n;
        }
        if (n == 0) o << "-";
    } catch (const std::exception& e) {
        o << " escape:" << xname(e);
    }
    return o.str();
}

int main(int argc, char** argv) {
    if (argc >= 2 && std::string(argv[1]) == "annotate") {
        if (argc >= 3) g_anndir = argv[2];
        mkdir(g_anndir.c_str(), 0777);
        int r = line_loop(annotate);
        for (auto& kv : g_filters) {
            if (kv.second.ok) pcap_freecode(&kv.second.prog);
            if (kv.second.handle) pcap_close(kv.second.handle);
        }
        return r;
    }
    std::string dir = argc >= 2 ? argv[1] : ".";
    mkdir(dir.c_str(), 0777);
    Case c;
    c.path = dir + "/c17-" + std::to_string(getpid()) + ".pcap";
    c.method = "loop";
    int rc = line_loop([&](const std::string& line) -> std::string {
        auto w = words(line);
        if (w.empty()) return "bad-op";
        try {
            if (w[0] == "file" && w.size() >= 3) {
                c.writer.reset();
                unlink(c.path.c_str());
                c.nrec = 0; c.wall.clear(); c.in_range = false; c.pending.clear();
                c.lt = w[1];
                c.method = w[2];
                // every writer goes through the move constructor once (the moved-from one is destroyed right away)
                std::unique_ptr<PacketWriter> first(make_writer(c.path, w[1]));
                c.writer.reset(new PacketWriter(std::move(*first)));
                first.reset();
                return "file ok";
            }
            if (w[0] == "w" && w.size() >= 5) {
                if (!c.writer) return "w nowriter";
                bytes b;
                if (!parse_hex(w[4], b)) return "bad-op";
                timeval tv;
                tv.tv_sec = std::stoll(w[2]);
                tv.tv_usec = std::stoll(w[3]);
                std::unique_ptr<PDU> pdu(pdu_to_write(w[1], b));
                Packet pkt(pdu.release(), Timestamp(tv), Packet::own_pdu());
                c.writer->write(pkt);
                c.nrec++;
                return "w ok";
            }
            if ((w[0] == "wp" || w[0] == "wq") && w.size() >= 5) {
                if (!c.writer) return w[0] + " nowriter";
                Pending it; it.how = w[1];
                if (!parse_hex(w[4], it.b)) return "bad-op";
                it.sec = std::stoll(w[2]); it.usec = std::stoll(w[3]);
                std::unique_ptr<PDU> pdu(pdu_to_write(w[1], it.b));
                timeval t0, t1;
                gettimeofday(&t0, 0);
                if (w[0] == "wp") c.writer->write(*pdu); else c.writer->write(pdu);
                gettimeofday(&t1, 0);
                note_wall(c, t0, t1, c.nrec, std::vector<Pending>(1, it));
                c.nrec++;
                return w[0] + " ok";
            }
            if (w[0] == "wr-begin" && w.size() >= 2) {
                c.in_range = true; c.range_kind = w[1]; c.pending.clear();
                return "wr-begin ok";
            }
            if (w[0] == "wr-item" && w.size() >= 5) {
                if (!c.in_range) return "wr-item norange";
                Pending it; it.how = c.range_kind == "val" ? "raw" : w[1];
                if (!parse_hex(w[4], it.b)) return "bad-op";
                it.sec = std::stoll(w[2]); it.usec = std::stoll(w[3]);
                c.pending.push_back(it);
                return "wr-item ok";
            }
            if (w[0] == "wr-end") {
                if (!c.in_range) return "wr-end norange";
                return do_range(c);
            }
            if (w[0] == "wmv") {
                if (!c.writer) return "wmv nowriter";
                std::unique_ptr<PacketWriter> n(new PacketWriter(std::move(*c.writer)));
                c.writer.swap(n);
                n.reset();
                return "wmv ok";
            }
            if (w[0] == "wma") {
                if (!c.writer) return "wma nowriter";
                std::string other = c.path + ".c";
                std::unique_ptr<PacketWriter> o2(make_writer(other, c.lt));
                *o2 = std::move(*c.writer);
                c.writer.swap(o2);
                o2.reset();                                  // closes the second file, which holds no record
                int leak = __lsan_do_recoverable_leak_check();
                bytes f;
                std::string r = "wma other=";
                r += read_file(other, f) ? std::to_string(f.size()) : std::string("nofile");
                unlink(other.c_str());
                return r + " leak=" + (leak ? "1" : "0");
            }
            if (w[0] == "close") {
                c.writer.reset();
                std::string wall = settle_wall_clock(c);
                bytes f;
                if (!read_file(c.path, f)) return "close nofile";
                std::ostringstream o;
                o << "close size=" << f.size() << " fnv=" << fnv(f);
                if (f.size() >= 24) o << " snaplen=" << le32(f, 16) << " linktype=" << le32(f, 20);
                o << " wall=" << wall;
                return o.str();
            }
            if (w[0] == "rotate") {
                if (!c.writer) return "rotate nowriter";
                std::string other = c.path + ".b";
                {
                    std::unique_ptr<PacketWriter> next(make_writer(other, c.lt));
                    *c.writer = std::move(*next);
                }
                int leak = __lsan_do_recoverable_leak_check();
                std::string wall = settle_wall_clock(c);
                bytes f;
                if (!read_file(c.path, f)) return "rotate nofile";
                std::ostringstream o;
                o << "rotate size=" << f.size() << " fnv=" << fnv(f);
                if (f.size() >= 24) o << " snaplen=" << le32(f, 16) << " linktype=" << le32(f, 20);
                o << " leak=" << (leak ? 1 : 0) << " wall=" << wall;
                c.writer.reset();
                unlink(other.c_str());
                return o.str();
            }
            if (w[0] == "chop" && w.size() >= 2) {
                struct stat st;
                if (stat(c.path.c_str(), &st) != 0) return "chop nofile";
                long long k = std::stoll(w[1]);
                long long n = st.st_size > k ? st.st_size - k : 0;
                if (truncate(c.path.c_str(), n) != 0) return "chop failed";
                return "chop size=" + std::to_string(n);
            }
            if (w[0] == "read") return do_read(c, line);
            if (w[0] == "session") return do_session(c, line);
            if (w[0] == "offline") return do_offline(c, line);
        } catch (const std::exception& e) {
            return std::string(w[0]) + " throw:" + xname(e);
        }
        return "bad-op";
    });
    c.writer.reset();
    unlink(c.path.c_str());
    return rc;
}
