// C05 correspondence harness: checksum helpers, CRC, and API-built / parsed packets serialised by the real classes.
//
//   sum <hex>                          -> sum=<sum_range> do=<do_checksum>
//   crc <hex>                          -> crc=<crc32>
//   ph4 <src8> <dst8> <len> <flag>     -> ph=<pseudoheader_checksum>
//   ph6 <src32> <dst32> <len> <flag>   -> ph=<pseudoheader_checksum>
//   pkt <layer> | <layer> | ...        -> ok bytes=<hex> L=<kind:hdr:trl;...>      (outermost layer first)
//   pcap <layer> | <layer> | ...       -> ok pf=<name:result:expected,...>         (libpcap filters on the bytes)
//   reser <dlt> <hex>                  -> ok bytes=<hex> L=<...>                   (parse, then serialise again)
//
// Layer grammar (numbers decimal, addresses / payloads hex, "-" = empty):
//   eth D S TYPE | dot1q PRIO CFI ID TYPE PAD | ip TOS ID FLAGS FRAGOFF TTL PROTO SRC DST OPTS
//   ip6 TC FLOW HOP NH SRC DST EXTS | tcp SP DP SEQ ACK FLAGS WIN URG OPTS | udp SP DP
//   icmp TYPE CODE ID SEQ A B C LENFLAG EXTS | icmp6 TYPE CODE ID SEQ LENFLAG EXTS | raw HEX
//   pppoe CODE SESSION PLEN TAGS | mpls LABEL EXP BOS TTL | dot3 D S | snap CONTROL OUI TYPE | llc DSAP SSAP
//   loop FAMILY | sll PTYPE LLTYPE LLLEN ADDR PROTO | ah SPI SEQ ICV NH | esp SPI SEQ | radiotap FCS
//   eapol KEYLEN KEY                                                   (RC4EAPOL)
//   OPTS / EXTS / TAGS: "-" or comma separated "<type>.<hexdata>" ; ICMP EXTS: "<class>.<type>.<hexdata>"
#include "common.h"
#include <tins/tins.h>
#include <tins/utils/checksum_utils.h>
#include <tins/loopback.h>
#include <tins/sll.h>
#include <tins/mpls.h>
#include <tins/ipsec.h>
#include <tins/pppoe.h>
#include <pcap.h>
#include <memory>
#include <map>
using namespace Tins;
using namespace vh;

static std::vector<std::string> split(const std::string& s, char sep) {
    std::vector<std::string> out;
    std::string cur;
    for (char c : s) {
        if (c == sep) { out.push_back(cur); cur.clear(); }
        else cur.push_back(c);
    }
    out.push_back(cur);
    return out;
}

static unsigned long long num(const std::string& s) { return std::stoull(s); }

static bytes hexb(const std::string& s) {
    bytes b;
    if (!parse_hex(s, b)) throw std::runtime_error("bad hex");
    return b;
}

// an item `~type.hex` is transient: it is added in its place like the others and removed again (remove_option(type)) once the
// whole list has been added — the final option list is the one without it, reached through an add / remove history
struct TypedData { unsigned type; bytes data; bool transient; };

static std::vector<TypedData> typed_list(const std::string& s) {
    std::vector<TypedData> out;
    if (s == "-") return out;
    for (auto& item : split(s, ',')) {
        auto p = split(item, '.');
        if (p.size() != 2) throw std::runtime_error("bad typed item");
        TypedData t;
        t.transient = !p[0].empty() && p[0][0] == '~';
        t.type = unsigned(num(t.transient ? p[0].substr(1) : p[0]));
        t.data = p[1].empty() ? bytes() : hexb(p[1]);
        out.push_back(t);
    }
    return out;
}

static IPv4Address v4(const std::string& h) {
    bytes b = hexb(h);
    if (b.size() != 4) throw std::runtime_error("bad v4");
    uint32_t v;
    memcpy(&v, b.data(), 4);
    return IPv4Address(v);
}
static IPv6Address v6(const std::string& h) {
    bytes b = hexb(h);
    if (b.size() != 16) throw std::runtime_error("bad v6");
    return IPv6Address(b.data());
}
static HWAddress<6> mac(const std::string& h) {
    bytes b = hexb(h);
    if (b.size() != 6) throw std::runtime_error("bad mac");
    return HWAddress<6>(b.data());
}

struct LayerSpec { std::vector<std::string> w; };

static PDU* build_layer(const LayerSpec& L) {
    const std::vector<std::string>& w = L.w;
    const std::string& k = w.at(0);
    if (k == "eth") {
        EthernetII* p = new EthernetII(mac(w.at(1)), mac(w.at(2)));
        p->payload_type(uint16_t(num(w.at(3))));
        return p;
    }
    if (k == "dot1q") {
        Dot1Q* p = new Dot1Q();
        p->priority(uint8_t(num(w.at(1))));
        p->cfi(uint8_t(num(w.at(2))));
        p->id(uint16_t(num(w.at(3))));
        p->payload_type(uint16_t(num(w.at(4))));
        p->append_padding(num(w.at(5)) != 0);
        return p;
    }
    if (k == "ip") {
        IP* p = new IP(v4(w.at(8)), v4(w.at(7)));
        p->tos(uint8_t(num(w.at(1))));
        p->id(uint16_t(num(w.at(2))));
        p->flags(IP::Flags(num(w.at(3))));
        p->fragment_offset(uint16_t(num(w.at(4))));
        p->ttl(uint8_t(num(w.at(5))));
        p->protocol(uint8_t(num(w.at(6))));
        for (auto& o : typed_list(w.at(9))) {
            IP::option_identifier id(uint8_t(o.type));
            p->add_option(IP::option(id, o.data.begin(), o.data.end()));
        }
        for (auto& o : typed_list(w.at(9))) {
            if (o.transient) p->remove_option(IP::option_identifier(uint8_t(o.type)));
        }
        return p;
    }
    if (k == "ip6") {
        IPv6* p = new IPv6(v6(w.at(6)), v6(w.at(5)));
        p->traffic_class(uint8_t(num(w.at(1))));
        p->flow_label(uint32_t(num(w.at(2))));
        p->hop_limit(uint8_t(num(w.at(3))));
        p->next_header(uint8_t(num(w.at(4))));
        for (auto& o : typed_list(w.at(7))) {
            p->add_header(IPv6::ext_header(uint8_t(o.type), o.data.begin(), o.data.end()));
        }
        return p;
    }
    if (k == "tcp") {
        TCP* p = new TCP(uint16_t(num(w.at(2))), uint16_t(num(w.at(1))));
        p->seq(uint32_t(num(w.at(3))));
        p->ack_seq(uint32_t(num(w.at(4))));
        p->flags(uint16_t(num(w.at(5))));
        p->window(uint16_t(num(w.at(6))));
        p->urg_ptr(uint16_t(num(w.at(7))));
        for (auto& o : typed_list(w.at(8))) {
            p->add_option(TCP::option(TCP::OptionTypes(o.type), o.data.begin(), o.data.end()));
        }
        for (auto& o : typed_list(w.at(8))) {
            if (o.transient) p->remove_option(TCP::OptionTypes(o.type));
        }
        return p;
    }
    if (k == "udp") {
        return new UDP(uint16_t(num(w.at(2))), uint16_t(num(w.at(1))));
    }
    if (k == "icmp") {
        ICMP* p = new ICMP(ICMP::Flags(num(w.at(1))));
        p->code(uint8_t(num(w.at(2))));
        p->id(uint16_t(num(w.at(3))));
        p->sequence(uint16_t(num(w.at(4))));
        const unsigned t = unsigned(num(w.at(1)));
        if (t == ICMP::TIMESTAMP_REQUEST || t == ICMP::TIMESTAMP_REPLY) {
            p->original_timestamp(uint32_t(num(w.at(5))));
            p->receive_timestamp(uint32_t(num(w.at(6))));
            p->transmit_timestamp(uint32_t(num(w.at(7))));
        }
        else if (t == ICMP::ADDRESS_MASK_REQUEST || t == ICMP::ADDRESS_MASK_REPLY) {
            uint32_t m = Endian::host_to_be(uint32_t(num(w.at(5))));
            p->address_mask(IPv4Address(m));
        }
        if (num(w.at(8))) p->use_length_field(true);
        if (w.at(9) != "-") {
            for (auto& item : split(w.at(9), ',')) {
                auto q = split(item, '.');
                if (q.size() != 3) throw std::runtime_error("bad icmp ext");
                ICMPExtension e(uint8_t(num(q[0])), uint8_t(num(q[1])));
                e.payload(q[2].empty() ? bytes() : hexb(q[2]));
                p->extensions().add_extension(e);
            }
        }
        return p;
    }
    if (k == "icmp6") {
        ICMPv6* p = new ICMPv6(ICMPv6::Types(num(w.at(1))));
        p->code(uint8_t(num(w.at(2))));
        p->identifier(uint16_t(num(w.at(3))));
        p->sequence(uint16_t(num(w.at(4))));
        if (num(w.at(5))) p->use_length_field(true);
        if (w.at(6) != "-") {
            for (auto& item : split(w.at(6), ',')) {
                auto q = split(item, '.');
                if (q.size() != 3) throw std::runtime_error("bad icmp6 ext");
                ICMPExtension e(uint8_t(num(q[0])), uint8_t(num(q[1])));
                e.payload(q[2].empty() ? bytes() : hexb(q[2]));
                p->extensions().add_extension(e);
            }
        }
        return p;
    }
    if (k == "raw") {
        bytes b = hexb(w.at(1));
        return new RawPDU(b.begin(), b.end());
    }
    if (k == "pppoe") {
        PPPoE* p = new PPPoE();
        p->code(uint8_t(num(w.at(1))));
        p->session_id(uint16_t(num(w.at(2))));
        p->payload_length(uint16_t(num(w.at(3))));
        for (auto& o : typed_list(w.at(4))) {
            // TagTypes values are stored byte-swapped (network order in memory)
            p->add_tag(PPPoE::tag(PPPoE::TagTypes(Endian::host_to_be(uint16_t(o.type))), o.data.size(),
                                  o.data.empty() ? (const uint8_t*)"" : o.data.data()));
        }
        return p;
    }
    if (k == "mpls") {
        MPLS* p = new MPLS();
        p->label(uint32_t(num(w.at(1))));
        p->experimental(uint8_t(num(w.at(2))));
        p->bottom_of_stack(uint8_t(num(w.at(3))));
        p->ttl(uint8_t(num(w.at(4))));
        return p;
    }
    if (k == "dot3") {
        return new Dot3(mac(w.at(1)), mac(w.at(2)));
    }
    if (k == "snap") {
        SNAP* p = new SNAP();
        p->control(uint8_t(num(w.at(1))));
        p->org_code(uint32_t(num(w.at(2))));
        p->eth_type(uint16_t(num(w.at(3))));
        return p;
    }
    if (k == "llc") {
        return new LLC(uint8_t(num(w.at(1))), uint8_t(num(w.at(2))));
    }
    if (k == "loop") {
        Loopback* p = new Loopback();
        p->family(uint32_t(num(w.at(1))));
        return p;
    }
    if (k == "sll") {
        SLL* p = new SLL();
        p->packet_type(uint16_t(num(w.at(1))));
        p->lladdr_type(uint16_t(num(w.at(2))));
        p->lladdr_len(uint16_t(num(w.at(3))));
        bytes a = hexb(w.at(4));
        if (a.size() != 8) throw std::runtime_error("bad sll addr");
        p->address(HWAddress<8>(a.data()));
        p->protocol(uint16_t(num(w.at(5))));
        return p;
    }
    if (k == "ah") {
        IPSecAH* p = new IPSecAH();
        p->spi(uint32_t(num(w.at(1))));
        p->seq_number(uint32_t(num(w.at(2))));
        p->icv(hexb(w.at(3)));
        p->next_header(uint8_t(num(w.at(4))));
        return p;
    }
    if (k == "esp") {
        IPSecESP* p = new IPSecESP();
        p->spi(uint32_t(num(w.at(1))));
        p->seq_number(uint32_t(num(w.at(2))));
        return p;
    }
    if (k == "radiotap") {
        RadioTap* p = new RadioTap();
        if (!num(w.at(1))) p->flags(RadioTap::FrameFlags(0));
        return p;
    }
    if (k == "eapol") {
        RC4EAPOL* p = new RC4EAPOL();
        p->key_length(uint16_t(num(w.at(1))));
        p->key(hexb(w.at(2)));
        return p;
    }
    throw std::runtime_error("unknown layer " + k);
}

static const char* kind_name(PDU::PDUType t) {
    switch (t) {
        case PDU::ETHERNET_II: return "eth";
        case PDU::DOT1Q: return "dot1q";
        case PDU::IP: return "ip";
        case PDU::IPv6: return "ip6";
        case PDU::TCP: return "tcp";
        case PDU::UDP: return "udp";
        case PDU::ICMP: return "icmp";
        case PDU::ICMPv6: return "icmp6";
        case PDU::RAW: return "raw";
        case PDU::PPPOE: return "pppoe";
        case PDU::MPLS: return "mpls";
        case PDU::DOT3: return "dot3";
        case PDU::SNAP: return "snap";
        case PDU::LLC: return "llc";
        case PDU::LOOPBACK: return "loop";
        case PDU::SLL: return "sll";
        case PDU::IPSEC_AH: return "ah";
        case PDU::IPSEC_ESP: return "esp";
        case PDU::RADIOTAP: return "radiotap";
        case PDU::RC4EAPOL: return "eapol";
        case PDU::RSNEAPOL: return "rsneapol";
        case PDU::ARP: return "arp";
        case PDU::STP: return "stp";
        case PDU::DNS: return "dns";
        case PDU::DHCP: return "dhcp";
        case PDU::BOOTP: return "bootp";
        default: return "other";
    }
}

static std::string layers_of(const PDU& top) {
    std::ostringstream o;
    bool first = true;
    for (const PDU* p = &top; p; p = p->inner_pdu()) {
        if (!first) o << ";";
        first = false;
        o << kind_name(p->pdu_type()) << ":" << p->header_size() << ":" << p->trailer_size();
    }
    return o.str();
}

static std::vector<LayerSpec> parse_layers(const std::string& rest) {
    std::vector<LayerSpec> out;
    std::string cur;
    for (auto& tok : words(rest)) {
        if (tok == "|") {
            LayerSpec L; L.w = words(cur); out.push_back(L); cur.clear();
        }
        else { cur += tok; cur += " "; }
    }
    LayerSpec L; L.w = words(cur); out.push_back(L);
    return out;
}

static std::unique_ptr<PDU> build(const std::vector<LayerSpec>& ls) {
    std::unique_ptr<PDU> top;
    PDU* last = 0;
    for (auto& L : ls) {
        if (L.w.empty()) throw std::runtime_error("empty layer");
        PDU* p = build_layer(L);
        if (!top) top.reset(p);
        else last->inner_pdu(p);
        last = p;
    }
    return top;
}

// ---------------------------------------------------------------- libpcap oracle
struct Filt { std::string name, expr; int expected; };

static std::string dotted(const std::string& h) {
    bytes b = hexb(h);
    std::ostringstream o;
    o << int(b[0]) << "." << int(b[1]) << "." << int(b[2]) << "." << int(b[3]);
    return o.str();
}
static std::string colon6(const std::string& h) { return v6(h).to_string(); }
static std::string macs(const std::string& h) { return mac(h).to_string(); }
static std::string flip_last(std::string h) {
    char& c = h[h.size() - 1];
    c = (c == '0') ? '1' : '0';
    return h;
}

// filters for plain stacks: eth / dot1q* / (ip | ip6) / (tcp | udp | icmp | icmp6) / ...
static std::vector<Filt> filters_for(const std::vector<LayerSpec>& ls, const PDU& top) {
    std::vector<Filt> f;
    size_t i = 0;
    if (ls.empty()) return f;
    const std::string& link = ls[0].w[0];
    if (link != "eth" && link != "loop" && link != "sll") return f;
    if (link == "eth") {
        f.push_back({"esrc", "ether src " + macs(ls[0].w[2]), 1});
        f.push_back({"edst", "ether dst " + macs(ls[0].w[1]), 1});
        f.push_back({"esrc!", "ether src " + macs(flip_last(ls[0].w[2])), 0});
    }
    i = 1;
    std::string pre;
    if (link == "eth" && ls.size() > 1 && ls[1].w[0] == "pppoe") {
        // RFC 2516 stage by ether type; libpcap's `pppoes <id>` also compares the session id
        const bool session = num(ls[1].w[1]) == 0;
        f.push_back({"pppoes", "pppoes", session ? 1 : 0});
        f.push_back({"pppoed", "pppoed", session ? 0 : 1});
        if (session) {
            f.push_back({"pppoesid", "pppoes " + ls[1].w[2], 1});
            f.push_back({"pppoesid!", "pppoes " + std::to_string(num(ls[1].w[2]) ^ 1), 0});
        }
        return f;
    }
    if (link == "eth" && ls.size() > 1 && ls[1].w[0] == "mpls") {
        // `mpls <label>` looks at the top label; a following `mpls <label>` at the next one
        std::string e;
        size_t j = 1;
        while (j < ls.size() && ls[j].w[0] == "mpls") {
            e += (e.empty() ? "" : " and ") + std::string("mpls ") + ls[j].w[1];
            ++j;
        }
        f.push_back({"mpls", e, 1});
        f.push_back({"mpls!", "mpls " + std::to_string(num(ls[1].w[1]) ^ 1), 0});
        if (j < ls.size() && (ls[j].w[0] == "ip" || ls[j].w[0] == "ip6")) {
            // after the bottom of the stack libpcap guesses IPv4 / IPv6 from the version nibble
            f.push_back({"mplsip", e + " and " + ls[j].w[0], 1});
        }
        return f;
    }
    while (i < ls.size() && ls[i].w[0] == "dot1q") {
        std::string v = "vlan " + ls[i].w[3];
        std::string nv = "vlan " + std::to_string(num(ls[i].w[3]) ^ 1);
        f.push_back({"vlan" + std::to_string(i), pre + v, 1});
        f.push_back({"vlan" + std::to_string(i) + "!", pre + nv, 0});
        pre += v + " and ";
        ++i;
    }
    if (i >= ls.size()) return f;
    const std::vector<std::string>& n = ls[i].w;
    const PDU* ipl = &top;
    for (size_t j = 0; j < i && ipl; ++j) ipl = ipl->inner_pdu();
    bool v4l = n[0] == "ip", v6l = n[0] == "ip6";
    if (!v4l && !v6l) return f;
    bool plain_l4 = false;
    if (v4l) {
        f.push_back({"ip", pre + "ip", 1});
        f.push_back({"ip6!", pre + "ip6", 0});
        f.push_back({"ipsrc", pre + "ip src " + dotted(n[7]), 1});
        f.push_back({"ipdst", pre + "ip dst " + dotted(n[8]), 1});
        f.push_back({"ipsrc!", pre + "ip src " + dotted(flip_last(n[7])), 0});
        f.push_back({"iplen", pre + "ip[2:2] = " + std::to_string(ipl->size() & 0xffff), 1});
        f.push_back({"ipihl", pre + "ip[0] & 0xf = " + std::to_string(ipl->header_size() / 4), 1});
        plain_l4 = num(n[4]) == 0;
    }
    else {
        f.push_back({"ip6", pre + "ip6", 1});
        f.push_back({"ip!", pre + "ip", 0});
        f.push_back({"ip6src", pre + "ip6 src " + colon6(n[5]), 1});
        f.push_back({"ip6dst", pre + "ip6 dst " + colon6(n[6]), 1});
        f.push_back({"ip6dst!", pre + "ip6 dst " + colon6(flip_last(n[6])), 0});
        f.push_back({"ip6len", pre + "ip6[4:2] = " + std::to_string((ipl->size() - 40) & 0xffff), 1});
        plain_l4 = n[7] == "-";
    }
    if (i + 1 >= ls.size() || !plain_l4) return f;
    const std::vector<std::string>& t = ls[i + 1].w;
    const std::string fam = v4l ? "ip" : "ip6";
    if (t[0] == "tcp" || t[0] == "udp") {
        f.push_back({"proto", pre + fam + " proto " + (t[0] == "tcp" ? "6" : "17"), 1});
        f.push_back({"sport", pre + t[0] + " src port " + t[1], 1});
        f.push_back({"dport", pre + t[0] + " dst port " + t[2], 1});
        f.push_back({"dport!", pre + t[0] + " dst port " + std::to_string(num(t[2]) ^ 1), 0});
        f.push_back({"other!", pre + (t[0] == "tcp" ? "udp" : "tcp"), 0});
    }
    else if (t[0] == "icmp" && v4l) {
        f.push_back({"proto", pre + "ip proto 1", 1});
        f.push_back({"itype", pre + "icmp[icmptype] = " + t[1], 1});
        f.push_back({"icode", pre + "icmp[icmpcode] = " + t[2], 1});
        f.push_back({"itype!", pre + "icmp[icmptype] = " + std::to_string(num(t[1]) ^ 1), 0});
    }
    else if (t[0] == "icmp6" && v6l) {
        f.push_back({"proto", pre + "ip6 proto 58", 1});
        f.push_back({"i6type", pre + "icmp6 and ip6[40] = " + t[1], 1});
        f.push_back({"i6code", pre + "icmp6 and ip6[41] = " + t[2], 1});
    }
    return f;
}

static std::map<std::string, bpf_program> cache;

static int run_filter(pcap_t* dead, const std::string& key, const std::string& expr, const bytes& data) {
    auto it = cache.find(key);
    if (it == cache.end()) {
        if (cache.size() > 4000) {
            for (auto& kv : cache) pcap_freecode(&kv.second);
            cache.clear();
        }
        bpf_program prog;
        if (pcap_compile(dead, &prog, expr.c_str(), 1, PCAP_NETMASK_UNKNOWN) != 0) return -1;
        it = cache.insert(std::make_pair(key, prog)).first;
    }
    pcap_pkthdr h;
    memset(&h, 0, sizeof(h));
    h.caplen = h.len = bpf_u_int32(data.size());
    return pcap_offline_filter(&it->second, &h, data.data()) != 0 ? 1 : 0;
}

int main() {
    pcap_t* dead = pcap_open_dead(DLT_EN10MB, 65535);
    pcap_t* dead_null = pcap_open_dead(DLT_NULL, 65535);
    pcap_t* dead_sll = pcap_open_dead(DLT_LINUX_SLL, 65535);
    int rc = line_loop([&](const std::string& line) -> std::string {
        auto w = words(line);
        if (w.empty()) return "bad-op";
        std::ostringstream o;
        if (w[0] == "sum" && w.size() >= 2) {
            bytes b = hexb(w[1]);
            const uint8_t* p = b.empty() ? (const uint8_t*)"" : b.data();
            o << "sum=" << Utils::sum_range(p, p + b.size()) << " do=" << Utils::do_checksum(p, p + b.size());
            return o.str();
        }
        if (w[0] == "crc" && w.size() >= 2) {
            bytes b = hexb(w[1]);
            const uint8_t* p = b.empty() ? (const uint8_t*)"" : b.data();
            o << "crc=" << Utils::crc32(p, uint32_t(b.size()));
            return o.str();
        }
        if (w[0] == "ph4" && w.size() >= 5) {
            o << "ph=" << Utils::pseudoheader_checksum(v4(w[1]), v4(w[2]), uint16_t(num(w[3])), uint16_t(num(w[4])));
            return o.str();
        }
        if (w[0] == "ph6" && w.size() >= 5) {
            o << "ph=" << Utils::pseudoheader_checksum(v6(w[1]), v6(w[2]), uint16_t(num(w[3])), uint16_t(num(w[4])));
            return o.str();
        }
        if (w[0] == "pkt" || w[0] == "pcap") {
            std::vector<LayerSpec> ls = parse_layers(line.substr(line.find(w[0]) + w[0].size()));
            std::unique_ptr<PDU> top = build(ls);
            bytes out = top->serialize();
            if (w[0] == "pkt") {
                o << "ok bytes=" << to_hex(out) << " L=" << layers_of(*top);
                // the same object serialized once more (serialize() stores derived fields back into the object):
                // reported only when it differs, so that the model's line (a pure function of the packet) still matches
                bytes again = top->serialize();
                if (again != out) o << " again=" << to_hex(again);
                return o.str();
            }
            o << "ok pf=";
            bool first = true;
            for (auto& f : filters_for(ls, *top)) {
                if (!first) o << ",";
                first = false;
                const std::string& lk = ls[0].w[0];
                pcap_t* h = lk == "loop" ? dead_null : lk == "sll" ? dead_sll : dead;
                o << f.name << ":" << run_filter(h, lk + "|" + f.expr, f.expr, out) << ":" << f.expected;
            }
            return o.str();
        }
        if (w[0] == "reser" && w.size() >= 3) {
            bytes b = hexb(w[2]);
            const uint8_t* p = b.empty() ? (const uint8_t*)"" : b.data();
            std::unique_ptr<PDU> top;
            const std::string& d = w[1];
            if (d == "eth") top.reset(new EthernetII(p, uint32_t(b.size())));
            else if (d == "ip") top.reset(new IP(p, uint32_t(b.size())));
            else if (d == "ip6") top.reset(new IPv6(p, uint32_t(b.size())));
            else if (d == "loop") top.reset(new Loopback(p, uint32_t(b.size())));
            else if (d == "sll") top.reset(new SLL(p, uint32_t(b.size())));
            else if (d == "dot3") top.reset(new Dot3(p, uint32_t(b.size())));
            else if (d == "radiotap") top.reset(new RadioTap(p, uint32_t(b.size())));
            else return "bad-op";
            bytes out = top->serialize();
            o << "ok bytes=" << to_hex(out) << " L=" << layers_of(*top);
            bytes again = top->serialize();
            if (again != out) o << " again=" << to_hex(again);
            return o.str();
        }
        return "bad-op";
    });
    for (auto& kv : cache) pcap_freecode(&kv.second);
    cache.clear();
    pcap_close(dead);
    pcap_close(dead_null);
    pcap_close(dead_sll);
    return rc;
}
