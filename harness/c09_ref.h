// C09: reference (independent) WEP / TKIP / CCMP encapsulation written from IEEE 802.11, over OpenSSL's AES only.
// Nothing in this file uses libtins: RC4, CRC-32, the TKIP S-box (derived from the AES S-box computed in GF(2^8)),
// TKIP phase 1/2 key mixing, Michael, CCM (CTR + CBC-MAC) are implemented here.
#pragma once
#include <cstdint>
#include <cstring>
#include <string>
#include <vector>
#include <openssl/aes.h>

namespace ref {
typedef std::vector<uint8_t> bytes;

// ---- CRC-32 (IEEE 802.3), bit by bit
inline uint32_t crc32_ieee(const uint8_t* p, size_t n) {
    uint32_t c = 0xffffffffu;
    for (size_t i = 0; i < n; ++i) {
        c ^= p[i];
        for (int k = 0; k < 8; ++k) c = (c & 1) ? (c >> 1) ^ 0xEDB88320u : (c >> 1);
    }
    return ~c;
}

// ---- RC4 (textbook)
struct Rc4 {
    uint8_t S[256]; unsigned i, j;
    Rc4(const uint8_t* key, size_t len) : i(0), j(0) {
        for (unsigned k = 0; k < 256; ++k) S[k] = uint8_t(k);
        unsigned jj = 0;
        for (unsigned k = 0; k < 256; ++k) {
            jj = (jj + S[k] + key[k % len]) & 255;
            uint8_t t = S[k]; S[k] = S[jj]; S[jj] = t;
        }
    }
    uint8_t next() {
        i = (i + 1) & 255; j = (j + S[i]) & 255;
        uint8_t t = S[i]; S[i] = S[j]; S[j] = t;
        return S[(S[i] + S[j]) & 255];
    }
};

// ---- AES S-box from first principles (multiplicative inverse in GF(2^8) + affine map)
inline uint8_t gmul(uint8_t a, uint8_t b) {
    uint8_t r = 0;
    for (int k = 0; k < 8; ++k) { if (b & 1) r ^= a; bool hi = a & 0x80; a <<= 1; if (hi) a ^= 0x1b; b >>= 1; }
    return r;
}
inline const uint8_t* aes_sbox() {
    static uint8_t S[256]; static bool done = false;
    if (!done) {
        for (int x = 0; x < 256; ++x) {
            uint8_t inv = 0;
            if (x) for (int y = 1; y < 256; ++y) if (gmul(uint8_t(x), uint8_t(y)) == 1) { inv = uint8_t(y); break; }
            uint8_t s = inv, r = inv;
            for (int k = 0; k < 4; ++k) { s = uint8_t((s << 1) | (s >> 7)); r ^= s; }
            S[x] = r ^ 0x63;
        }
        done = true;
    }
    return S;
}
// TKIP S-box: S[x] = Sbox_lo[Lo8 x] ^ swap16(Sbox_lo[Hi8 x]), Sbox_lo[i] = (2*s)<<8 | 3*s with s = AES S-box(i)
inline uint16_t tkip_sbox_lo(uint8_t i) { uint8_t s = aes_sbox()[i]; uint8_t d = gmul(s, 2); return uint16_t((d << 8) | (d ^ s)); }
inline uint16_t tkip_S(uint16_t x) { uint16_t u = tkip_sbox_lo(uint8_t(x >> 8)); return tkip_sbox_lo(uint8_t(x & 255)) ^ uint16_t((u << 8) | (u >> 8)); }
inline uint16_t mk16(uint8_t hi, uint8_t lo) { return uint16_t((hi << 8) | lo); }
inline uint16_t rotr1(uint16_t v) { return uint16_t((v >> 1) | (v << 15)); }

// IEEE 802.11-2012 11.4.2.5: phase 1 (TTAK from TA, TK, TSC2..5) and phase 2 (WEP seed from TTAK, TK, TSC0..1)
inline void tkip_mix(const uint8_t tk[16], const uint8_t ta[6], uint64_t tsc, uint8_t seed[16]) {
    uint8_t t[6]; for (int k = 0; k < 6; ++k) t[k] = uint8_t(tsc >> (8 * k));
    uint16_t ttak[5] = { mk16(t[3], t[2]), mk16(t[5], t[4]), mk16(ta[1], ta[0]), mk16(ta[3], ta[2]), mk16(ta[5], ta[4]) };
    for (int i = 0; i < 8; ++i) {
        int j = 2 * (i & 1);
        ttak[0] += tkip_S(ttak[4] ^ mk16(tk[1 + j], tk[0 + j]));
        ttak[1] += tkip_S(ttak[0] ^ mk16(tk[5 + j], tk[4 + j]));
        ttak[2] += tkip_S(ttak[1] ^ mk16(tk[9 + j], tk[8 + j]));
        ttak[3] += tkip_S(ttak[2] ^ mk16(tk[13 + j], tk[12 + j]));
        ttak[4] += uint16_t(tkip_S(ttak[3] ^ mk16(tk[1 + j], tk[0 + j])) + i);
    }
    uint16_t ppk[6] = { ttak[0], ttak[1], ttak[2], ttak[3], ttak[4], uint16_t(ttak[4] + mk16(t[1], t[0])) };
    ppk[0] += tkip_S(ppk[5] ^ mk16(tk[1], tk[0]));
    ppk[1] += tkip_S(ppk[0] ^ mk16(tk[3], tk[2]));
    ppk[2] += tkip_S(ppk[1] ^ mk16(tk[5], tk[4]));
    ppk[3] += tkip_S(ppk[2] ^ mk16(tk[7], tk[6]));
    ppk[4] += tkip_S(ppk[3] ^ mk16(tk[9], tk[8]));
    ppk[5] += tkip_S(ppk[4] ^ mk16(tk[11], tk[10]));
    ppk[0] += rotr1(ppk[5] ^ mk16(tk[13], tk[12]));
    ppk[1] += rotr1(ppk[0] ^ mk16(tk[15], tk[14]));
    ppk[2] += rotr1(ppk[1]);
    ppk[3] += rotr1(ppk[2]);
    ppk[4] += rotr1(ppk[3]);
    ppk[5] += rotr1(ppk[4]);
    seed[0] = t[1];
    seed[1] = (t[1] | 0x20) & 0x7f;
    seed[2] = t[0];
    seed[3] = uint8_t((ppk[5] ^ mk16(tk[1], tk[0])) >> 1);
    for (int k = 0; k < 6; ++k) { seed[4 + 2 * k] = uint8_t(ppk[k] & 255); seed[5 + 2 * k] = uint8_t(ppk[k] >> 8); }
}

// ---- Michael (IEEE 802.11-2012 11.4.2.3)
inline uint32_t rol32(uint32_t v, int n) { return (v << n) | (v >> (32 - n)); }
inline uint32_t ror32(uint32_t v, int n) { return (v >> n) | (v << (32 - n)); }
inline uint32_t xswap(uint32_t v) { return ((v & 0xff00ff00u) >> 8) | ((v & 0x00ff00ffu) << 8); }
inline void michael(const uint8_t key[8], const uint8_t da[6], const uint8_t sa[6], uint8_t prio,
                    const uint8_t* data, size_t n, uint8_t mic[8]) {
    bytes m(da, da + 6); m.insert(m.end(), sa, sa + 6); m.push_back(prio); m.push_back(0); m.push_back(0); m.push_back(0);
    m.insert(m.end(), data, data + n);
    m.push_back(0x5a); for (int k = 0; k < 4; ++k) m.push_back(0);
    while (m.size() % 4) m.push_back(0);
    auto le = [](const uint8_t* p) { return uint32_t(p[0]) | (uint32_t(p[1]) << 8) | (uint32_t(p[2]) << 16) | (uint32_t(p[3]) << 24); };
    uint32_t l = le(key), r = le(key + 4);
    for (size_t k = 0; k < m.size(); k += 4) {
        l ^= le(&m[k]);
        r ^= rol32(l, 17); l += r;
        r ^= xswap(l); l += r;
        r ^= rol32(l, 3); l += r;
        r ^= ror32(l, 2); l += r;
    }
    for (int k = 0; k < 4; ++k) { mic[k] = uint8_t(l >> (8 * k)); mic[4 + k] = uint8_t(r >> (8 * k)); }
}

// ---- encapsulations: return the protected frame body (what follows the MAC header)
inline bytes wep_encap(const bytes& key, const uint8_t iv[3], unsigned keyid, const bytes& pt) {
    bytes seed(iv, iv + 3); seed.insert(seed.end(), key.begin(), key.end());
    bytes data(pt); uint32_t c = crc32_ieee(pt.data(), pt.size());
    for (int k = 0; k < 4; ++k) data.push_back(uint8_t(c >> (8 * k)));
    Rc4 r(seed.data(), seed.size());
    bytes out(iv, iv + 3); out.push_back(uint8_t(keyid << 6));
    for (size_t k = 0; k < data.size(); ++k) out.push_back(data[k] ^ r.next());
    return out;
}

inline bytes tkip_encap(const uint8_t tk[16], const uint8_t mickey[8], const uint8_t ta[6], const uint8_t da[6],
                        const uint8_t sa[6], uint8_t prio, uint64_t tsc, unsigned keyid, const bytes& pt) {
    uint8_t seed[16]; tkip_mix(tk, ta, tsc, seed);
    uint8_t mic[8]; michael(mickey, da, sa, prio, pt.data(), pt.size(), mic);
    bytes data(pt); data.insert(data.end(), mic, mic + 8);
    uint32_t c = crc32_ieee(data.data(), data.size());
    for (int k = 0; k < 4; ++k) data.push_back(uint8_t(c >> (8 * k)));
    bytes out;
    out.push_back(uint8_t(tsc >> 8)); out.push_back((uint8_t(tsc >> 8) | 0x20) & 0x7f); out.push_back(uint8_t(tsc));
    out.push_back(uint8_t((keyid << 6) | 0x20));
    for (int k = 2; k < 6; ++k) out.push_back(uint8_t(tsc >> (8 * k)));
    Rc4 r(seed, 16);
    for (size_t k = 0; k < data.size(); ++k) out.push_back(data[k] ^ r.next());
    return out;
}

// CCMP (IEEE 802.11-2012 11.4.3): hdr = the MAC header bytes of the MPDU (24, 26, 30 or 32 bytes; 4 more when a QoS data
// frame has the Order bit set and so carries an HT Control field, which is not part of the AAD)
inline bytes ccmp_aad(const bytes& h) {
    bool a4 = (h[1] & 3) == 3, qos = (h[0] & 0x80) != 0;
    bytes a;
    a.push_back(h[0] & 0x8f);
    // Retry, PwrMgt, MoreData masked, Protected set; Order masked in data frames with a QoS control field
    a.push_back((h[1] & (qos ? 0x47 : 0xc7)) | 0x40);
    a.insert(a.end(), h.begin() + 4, h.begin() + 22);
    a.push_back(h[22] & 0x0f); a.push_back(0);
    size_t off = 24;
    if (a4) { a.insert(a.end(), h.begin() + 24, h.begin() + 30); off = 30; }
    if (qos) { a.push_back(h[off] & 0x0f); a.push_back(0); }
    return a;
}
inline void xor16(uint8_t* d, const uint8_t* s, size_t n) { for (size_t k = 0; k < n; ++k) d[k] ^= s[k]; }
inline bytes ccmp_encap(const uint8_t tk[16], const bytes& h, uint64_t pn, unsigned keyid, const bytes& pt) {
    AES_KEY ks; AES_set_encrypt_key(tk, 128, &ks);
    bool a4 = (h[1] & 3) == 3, qos = (h[0] & 0x80) != 0;
    uint8_t nonce[13];
    nonce[0] = qos ? (h[a4 ? 30 : 24] & 0x0f) : 0;
    memcpy(nonce + 1, &h[10], 6);
    for (int k = 0; k < 6; ++k) nonce[7 + k] = uint8_t(pn >> (8 * (5 - k)));
    // CBC-MAC over B0 | len(AAD) AAD pad | payload pad
    bytes aad = ccmp_aad(h);
    bytes blocks; blocks.push_back(0x59); blocks.insert(blocks.end(), nonce, nonce + 13);
    blocks.push_back(uint8_t(pt.size() >> 8)); blocks.push_back(uint8_t(pt.size()));
    blocks.push_back(uint8_t(aad.size() >> 8)); blocks.push_back(uint8_t(aad.size()));
    blocks.insert(blocks.end(), aad.begin(), aad.end());
    while (blocks.size() % 16) blocks.push_back(0);
    blocks.insert(blocks.end(), pt.begin(), pt.end());
    while (blocks.size() % 16) blocks.push_back(0);
    uint8_t x[16] = {0};
    for (size_t k = 0; k < blocks.size(); k += 16) { xor16(x, &blocks[k], 16); AES_encrypt(x, x, &ks); }
    // CTR
    uint8_t a[16], s[16];
    a[0] = 0x01; memcpy(a + 1, nonce, 13);
    bytes out;
    out.push_back(uint8_t(pn)); out.push_back(uint8_t(pn >> 8)); out.push_back(0); out.push_back(uint8_t((keyid << 6) | 0x20));
    for (int k = 2; k < 6; ++k) out.push_back(uint8_t(pn >> (8 * k)));
    for (size_t k = 0; k < pt.size(); k += 16) {
        size_t ctr = k / 16 + 1; a[14] = uint8_t(ctr >> 8); a[15] = uint8_t(ctr);
        AES_encrypt(a, s, &ks);
        for (size_t q = 0; q < 16 && k + q < pt.size(); ++q) out.push_back(pt[k + q] ^ s[q]);
    }
    a[14] = a[15] = 0; AES_encrypt(a, s, &ks);
    for (int k = 0; k < 8; ++k) out.push_back(x[k] ^ s[k]);
    return out;
}

} // namespace ref
