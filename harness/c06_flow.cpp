// C06 correspondence harness (Flow): drives the real TCPIP::Flow::process_packet with real IP/TCP/RawPDU packets.
//   finit <seq> [hex-of-stream]     new Flow(dst 10.0.0.2:80, seq) with data + out-of-order callbacks installed
//   fseg <seq> <hex> [@off]         IP / TCP(seq) / RawPDU(hex) through process_packet ("-" = RawPDU with empty payload)
//   fsegp <seq> <hex> [@off]        the same packet serialized and re-parsed from bytes first (as a sniffer delivers it)
//   fbare <seq>                     IP / TCP(seq) without payload layer
//   fadv <seq>                      Flow::advance_sequence
//   fignore                         Flow::ignore_data_packets()
//   fpkt <flags> <seq> <hex|~> [@off]  IP / TCP(seq, flags) [/ RawPDU(hex)]: segments that move Flow::update_state (a SYN that
//                                   opens the flow and sets the expected sequence number, SYN carrying data, FIN / RST with data,
//                                   data in every state); "~" = no payload layer; fpktp = serialized and re-parsed first
// result: "<r> ooo=<n> st=<Flow::state()> seq=.. total=.. plen=.. ph=.. buf=.." where r = r=1 iff the data callback fired during the op,
// ooo = number of out-of-order callback invocations during the op (with a check that it was handed seq and payload).
#include "common.h"
#include "c06_show.h"
#include <tins/tcp_ip/flow.h>
#include <tins/ip.h>
#include <tins/tcp.h>
#include <tins/rawpdu.h>
#include <memory>
using namespace Tins;
using namespace vh;

struct Ctx {
    std::unique_ptr<TCPIP::Flow> flow;
    int data_calls = 0, ooo_calls = 0;
    bool ooo_args_ok = true;
    uint32_t cur_seq = 0;
    bytes cur_payload;
};

static std::string show(const std::string& r, const Ctx& c) {
    const TCPIP::Flow& f = *c.flow;
    std::ostringstream o;
    o << r << " ooo=" << c.ooo_calls << (c.ooo_args_ok ? "" : "!badargs")
      << " st=" << int(f.state()) << " seq=" << f.sequence_number() << " total=" << f.total_buffered_bytes()
      << " plen=" << f.payload().size() << " ph=" << fnv(f.payload()) << " buf=";
    bool first = true;
    for (auto& kv : f.buffered_payload()) {
        if (!first) o << ",";
        first = false;
        o << show_chunk(kv.first, kv.second);
    }
    return o.str();
}

static void install(Ctx& c, uint32_t seq) {
    c.flow.reset(new TCPIP::Flow(IPv4Address("10.0.0.2"), 80, seq));
    Ctx* p = &c;
    c.flow->data_callback([p](TCPIP::Flow&) { p->data_calls++; });
    c.flow->out_of_order_callback([p](TCPIP::Flow&, uint32_t seq, const TCPIP::Flow::payload_type& pl) {
        p->ooo_calls++;
        if (seq != p->cur_seq || pl != p->cur_payload) p->ooo_args_ok = false;
    });
}

int main() {
    Ctx c;
    install(c, 0);
    return line_loop([&](const std::string& line) -> std::string {
        auto w = words(line);
        c.data_calls = 0; c.ooo_calls = 0; c.ooo_args_ok = true;
        if (w.size() >= 2 && w[0] == "finit") {
            install(c, uint32_t(std::stoull(w[1])));
            return show("finit", c);
        }
        if (w.size() >= 3 && (w[0] == "fseg" || w[0] == "fsegp")) {
            bytes d;
            if (!parse_hex(w[2], d)) return "bad-op";
            uint32_t seq = uint32_t(std::stoull(w[1]));
            c.cur_seq = seq; c.cur_payload = d;
            IP ip = IP("10.0.0.2", "10.0.0.1") / TCP(80, 4321) / RawPDU(d.begin(), d.end());
            ip.rfind_pdu<TCP>().seq(seq);
            ip.rfind_pdu<TCP>().flags(TCP::ACK);
            if (w[0] == "fsegp") {
                std::vector<uint8_t> wire = ip.serialize();
                IP parsed(wire.data(), uint32_t(wire.size()));
                c.flow->process_packet(parsed);
            } else {
                c.flow->process_packet(ip);
            }
            return show(c.data_calls ? "r=1" : "r=0", c) + (c.data_calls > 1 ? " !multi-data-callback" : "");
        }
        if (w.size() >= 4 && (w[0] == "fpkt" || w[0] == "fpktp")) {
            uint32_t seq = uint32_t(std::stoull(w[2]));
            unsigned flags = unsigned(std::stoul(w[1])) & 0xfff;
            IP ip = IP("10.0.0.2", "10.0.0.1") / TCP(80, 4321);
            TCP& tcp = ip.rfind_pdu<TCP>();
            tcp.seq(seq); tcp.flags(small_uint<12>(uint16_t(flags)));
            bytes d;
            if (w[3] != "~") {
                if (!parse_hex(w[3], d)) return "bad-op";
                tcp.inner_pdu(RawPDU(d.begin(), d.end()));
            }
            // the out-of-order callback is handed the sequence number of the first payload byte (one past a SYN)
            c.cur_seq = seq + ((flags & TCP::SYN) ? 1 : 0); c.cur_payload = d;
            if (w[0] == "fpktp") {
                std::vector<uint8_t> wire = ip.serialize();
                IP parsed(wire.data(), uint32_t(wire.size()));
                c.flow->process_packet(parsed);
            } else {
                c.flow->process_packet(ip);
            }
            return show(c.data_calls ? "r=1" : "r=0", c) + (c.data_calls > 1 ? " !multi-data-callback" : "");
        }
        if (w.size() >= 2 && w[0] == "fbare") {
            IP ip = IP("10.0.0.2", "10.0.0.1") / TCP(80, 4321);
            ip.rfind_pdu<TCP>().seq(uint32_t(std::stoull(w[1])));
            ip.rfind_pdu<TCP>().flags(TCP::ACK);
            c.flow->process_packet(ip);
            return show(c.data_calls ? "r=1" : "r=0", c);
        }
        if (w.size() >= 2 && w[0] == "fadv") {
            c.flow->advance_sequence(uint32_t(std::stoull(w[1])));
            return show("fadv", c);
        }
        if (w[0] == "fignore") {
            c.flow->ignore_data_packets();
            return show("fignore", c);
        }
        return "bad-op";
    });
}
