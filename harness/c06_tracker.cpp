// C06 correspondence harness: drives the real TCPIP::DataTracker with the op lines of the line protocol.
//   init <seq> | seg <seq> <hex> [@off] | adv <seq>
//   bigseg <seq> <len> <byte>      process_payload(seq, <len> copies of <byte>): segments of 2^31 bytes and more (the model cannot
//                                  hold such a list; the result is compared with the theorem `oversize_segment_dropped`)
#include "common.h"
#include "c06_show.h"
#include <tins/tcp_ip/data_tracker.h>
#include <memory>
using namespace Tins;
using namespace vh;

static std::string show(const std::string& r, const TCPIP::DataTracker& t) {
    std::ostringstream o;
    o << r << " seq=" << t.sequence_number() << " total=" << t.total_buffered_bytes()
      << " plen=" << t.payload().size() << " ph=" << fnv(t.payload()) << " buf=";
    bool first = true;
    for (auto& kv : t.buffered_payload()) {      // std::map: ascending key order = canonical order
        if (!first) o << ",";
        first = false;
        o << show_chunk(kv.first, kv.second);
    }
    return o.str();
}

int main() {
    std::unique_ptr<TCPIP::DataTracker> t(new TCPIP::DataTracker(0));
    return line_loop([&](const std::string& line) -> std::string {
        auto w = words(line);
        if (w.size() >= 2 && w[0] == "init") {
            t.reset(new TCPIP::DataTracker(uint32_t(std::stoull(w[1]))));
            return show("init", *t);
        }
        if (w.size() >= 3 && w[0] == "seg") {
            bytes d;
            if (!parse_hex(w[2], d)) return "bad-op";
            bool r = t->process_payload(uint32_t(std::stoull(w[1])), d);
            return show(r ? "r=1" : "r=0", *t);
        }
        if (w.size() >= 4 && w[0] == "bigseg") {
            TCPIP::DataTracker::payload_type d(size_t(std::stoull(w[2])), uint8_t(std::stoul(w[3])));
            bool r = t->process_payload(uint32_t(std::stoull(w[1])), std::move(d));
            return show(r ? "r=1" : "r=0", *t);
        }
        if (w.size() >= 2 && w[0] == "adv") {
            t->advance_sequence(uint32_t(std::stoull(w[1])));
            return show("adv", *t);
        }
        return "bad-op";
    });
}
