// Central wire harness shared by C01–C04: parses / builds real libtins packets and prints canonical lines.
//   parse <Class> <hex>          parsing constructor (or from_bytes) on an exact-size heap block
//   new                          start an empty API-built packet (case start)
//   push <Class> [args…]         append a layer (operator/=)
//   set <idx> <op…>              one API call on layer <idx>
//   show                         dump of the API-built packet, same format as a successful parse
// Output of parse/show:  ok <chain> size=<n> ser=<hex|throw:E> re=<chain|throw:E> ser2=<same|hex|throw:E> || mon=… clone=… acc=… live=…
//   <chain> = Cls{f=v;…}[hdr,trl]/Cls{…}[hdr,trl]/…        (everything after " || " is implementation-only)
#include "wire_iface.h"
#include "wire_l2.h"
#include "wire_ip.h"
#include "wire_ip6.h"
#include "wire_icmp.h"
#include "wire_transport.h"
#include "wire_app.h"
#include "wire_wifi.h"
#include <memory>
#include <map>

using namespace Tins;
using namespace wire;

#define WIRE_CLASSES(X) \
    X(EthernetII, ETHERNET_II) X(Dot3, IEEE802_3) X(LLC, LLC) X(SNAP, SNAP) X(Dot1Q, DOT1Q) X(MPLS, MPLS) \
    X(PPPoE, PPPOE) X(SLL, SLL) X(Loopback, LOOPBACK) X(PPI, PPI) X(PKTAP, PKTAP) \
    X(IP, IP) X(IPv6, IPv6) X(IPSecAH, IPSEC_AH) X(IPSecESP, IPSEC_ESP) \
    X(TCP, TCP) X(UDP, UDP) X(ICMP, ICMP) X(ICMPv6, ICMPv6) \
    X(BootP, BOOTP) X(DHCP, DHCP) X(DHCPv6, DHCPv6) X(DNS, DNS) X(RTP, RTP) X(VXLAN, VXLAN) X(ARP, ARP) X(STP, STP) \
    X(RC4EAPOL, RC4EAPOL) X(RSNEAPOL, RSNEAPOL) X(RadioTap, RADIOTAP) X(RawPDU, RAW) \
    X(Dot11, DOT11) X(Dot11Ack, DOT11_ACK) X(Dot11AssocRequest, DOT11_ASSOC_REQ) X(Dot11AssocResponse, DOT11_ASSOC_RESP) \
    X(Dot11Authentication, DOT11_AUTH) X(Dot11Beacon, DOT11_BEACON) X(Dot11BlockAck, DOT11_BLOCK_ACK) \
    X(Dot11BlockAckRequest, DOT11_BLOCK_ACK_REQ) X(Dot11CFEnd, DOT11_CF_END) X(Dot11Data, DOT11_DATA) \
    X(Dot11Control, DOT11_CONTROL) X(Dot11Deauthentication, DOT11_DEAUTH) X(Dot11Disassoc, DOT11_DIASSOC) \
    X(Dot11EndCFAck, DOT11_END_CF_ACK) X(Dot11ProbeRequest, DOT11_PROBE_REQ) \
    X(Dot11ProbeResponse, DOT11_PROBE_RESP) X(Dot11PSPoll, DOT11_PS_POLL) X(Dot11ReAssocRequest, DOT11_REASSOC_REQ) \
    X(Dot11ReAssocResponse, DOT11_REASSOC_RESP) X(Dot11RTS, DOT11_RTS) X(Dot11QoSData, DOT11_QOS_DATA)

static const char* class_name(const PDU& p) {
    switch (p.pdu_type()) {
#define X(C, T) case PDU::T: return #C;
        WIRE_CLASSES(X)
#undef X
        case PDU::EAPOL: return "EAPOL";
        case PDU::DOT11_MANAGEMENT: return "Dot11ManagementFrame";
        case PDU::DOT11_CONTROL_TA: return "Dot11ControlTA";
        case PDU::DOT1AD: return "Dot1AD";
        default: return "Unknown";
    }
}

// parsing constructor by class name; "Dot11*" = Dot11::from_bytes, "EAPOL*" = EAPOL::from_bytes
static PDU* parse_class(const std::string& cls, const uint8_t* buf, uint32_t len, bool& known) {
    known = true;
    if (cls == "Dot11*") return Dot11::from_bytes(buf, len);
    if (cls == "EAPOL*") return EAPOL::from_bytes(buf, len);
#define X(C, T) if (cls == #C) return new C(buf, len);
    WIRE_CLASSES(X)
#undef X
    known = false;
    return 0;
}

static std::string g_mon;
static void monitor(int type, uint32_t off, int kind) {
    if (!g_mon.empty()) g_mon += ",";
    std::ostringstream o;
    o << type << ":" << off << ":" << kind;
    g_mon += o.str();
}

static std::string layer_dump(const PDU& p) {
    std::string f;
    if (p.pdu_type() == PDU::RAW) {
        const RawPDU& r = static_cast<const RawPDU&>(p);
        f = "payload=" + vh::to_hex(r.payload());
    }
    else if (!(l2_dump(p, f) || ip_dump(p, f) || ip6_dump(p, f) || icmp_dump(p, f) || transport_dump(p, f) || app_dump(p, f) || wifi_dump(p, f))) {
        f = "?";
    }
    std::ostringstream o;
    o << class_name(p) << "{" << f << "}[" << p.header_size() << "," << p.trailer_size() << "]";
    return o.str();
}

static std::string chain_dump(const PDU& top) {
    std::string s;
    for (const PDU* p = &top; p; p = p->inner_pdu()) {
        if (!s.empty()) s += "/";
        s += layer_dump(*p);
    }
    return s;
}

static std::string ser_or_throw(PDU& p, bytes& out, bool& ok) {
    ok = false;
    try {
        out = p.serialize();
        ok = true;
        return vh::to_hex(out);
    } catch (const std::exception& e) {
        return "throw:" + vh::exc_name(e);
    }
}

static std::string sweep(const PDU& top) {
    std::string out;
    for (const PDU* p = &top; p; p = p->inner_pdu()) {
        std::string s;
        if (l2_sweep(*p, s) || ip_sweep(*p, s) || ip6_sweep(*p, s) || icmp_sweep(*p, s) || transport_sweep(*p, s) || app_sweep(*p, s) || wifi_sweep(*p, s)) {
            if (!out.empty()) out += ",";
            out += s;
        }
    }
    return out.empty() ? "-" : out;
}

// the common line for a live packet `p` whose outermost parser is `cls`
static std::string describe(PDU& p, const std::string& cls) {
    std::ostringstream o;
    o << "ok " << chain_dump(p) << " size=" << p.size();
    g_mon.clear();
    bytes ser;
    bool ok;
    std::string s1 = ser_or_throw(p, ser, ok);
    std::string mon1 = g_mon;
    o << " ser=" << s1;
    std::string clone_res = "-", acc = "-";
    if (ok) {
        // re-parse the serialization with the same entry point
        try {
            bool known;
            std::unique_ptr<PDU> q(parse_class(cls, ser.data(), uint32_t(ser.size()), known));
            if (!q) {
                o << " re=null ser2=-";
            } else {
                o << " re=" << chain_dump(*q);
                bytes ser2;
                bool ok2;
                std::string s2 = ser_or_throw(*q, ser2, ok2);
                o << " ser2=" << ((ok2 && ser2 == ser) ? std::string("same") : s2);
            }
        } catch (const std::exception& e) {
            o << " re=throw:" << vh::exc_name(e) << " ser2=-";
        }
        // clone: deep and equal
        try {
            std::unique_ptr<PDU> c(p.clone());
            bytes cs = c->serialize();
            clone_res = (cs == ser && chain_dump(*c) == chain_dump(p)) ? "same" : "diff";
        } catch (const std::exception& e) {
            clone_res = "throw:" + vh::exc_name(e);
        }
    } else {
        o << " re=- ser2=-";
    }
    acc = sweep(p);
    // serialize() of the SAME object once more: it stores derived fields back into the object, so a writer that does not
    // restore what it borrowed (e.g. the IPv6 extension-header types) shows only from the second serialization on
    std::string again = "-";
    if (ok) {
        bytes ser3;
        bool ok3;
        g_mon.clear();
        std::string s3 = ser_or_throw(p, ser3, ok3);
        again = (ok3 && ser3 == ser) ? std::string("same") : s3;
    }
    o << " || mon=" << (mon1.empty() ? "-" : mon1) << " clone=" << clone_res << " acc=" << acc << " again=" << again;
    return o.str();
}

int main() {
    VerifHooks::serialize_monitor = monitor;
    std::unique_ptr<PDU> built;               // API-built packet
    std::vector<std::string> built_classes;
    return vh::line_loop([&](const std::string& line) -> std::string {
        auto w = vh::words(line);
        if (w.empty()) return "bad-op";
        long live0 = VerifHooks::live_pdus();
        if (w[0] == "parse" && w.size() >= 3) {
            bytes b;
            if (!vh::parse_hex(w[2], b)) return "bad-op";
            // exact-size heap block: one byte past the end is an ASan red zone
            std::unique_ptr<uint8_t[]> blk(new uint8_t[b.size() ? b.size() : 1]);
            if (!b.empty()) memcpy(blk.get(), b.data(), b.size());
            std::string res;
            {
                bool known = false;
                std::unique_ptr<PDU> p;
                try {
                    p.reset(parse_class(w[1], b.empty() ? blk.get() + 1 : blk.get(), uint32_t(b.size()), known));
                } catch (const std::exception& e) {
                    res = "throw " + vh::exc_name(e);
                }
                if (res.empty()) {
                    if (!known) return "bad-class";
                    if (!p) res = "null";
                    else {
                        std::string entry = w[1];
                        res = describe(*p, entry);
                    }
                }
            }
            long leaked = VerifHooks::live_pdus() - live0 - (built ? 0 : 0);
            std::ostringstream o;
            o << res << (res.find(" || ") == std::string::npos ? " ||" : "") << " live=" << leaked;
            return o.str();
        }
        if (w[0] == "new") {
            built.reset();
            built_classes.clear();
            return "ok";
        }
        if (w[0] == "push" && w.size() >= 2) {
            std::vector<std::string> args(w.begin() + 2, w.end());
            std::unique_ptr<PDU> l;
            if (w[1] == "RawPDU") {
                bytes b;
                if (args.size() != 1 || !vh::parse_hex(args[0], b)) return "bad-op";
                l.reset(new RawPDU(b.data(), uint32_t(b.size())));
            } else {
                PDU* r = l2_mk(w[1], args);
                if (!r) r = ip_mk(w[1], args);
                if (!r) r = ip6_mk(w[1], args);
                if (!r) r = icmp_mk(w[1], args);
                if (!r) r = transport_mk(w[1], args);
                if (!r) r = app_mk(w[1], args);
                if (!r) r = wifi_mk(w[1], args);
                if (!r) return "bad-class";
                l.reset(r);
            }
            if (!built) built = std::move(l);
            else *built /= *l;
            built_classes.push_back(w[1]);
            return "ok";
        }
        if (w[0] == "set" && w.size() >= 3) {
            if (!built) return "bad-op";
            size_t idx = std::stoul(w[1]);
            PDU* p = built.get();
            for (size_t i = 0; i < idx && p; ++i) p = p->inner_pdu();
            if (!p) return "bad-op";
            std::vector<std::string> op(w.begin() + 2, w.end());
            if (p->pdu_type() == PDU::RAW && op.size() == 2 && op[0] == "payload") {
                bytes b;
                if (!vh::parse_hex(op[1], b)) return "bad-op";
                static_cast<RawPDU*>(p)->payload(RawPDU::payload_type(b.begin(), b.end()));
                return "ok";
            }
            if (l2_apply(*p, op) || ip_apply(*p, op) || ip6_apply(*p, op) || icmp_apply(*p, op) || transport_apply(*p, op) || app_apply(*p, op) || wifi_apply(*p, op))
                return "ok";
            return "bad-op";
        }
        if (w[0] == "show") {
            if (!built) return "bad-op";
            // describe a deep copy: serialization stores derived fields back into the object it serializes
            std::unique_ptr<PDU> c(built->clone());
            std::string r = describe(*c, built_classes.empty() ? "RawPDU" : built_classes[0]);
            return r + " live=0";
        }
        return "bad-op";
    });
}
