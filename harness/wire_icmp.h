// Icmp family: ICMP (+ RFC 4884 extensions / ICMPExtensionsStructure) and ICMPv6 (+ options, MLD records).
// Field names, order and value formats mirror lean/TinsModel/Wire/Icmp/{Icmp,Icmp6,Ext}.lean (`fields`).
#pragma once
#include "wire_iface.h"
#include <tins/icmp.h>
#include <tins/icmpv6.h>
namespace wire {

// ---------------------------------------------------------------- helpers
inline bool ic_hex(const std::string& s, bytes& out) { return vh::parse_hex(s, out); }
inline bool ic_hex_n(const std::string& s, size_t n, bytes& out) { return vh::parse_hex(s, out) && out.size() == n; }
inline bool ic_ip4(const std::string& s, IPv4Address& out) {
    bytes b;
    if (!ic_hex_n(s, 4, b)) return false;
    uint32_t v;
    memcpy(&v, b.data(), 4);
    out = IPv4Address(v);
    return true;
}
inline bool ic_ip6(const std::string& s, IPv6Address& out) {
    bytes b;
    if (!ic_hex_n(s, 16, b)) return false;
    out = IPv6Address(b.data());
    return true;
}
inline std::vector<std::string> ic_split(const std::string& s, char sep) {
    std::vector<std::string> out;
    std::string cur;
    for (size_t i = 0; i < s.size(); ++i) {
        if (s[i] == sep) { out.push_back(cur); cur.clear(); }
        else cur.push_back(s[i]);
    }
    out.push_back(cur);
    return out;
}
inline std::vector<std::string> ic_list(const std::string& s) {
    if (s == "-") return std::vector<std::string>();
    return ic_split(s, ',');
}
inline std::string ic_join(const std::vector<std::string>& v, const char* sep) {
    if (v.empty()) return "-";
    std::string s;
    for (size_t i = 0; i < v.size(); ++i) { if (i) s += sep; s += v[i]; }
    return s;
}
inline std::string ic_num(unsigned long long v) { std::ostringstream o; o << v; return o.str(); }
inline unsigned long ic_ul(const std::string& s) { return std::stoul(s); }
inline bool ic_ip6_list(const std::string& s, std::vector<IPv6Address>& out) {
    std::vector<std::string> l = ic_list(s);
    for (size_t i = 0; i < l.size(); ++i) {
        IPv6Address a;
        if (!ic_ip6(l[i], a)) return false;
        out.push_back(a);
    }
    return true;
}
inline std::string ic_ip6_join(const std::vector<IPv6Address>& v, const char* sep) {
    std::vector<std::string> items;
    for (size_t i = 0; i < v.size(); ++i) items.push_back(hex_of(v[i]));
    return ic_join(items, sep);
}

// a typed getter: value, "none" (option_not_found), "bad" (malformed_option) or "mp" (malformed_packet)
template <typename F>
inline std::string ic_typed(F f) {
    try { return f(); }
    catch (const option_not_found&) { return "none"; }
    catch (const malformed_option&) { return "bad"; }
    catch (const malformed_packet&) { return "mp"; }
}

inline void ic_ext_dump(FieldDump& d, const ICMPExtensionsStructure& e) {
    d.num("ext_version", (unsigned)e.version()).num("ext_reserved", (unsigned)e.reserved());
    std::vector<std::string> items;
    const ICMPExtensionsStructure::extensions_type& l = e.extensions();
    for (ICMPExtensionsStructure::extensions_type::const_iterator it = l.begin(); it != l.end(); ++it) {
        items.push_back(ic_num(it->extension_class()) + ":" + ic_num(it->extension_type()) + ":" + vh::to_hex(it->payload()));
    }
    d.str("exts", ic_join(items, ","));
}

// ---------------------------------------------------------------- ICMP
inline std::string icmp4_dump(const ICMP& p) {
    FieldDump d;
    unsigned t = p.type();
    d.num("type", t).num("code", p.code()).num("~checksum", p.checksum());
    if (t == 3 || t == 11 || t == 12) {
        d.num("pointer", p.pointer()).num("~length", p.length()).num("mtu", p.mtu());
    } else {
        d.num("id", p.id()).num("sequence", p.sequence()).str("gateway", hex_of(p.gateway()));
    }
    if (t == 13 || t == 14) {
        d.num("original_timestamp", p.original_timestamp()).num("receive_timestamp", p.receive_timestamp())
         .num("transmit_timestamp", p.transmit_timestamp());
    } else if (t == 17 || t == 18) {
        d.str("address_mask", hex_of(p.address_mask()));
    }
    ic_ext_dump(d, p.extensions());
    return d.done();
}

inline bool ic_add_ext(ICMPExtensionsStructure& e, const std::vector<std::string>& op) {
    bytes x;
    if (!ic_hex(op[3], x)) return false;
    ICMPExtension ext(uint8_t(ic_ul(op[1])), uint8_t(ic_ul(op[2])));
    ext.payload(ICMPExtension::payload_type(x.begin(), x.end()));
    e.add_extension(ext);
    return true;
}

inline bool icmp4_apply(ICMP& p, const std::vector<std::string>& op) {
    const std::string& k = op[0];
    size_t n = op.size();
    IPv4Address a4;
    if (k == "type" && n == 2) { p.type(ICMP::Flags(uint8_t(ic_ul(op[1])))); return true; }
    if (k == "code" && n == 2) { p.code(uint8_t(ic_ul(op[1]))); return true; }
    if (k == "id" && n == 2) { p.id(uint16_t(ic_ul(op[1]))); return true; }
    if (k == "sequence" && n == 2) { p.sequence(uint16_t(ic_ul(op[1]))); return true; }
    if (k == "gateway" && n == 2 && ic_ip4(op[1], a4)) { p.gateway(a4); return true; }
    if (k == "mtu" && n == 2) { p.mtu(uint16_t(ic_ul(op[1]))); return true; }
    if (k == "pointer" && n == 2) { p.pointer(uint8_t(ic_ul(op[1]))); return true; }
    if (k == "original_timestamp" && n == 2) { p.original_timestamp(uint32_t(ic_ul(op[1]))); return true; }
    if (k == "receive_timestamp" && n == 2) { p.receive_timestamp(uint32_t(ic_ul(op[1]))); return true; }
    if (k == "transmit_timestamp" && n == 2) { p.transmit_timestamp(uint32_t(ic_ul(op[1]))); return true; }
    if (k == "address_mask" && n == 2 && ic_ip4(op[1], a4)) { p.address_mask(a4); return true; }
    if (k == "use_length_field" && n == 2 && (op[1] == "0" || op[1] == "1")) { p.use_length_field(op[1] == "1"); return true; }
    if (k == "set_echo_request" && n == 3) { p.set_echo_request(uint16_t(ic_ul(op[1])), uint16_t(ic_ul(op[2]))); return true; }
    if (k == "set_echo_reply" && n == 3) { p.set_echo_reply(uint16_t(ic_ul(op[1])), uint16_t(ic_ul(op[2]))); return true; }
    if (k == "set_info_request" && n == 3) { p.set_info_request(uint16_t(ic_ul(op[1])), uint16_t(ic_ul(op[2]))); return true; }
    if (k == "set_info_reply" && n == 3) { p.set_info_reply(uint16_t(ic_ul(op[1])), uint16_t(ic_ul(op[2]))); return true; }
    if (k == "set_dest_unreachable" && n == 1) { p.set_dest_unreachable(); return true; }
    if (k == "set_time_exceeded" && n == 2 && (op[1] == "0" || op[1] == "1")) { p.set_time_exceeded(op[1] == "1"); return true; }
    if (k == "set_param_problem" && n == 3 && (op[1] == "0" || op[1] == "1")) {
        p.set_param_problem(op[1] == "1", uint8_t(ic_ul(op[2])));
        return true;
    }
    if (k == "set_source_quench" && n == 1) { p.set_source_quench(); return true; }
    if (k == "set_redirect" && n == 3 && ic_ip4(op[2], a4)) { p.set_redirect(uint8_t(ic_ul(op[1])), a4); return true; }
    if (k == "add_extension" && n == 4) return ic_add_ext(p.extensions(), op);
    if (k == "ext_version" && n == 2) { p.extensions().version(small_uint<4>(uint8_t(ic_ul(op[1]) % 16))); return true; }
    if (k == "ext_reserved" && n == 2) { p.extensions().reserved(small_uint<12>(uint16_t(ic_ul(op[1]) % 4096))); return true; }
    return false;
}

// ---------------------------------------------------------------- ICMPv6 typed getters
struct Ic6Typed { uint8_t code; const char* name; std::string (*get)(const ICMPv6&); };

inline std::string ic6_g_src_ll(const ICMPv6& p) { return hex_of(p.source_link_layer_addr()); }
inline std::string ic6_g_tgt_ll(const ICMPv6& p) { return hex_of(p.target_link_layer_addr()); }
inline std::string ic6_g_prefix_info(const ICMPv6& p) {
    ICMPv6::prefix_info_type v = p.prefix_info();
    return ic_num(v.prefix_len) + "." + ic_num(v.A) + "." + ic_num(v.L) + "." + ic_num(v.valid_lifetime) + "." +
           ic_num(v.preferred_lifetime) + "." + ic_num(v.reserved2) + "." + hex_of(v.prefix);
}
inline std::string ic6_g_redirect(const ICMPv6& p) { return vh::to_hex(p.redirect_header()); }
inline std::string ic6_g_mtu(const ICMPv6& p) { ICMPv6::mtu_type v = p.mtu(); return ic_num(v.first) + "." + ic_num(v.second); }
inline std::string ic6_g_shortcut(const ICMPv6& p) {
    ICMPv6::shortcut_limit_type v = p.shortcut_limit();
    return ic_num(v.limit) + "." + ic_num(v.reserved1) + "." + ic_num(v.reserved2);
}
inline std::string ic6_g_advert(const ICMPv6& p) {
    ICMPv6::new_advert_interval_type v = p.new_advert_interval();
    return ic_num(v.reserved) + "." + ic_num(v.interval);
}
inline std::string ic6_g_ha_info(const ICMPv6& p) {
    ICMPv6::new_ha_info_type v = p.new_home_agent_info();
    std::vector<std::string> items;
    for (size_t i = 0; i < v.size(); ++i) items.push_back(ic_num(v[i]));
    return ic_join(items, ",");
}
inline std::string ic6_addr_list_str(const ICMPv6::addr_list_type& v) {
    return vh::to_hex(v.reserved, 6) + "." + ic_ip6_join(v.addresses, ",");
}
inline std::string ic6_g_src_list(const ICMPv6& p) { return ic6_addr_list_str(p.source_addr_list()); }
inline std::string ic6_g_tgt_list(const ICMPv6& p) { return ic6_addr_list_str(p.target_addr_list()); }
inline std::string ic6_g_rsa(const ICMPv6& p) {
    ICMPv6::rsa_sign_type v = p.rsa_signature();
    return vh::to_hex(v.key_hash, 16) + "." + vh::to_hex(v.signature);
}
inline std::string ic6_g_timestamp(const ICMPv6& p) {
    ICMPv6::timestamp_type v = p.timestamp();
    return vh::to_hex(v.reserved, 6) + "." + ic_num(v.timestamp);
}
inline std::string ic6_g_nonce(const ICMPv6& p) { return vh::to_hex(p.nonce()); }
inline std::string ic6_g_ip_prefix(const ICMPv6& p) {
    ICMPv6::ip_prefix_type v = p.ip_prefix();
    return ic_num(v.option_code) + "." + ic_num(v.prefix_len) + "." + hex_of(v.address);
}
inline std::string ic6_g_lladdr(const ICMPv6& p) {
    ICMPv6::lladdr_type v = p.link_layer_addr();
    return ic_num(v.option_code) + "." + vh::to_hex(v.address);
}
inline std::string ic6_g_naack(const ICMPv6& p) { ICMPv6::naack_type v = p.naack(); return ic_num(v.code) + "." + ic_num(v.status); }
inline std::string ic6_g_map(const ICMPv6& p) {
    ICMPv6::map_type v = p.map();
    return ic_num(v.dist) + "." + ic_num(v.pref) + "." + ic_num(v.r) + "." + ic_num(v.valid_lifetime) + "." + hex_of(v.address);
}
inline std::string ic6_g_route_info(const ICMPv6& p) {
    ICMPv6::route_info_type v = p.route_info();
    return ic_num(v.prefix_len) + "." + ic_num(v.pref) + "." + ic_num(v.route_lifetime) + "." + vh::to_hex(v.prefix);
}
inline std::string ic6_g_rec_dns(const ICMPv6& p) {
    ICMPv6::recursive_dns_type v = p.recursive_dns_servers();
    return ic_num(v.lifetime) + "." + ic_ip6_join(v.servers, ",");
}
inline std::string ic6_g_hk_req(const ICMPv6& p) {
    ICMPv6::handover_key_req_type v = p.handover_key_request();
    return ic_num(v.AT) + "." + vh::to_hex(v.key);
}
inline std::string ic6_g_hk_reply(const ICMPv6& p) {
    ICMPv6::handover_key_reply_type v = p.handover_key_reply();
    return ic_num(v.lifetime) + "." + ic_num(v.AT) + "." + vh::to_hex(v.key);
}
inline std::string ic6_g_hai(const ICMPv6& p) {
    ICMPv6::handover_assist_info_type v = p.handover_assist_info();
    return ic_num(v.option_code) + "." + vh::to_hex(v.hai);
}
inline std::string ic6_g_mn(const ICMPv6& p) {
    ICMPv6::mobile_node_id_type v = p.mobile_node_identifier();
    return ic_num(v.option_code) + "." + vh::to_hex(v.mn);
}
inline std::string ic6_g_dns_search(const ICMPv6& p) {
    ICMPv6::dns_search_list_type v = p.dns_search_list();
    std::vector<std::string> items;
    for (size_t i = 0; i < v.domains.size(); ++i)
        items.push_back(vh::to_hex((const uint8_t*)v.domains[i].data(), v.domains[i].size()));
    return ic_num(v.lifetime) + "." + ic_join(items, ",");
}

inline const std::vector<Ic6Typed>& ic6_typed_table() {
    static std::vector<Ic6Typed> t;
    if (t.empty()) {
        Ic6Typed rows[] = {
            {1, "source_link_layer_addr", ic6_g_src_ll}, {2, "target_link_layer_addr", ic6_g_tgt_ll},
            {3, "prefix_info", ic6_g_prefix_info}, {4, "redirect_header", ic6_g_redirect}, {5, "mtu", ic6_g_mtu},
            {6, "shortcut_limit", ic6_g_shortcut}, {7, "new_advert_interval", ic6_g_advert},
            {8, "new_home_agent_info", ic6_g_ha_info}, {9, "source_addr_list", ic6_g_src_list},
            {10, "target_addr_list", ic6_g_tgt_list}, {12, "rsa_signature", ic6_g_rsa}, {13, "timestamp", ic6_g_timestamp},
            {14, "nonce", ic6_g_nonce}, {17, "ip_prefix", ic6_g_ip_prefix}, {19, "link_layer_addr", ic6_g_lladdr},
            {20, "naack", ic6_g_naack}, {23, "map", ic6_g_map}, {24, "route_info", ic6_g_route_info},
            {25, "recursive_dns_servers", ic6_g_rec_dns}, {27, "handover_key_request", ic6_g_hk_req},
            {28, "handover_key_reply", ic6_g_hk_reply}, {29, "handover_assist_info", ic6_g_hai},
            {30, "mobile_node_identifier", ic6_g_mn}, {31, "dns_search_list", ic6_g_dns_search},
        };
        t.assign(rows, rows + sizeof(rows) / sizeof(rows[0]));
    }
    return t;
}

inline std::string icmp6_dump(const ICMPv6& p) {
    FieldDump d;
    unsigned t = p.type();
    d.num("type", t).num("code", p.code()).num("~checksum", p.checksum());
    if (t == 1 || t == 3) {
        d.num("~length", p.length()).num("id_low", p.identifier() % 256).num("sequence", p.sequence());
    } else if (t == 143) {
        d.num("identifier", p.identifier()).num("~record_count", p.sequence());
    } else {
        d.num("identifier", p.identifier()).num("sequence", p.sequence());
    }
    if (t == 134) {
        d.num("hop_limit", p.hop_limit()).num("managed", (unsigned)p.managed()).num("other", (unsigned)p.other())
         .num("home_agent", (unsigned)p.home_agent()).num("router_pref", (unsigned)p.router_pref())
         .num("router_lifetime", p.router_lifetime()).num("reachable_time", p.reachable_time())
         .num("retransmit_timer", p.retransmit_timer());
    }
    if (t == 136) {
        d.num("router", (unsigned)p.router()).num("solicited", (unsigned)p.solicited()).num("override", (unsigned)p.override());
    }
    if (p.has_target_addr()) d.str("target_addr", hex_of(p.target_addr()));
    if (p.has_dest_addr()) d.str("dest_addr", hex_of(p.dest_addr()));
    if (t == 130) {
        d.str("multicast_addr", hex_of(p.multicast_addr())).num("supress", (unsigned)p.supress()).num("qrv", (unsigned)p.qrv())
         .num("qqic", p.qqic()).str("sources", ic_ip6_join(p.sources(), ","));
    }
    if (t == 143) {
        std::vector<std::string> items;
        const ICMPv6::multicast_address_records_list& l = p.multicast_address_records();
        for (ICMPv6::multicast_address_records_list::const_iterator it = l.begin(); it != l.end(); ++it) {
            items.push_back(ic_num(it->type) + ":" + hex_of(it->multicast_address) + ":" + ic_ip6_join(it->sources, "+") + ":" +
                            vh::to_hex(it->aux_data));
        }
        d.str("records", ic_join(items, ","));
    }
    {
        std::vector<std::string> items;
        const ICMPv6::options_type& opts = p.options();
        for (ICMPv6::options_type::const_iterator it = opts.begin(); it != opts.end(); ++it) {
            std::ostringstream o;
            o << (unsigned long)it->option() << ":" << it->length_field() << ":" << vh::to_hex(it->data_ptr(), it->data_size());
            items.push_back(o.str());
        }
        d.str("opts", ic_join(items, ","));
    }
    const std::vector<Ic6Typed>& tt = ic6_typed_table();
    for (size_t i = 0; i < tt.size(); ++i) {
        if (p.search_option(ICMPv6::OptionTypes(tt[i].code))) {
            const Ic6Typed& row = tt[i];
            d.str(row.name, ic_typed([&]() { return row.get(p); }));
        }
    }
    ic_ext_dump(d, p.extensions());
    return d.done();
}

inline bool ic6_record(const std::string& s, ICMPv6::multicast_address_record& r) {
    std::vector<std::string> f = ic_split(s, ':');
    if (f.size() != 4) return false;
    r.type = uint8_t(ic_ul(f[0]));
    if (!ic_ip6(f[1], r.multicast_address)) return false;
    if (f[2] != "-") {
        std::vector<std::string> ss = ic_split(f[2], '+');
        for (size_t i = 0; i < ss.size(); ++i) {
            IPv6Address a;
            if (!ic_ip6(ss[i], a)) return false;
            r.sources.push_back(a);
        }
    }
    bytes aux;
    if (!ic_hex(f[3], aux)) return false;
    r.aux_data.assign(aux.begin(), aux.end());
    return true;
}

inline bool icmp6_apply(ICMPv6& p, const std::vector<std::string>& op) {
    const std::string& k = op[0];
    size_t n = op.size();
    IPv6Address a6;
    bytes x, y;
    if (k == "type" && n == 2) { p.type(ICMPv6::Types(uint8_t(ic_ul(op[1])))); return true; }
    if (k == "code" && n == 2) { p.code(uint8_t(ic_ul(op[1]))); return true; }
    if (k == "identifier" && n == 2) { p.identifier(uint16_t(ic_ul(op[1]))); return true; }
    if (k == "sequence" && n == 2) { p.sequence(uint16_t(ic_ul(op[1]))); return true; }
    if (k == "maximum_response_code" && n == 2) { p.maximum_response_code(uint16_t(ic_ul(op[1]))); return true; }
    if (k == "override" && n == 2) { p.override(small_uint<1>(uint8_t(ic_ul(op[1]) % 2))); return true; }
    if (k == "solicited" && n == 2) { p.solicited(small_uint<1>(uint8_t(ic_ul(op[1]) % 2))); return true; }
    if (k == "router" && n == 2) { p.router(small_uint<1>(uint8_t(ic_ul(op[1]) % 2))); return true; }
    if (k == "hop_limit" && n == 2) { p.hop_limit(uint8_t(ic_ul(op[1]))); return true; }
    if (k == "router_pref" && n == 2) { p.router_pref(small_uint<2>(uint8_t(ic_ul(op[1]) % 4))); return true; }
    if (k == "home_agent" && n == 2) { p.home_agent(small_uint<1>(uint8_t(ic_ul(op[1]) % 2))); return true; }
    if (k == "other" && n == 2) { p.other(small_uint<1>(uint8_t(ic_ul(op[1]) % 2))); return true; }
    if (k == "managed" && n == 2) { p.managed(small_uint<1>(uint8_t(ic_ul(op[1]) % 2))); return true; }
    if (k == "router_lifetime" && n == 2) { p.router_lifetime(uint16_t(ic_ul(op[1]))); return true; }
    if (k == "reachable_time" && n == 2) { p.reachable_time(uint32_t(ic_ul(op[1]))); return true; }
    if (k == "retransmit_timer" && n == 2) { p.retransmit_timer(uint32_t(ic_ul(op[1]))); return true; }
    if (k == "target_addr" && n == 2 && ic_ip6(op[1], a6)) { p.target_addr(a6); return true; }
    if (k == "dest_addr" && n == 2 && ic_ip6(op[1], a6)) { p.dest_addr(a6); return true; }
    if (k == "multicast_addr" && n == 2 && ic_ip6(op[1], a6)) { p.multicast_addr(a6); return true; }
    if (k == "multicast_address_records" && n == 2) {
        ICMPv6::multicast_address_records_list l;
        std::vector<std::string> items = ic_list(op[1]);
        for (size_t i = 0; i < items.size(); ++i) {
            ICMPv6::multicast_address_record r;
            if (!ic6_record(items[i], r)) return false;
            l.push_back(r);
        }
        p.multicast_address_records(l);
        return true;
    }
    if (k == "sources" && n == 2) {
        std::vector<IPv6Address> v;
        if (!ic_ip6_list(op[1], v)) return false;
        p.sources(ICMPv6::sources_list(v.begin(), v.end()));
        return true;
    }
    if (k == "supress" && n == 2) { p.supress(small_uint<1>(uint8_t(ic_ul(op[1]) % 2))); return true; }
    if (k == "qrv" && n == 2) { p.qrv(small_uint<3>(uint8_t(ic_ul(op[1]) % 8))); return true; }
    if (k == "qqic" && n == 2) { p.qqic(uint8_t(ic_ul(op[1]))); return true; }
    if (k == "use_mldv2" && n == 2 && (op[1] == "0" || op[1] == "1")) { p.use_mldv2(op[1] == "1"); return true; }
    if (k == "use_length_field" && n == 2 && (op[1] == "0" || op[1] == "1")) { p.use_length_field(op[1] == "1"); return true; }
    if (k == "add_extension" && n == 4) return ic_add_ext(p.extensions(), op);
    if (k == "ext_version" && n == 2) { p.extensions().version(small_uint<4>(uint8_t(ic_ul(op[1]) % 16))); return true; }
    if (k == "ext_reserved" && n == 2) { p.extensions().reserved(small_uint<12>(uint16_t(ic_ul(op[1]) % 4096))); return true; }
    if (k == "add_option" && n == 3 && ic_hex(op[2], x)) {
        p.add_option(ICMPv6::option(uint8_t(ic_ul(op[1])), x.begin(), x.end()));
        return true;
    }
    if (k == "remove_option" && n == 2) { p.remove_option(ICMPv6::OptionTypes(uint8_t(ic_ul(op[1])))); return true; }
    if (k == "source_link_layer_addr" && n == 2 && ic_hex_n(op[1], 6, x)) { p.source_link_layer_addr(HWAddress<6>(x.data())); return true; }
    if (k == "target_link_layer_addr" && n == 2 && ic_hex_n(op[1], 6, x)) { p.target_link_layer_addr(HWAddress<6>(x.data())); return true; }
    if (k == "prefix_info" && n == 7 && ic_ip6(op[6], a6)) {
        p.prefix_info(ICMPv6::prefix_info_type(uint8_t(ic_ul(op[1])), small_uint<1>(uint8_t(ic_ul(op[2]) % 2)),
                                               small_uint<1>(uint8_t(ic_ul(op[3]) % 2)), uint32_t(ic_ul(op[4])),
                                               uint32_t(ic_ul(op[5])), a6));
        return true;
    }
    if (k == "redirect_header" && n == 2 && ic_hex(op[1], x)) { p.redirect_header(byte_array(x.begin(), x.end())); return true; }
    if (k == "mtu" && n == 3) { p.mtu(ICMPv6::mtu_type(uint16_t(ic_ul(op[1])), uint32_t(ic_ul(op[2])))); return true; }
    if (k == "shortcut_limit" && n == 4) {
        ICMPv6::shortcut_limit_type v(uint8_t(ic_ul(op[1])));
        v.reserved1 = uint8_t(ic_ul(op[2]));
        v.reserved2 = uint32_t(ic_ul(op[3]));
        p.shortcut_limit(v);
        return true;
    }
    if (k == "new_advert_interval" && n == 3) {
        ICMPv6::new_advert_interval_type v(uint32_t(ic_ul(op[2])));
        v.reserved = uint16_t(ic_ul(op[1]));
        p.new_advert_interval(v);
        return true;
    }
    if (k == "new_home_agent_info" && n == 2) {
        ICMPv6::new_ha_info_type v;
        std::vector<std::string> l = ic_list(op[1]);
        for (size_t i = 0; i < l.size(); ++i) v.push_back(uint16_t(ic_ul(l[i])));
        p.new_home_agent_info(v);
        return true;
    }
    if ((k == "source_addr_list" || k == "target_addr_list") && n == 3 && ic_hex_n(op[1], 6, x)) {
        ICMPv6::addr_list_type v;
        if (!ic_ip6_list(op[2], v.addresses)) return false;
        memcpy(v.reserved, x.data(), 6);
        if (k == "source_addr_list") p.source_addr_list(v); else p.target_addr_list(v);
        return true;
    }
    if (k == "rsa_signature" && n == 3 && ic_hex_n(op[1], 16, x) && ic_hex(op[2], y)) {
        p.rsa_signature(ICMPv6::rsa_sign_type(x.begin(), ICMPv6::rsa_sign_type::signature_type(y.begin(), y.end())));
        return true;
    }
    if (k == "timestamp" && n == 3 && ic_hex_n(op[1], 6, x)) {
        ICMPv6::timestamp_type v(std::stoull(op[2]));
        memcpy(v.reserved, x.data(), 6);
        p.timestamp(v);
        return true;
    }
    if (k == "nonce" && n == 2 && ic_hex(op[1], x)) { p.nonce(ICMPv6::nonce_type(x.begin(), x.end())); return true; }
    if (k == "ip_prefix" && n == 4 && ic_ip6(op[3], a6)) {
        p.ip_prefix(ICMPv6::ip_prefix_type(uint8_t(ic_ul(op[1])), uint8_t(ic_ul(op[2])), a6));
        return true;
    }
    if (k == "link_layer_addr" && n == 3 && ic_hex(op[2], x)) {
        p.link_layer_addr(ICMPv6::lladdr_type(uint8_t(ic_ul(op[1])), ICMPv6::lladdr_type::address_type(x.begin(), x.end())));
        return true;
    }
    if (k == "naack" && n == 3) { p.naack(ICMPv6::naack_type(uint8_t(ic_ul(op[1])), uint8_t(ic_ul(op[2])))); return true; }
    if (k == "map" && n == 6 && ic_ip6(op[5], a6)) {
        p.map(ICMPv6::map_type(small_uint<4>(uint8_t(ic_ul(op[1]) % 16)), small_uint<4>(uint8_t(ic_ul(op[2]) % 16)),
                               small_uint<1>(uint8_t(ic_ul(op[3]) % 2)), uint32_t(ic_ul(op[4])), a6));
        return true;
    }
    if (k == "route_info" && n == 5 && ic_hex(op[4], x)) {
        p.route_info(ICMPv6::route_info_type(uint8_t(ic_ul(op[1])), small_uint<2>(uint8_t(ic_ul(op[2]) % 4)),
                                             uint32_t(ic_ul(op[3])), ICMPv6::route_info_type::prefix_type(x.begin(), x.end())));
        return true;
    }
    if (k == "recursive_dns_servers" && n == 3) {
        ICMPv6::recursive_dns_type v(uint32_t(ic_ul(op[1])));
        if (!ic_ip6_list(op[2], v.servers)) return false;
        p.recursive_dns_servers(v);
        return true;
    }
    if (k == "handover_key_request" && n == 3 && ic_hex(op[2], x)) {
        p.handover_key_request(ICMPv6::handover_key_req_type(small_uint<4>(uint8_t(ic_ul(op[1]) % 16)),
                                                             ICMPv6::handover_key_req_type::key_type(x.begin(), x.end())));
        return true;
    }
    if (k == "handover_key_reply" && n == 4 && ic_hex(op[3], x)) {
        p.handover_key_reply(ICMPv6::handover_key_reply_type(uint16_t(ic_ul(op[1])), small_uint<4>(uint8_t(ic_ul(op[2]) % 16)),
                                                             ICMPv6::handover_key_req_type::key_type(x.begin(), x.end())));
        return true;
    }
    if (k == "handover_assist_info" && n == 3 && ic_hex(op[2], x)) {
        p.handover_assist_info(ICMPv6::handover_assist_info_type(uint8_t(ic_ul(op[1])),
                                                                 ICMPv6::handover_assist_info_type::hai_type(x.begin(), x.end())));
        return true;
    }
    if (k == "mobile_node_identifier" && n == 3 && ic_hex(op[2], x)) {
        p.mobile_node_identifier(ICMPv6::mobile_node_id_type(uint8_t(ic_ul(op[1])),
                                                             ICMPv6::mobile_node_id_type::mn_type(x.begin(), x.end())));
        return true;
    }
    if (k == "dns_search_list" && n == 3) {
        ICMPv6::dns_search_list_type v(uint32_t(ic_ul(op[1])));
        std::vector<std::string> l = ic_list(op[2]);
        for (size_t i = 0; i < l.size(); ++i) {
            bytes d;
            if (!ic_hex(l[i], d)) return false;
            v.domains.push_back(std::string(d.begin(), d.end()));
        }
        p.dns_search_list(v);
        return true;
    }
    return false;
}

// ---------------------------------------------------------------- family interface
inline bool icmp_dump(const PDU& p, std::string& out) {
    if (p.pdu_type() == PDU::ICMP) { out = icmp4_dump(static_cast<const ICMP&>(p)); return true; }
    if (p.pdu_type() == PDU::ICMPv6) { out = icmp6_dump(static_cast<const ICMPv6&>(p)); return true; }
    return false;
}

inline PDU* icmp_mk(const std::string& cls, const std::vector<std::string>& a) {
    if (cls == "ICMP") {
        if (a.size() == 1) return new ICMP(ICMP::Flags(uint8_t(ic_ul(a[0]))));
        return new ICMP();
    }
    if (cls == "ICMPv6") {
        if (a.size() == 1) return new ICMPv6(ICMPv6::Types(uint8_t(ic_ul(a[0]))));
        return new ICMPv6();
    }
    return 0;
}

inline bool icmp_apply(PDU& p, const std::vector<std::string>& op) {
    if (op.empty()) return false;
    if (p.pdu_type() == PDU::ICMP) return icmp4_apply(static_cast<ICMP&>(p), op);
    if (p.pdu_type() == PDU::ICMPv6) return icmp6_apply(static_cast<ICMPv6&>(p), op);
    return false;
}

// read-only accessors that can fail: every typed getter (also those whose option is absent), search_option on
// every code present and on absent codes, the extension structure's own serialization
inline bool icmp_sweep(const PDU& p, std::string& out) {
    if (p.pdu_type() == PDU::ICMPv6) {
        const ICMPv6& q = static_cast<const ICMPv6&>(p);
        const std::vector<Ic6Typed>& tt = ic6_typed_table();
        for (size_t i = 0; i < tt.size(); ++i) {
            const Ic6Typed& row = tt[i];
            sweep_item(out, row.name, [&]() { row.get(q); });
        }
        sweep_item(out, "search_option", [&]() {
            for (unsigned c = 0; c < 256; ++c) q.search_option(ICMPv6::OptionTypes(c));
        });
        sweep_item(out, "ext_serialize", [&]() { ICMPExtensionsStructure e = q.extensions(); e.serialize(); });
        return true;
    }
    if (p.pdu_type() == PDU::ICMP) {
        const ICMP& q = static_cast<const ICMP&>(p);
        sweep_item(out, "ext_serialize", [&]() { ICMPExtensionsStructure e = q.extensions(); e.serialize(); });
        return true;
    }
    return false;
}

} // namespace wire
