// icmp family — nothing modelled yet (stub)
#pragma once
#include "wire_iface.h"
namespace wire {
inline bool icmp_dump(const PDU&, std::string&) { return false; }
inline PDU* icmp_mk(const std::string&, const std::vector<std::string>&) { return 0; }
inline bool icmp_apply(PDU&, const std::vector<std::string>&) { return false; }
inline bool icmp_sweep(const PDU&, std::string&) { return false; }
} // namespace wire
