// Transport family: UDP, TCP (+options)
// Field names, order and value formats are those of lean/TinsModel/Wire/Transport/{Udp,Tcp}.lean `fields`.
#pragma once
#include "wire_iface.h"
namespace wire {

inline unsigned long long tr_num(const std::string& s) { return std::stoull(s); }
inline bool tr_hex(const std::string& s, bytes& b) { return vh::parse_hex(s, b); }

// typed option getters of TCP: value, "nf" (option_not_found) or "malformed_option"
template <typename F>
inline std::string tcp_typed(F f) {
    try {
        return f();
    } catch (const option_not_found&) {
        return "nf";
    } catch (const malformed_option&) {
        return "malformed_option";
    }
}

inline std::string tcp_opts(const TCP& t) {
    std::string s;
    for (TCP::options_type::const_iterator it = t.options().begin(); it != t.options().end(); ++it) {
        if (!s.empty()) s += ",";
        std::ostringstream o;
        o << unsigned(it->option()) << ":" << it->length_field() << ":" << vh::to_hex(it->data_ptr(), it->data_size());
        s += o.str();
    }
    return s.empty() ? "-" : s;
}

inline std::string tcp_flag_bits(const TCP& t) {
    static const TCP::Flags fl[8] = {TCP::FIN, TCP::SYN, TCP::RST, TCP::PSH, TCP::ACK, TCP::URG, TCP::ECE, TCP::CWR};
    std::string s;
    for (int i = 0; i < 8; ++i) s += (t.get_flag(fl[i]) ? '1' : '0');
    return s;
}

inline bool transport_dump(const PDU& p, std::string& out) {
    if (p.pdu_type() == PDU::UDP) {
        const UDP& u = static_cast<const UDP&>(p);
        out = FieldDump().num("sport", u.sport()).num("dport", u.dport()).num("~length", u.length())
                  .num("~checksum", u.checksum()).done();
        return true;
    }
    if (p.pdu_type() == PDU::TCP) {
        const TCP& t = static_cast<const TCP&>(p);
        out = FieldDump().num("sport", t.sport()).num("dport", t.dport()).num("seq", t.seq()).num("ack_seq", t.ack_seq())
                  .num("window", t.window()).num("~checksum", t.checksum()).num("urg_ptr", t.urg_ptr())
                  .num("~data_offset", t.data_offset()).num("flags", t.flags()).str("flag_bits", tcp_flag_bits(t))
                  .str("opts", tcp_opts(t))
                  .str("mss", tcp_typed([&] { return std::to_string(t.mss()); }))
                  .str("winscale", tcp_typed([&] { return std::to_string(unsigned(t.winscale())); }))
                  .num("sack_permitted", t.has_sack_permitted() ? 1 : 0)
                  .str("sack", tcp_typed([&] {
                      TCP::sack_type v = t.sack();
                      std::string s;
                      for (size_t i = 0; i < v.size(); ++i) { if (i) s += "."; s += std::to_string(v[i]); }
                      return s.empty() ? std::string("-") : s;
                  }))
                  .str("timestamp", tcp_typed([&] {
                      std::pair<uint32_t, uint32_t> v = t.timestamp();
                      return std::to_string(v.first) + "." + std::to_string(v.second);
                  }))
                  .str("altchecksum", tcp_typed([&] { return std::to_string(unsigned(t.altchecksum())); }))
                  .done();
        return true;
    }
    return false;
}

inline PDU* transport_mk(const std::string& cls, const std::vector<std::string>& a) {
    if (cls == "UDP") {
        if (a.size() == 2) return new UDP(uint16_t(std::stoul(a[0])), uint16_t(std::stoul(a[1])));
        return new UDP();
    }
    if (cls == "TCP") {
        if (a.size() == 2) return new TCP(uint16_t(std::stoul(a[0])), uint16_t(std::stoul(a[1])));
        return new TCP();
    }
    return 0;
}

inline bool tcp_apply(TCP& t, const std::vector<std::string>& op) {
    size_t n = op.size();
    if (n == 1 && op[0] == "sack_permitted") { t.sack_permitted(); return true; }
    if (n == 2 && op[0] == "sack") {                       // a.b.c… (decimal 32-bit edges) or "-" for none
        TCP::sack_type v;
        if (op[1] != "-") {
            std::istringstream is(op[1]);
            std::string item;
            while (std::getline(is, item, '.')) v.push_back(uint32_t(tr_num(item)));
        }
        t.sack(v);
        return true;
    }
    if (n == 3 && op[0] == "timestamp") { t.timestamp(uint32_t(tr_num(op[1])), uint32_t(tr_num(op[2]))); return true; }
    if (n == 3 && op[0] == "set_flag") { t.set_flag(TCP::Flags(tr_num(op[1])), uint8_t(tr_num(op[2]) & 1)); return true; }
    if (n == 3 && op[0] == "add_option") {                 // option(kind, begin, end): length field = data size
        bytes b;
        if (!tr_hex(op[2], b)) return false;
        t.add_option(TCP::option(uint8_t(tr_num(op[1])), b.begin(), b.end()));
        return true;
    }
    if (n == 3 && op[0] == "add_option_copy") {            // the add_option(const option&) overload
        bytes b;
        if (!tr_hex(op[2], b)) return false;
        const TCP::option o(uint8_t(tr_num(op[1])), b.begin(), b.end());
        t.add_option(o);
        return true;
    }
    if (n == 3 && op[0] == "add_option_nodata") {          // option(kind, length) without data pointer
        t.add_option(TCP::option(uint8_t(tr_num(op[1])), size_t(tr_num(op[2]))));
        return true;
    }
    if (n == 4 && op[0] == "add_option_len") {             // option(kind, length, begin, end): spoofed length field
        bytes b;
        if (!tr_hex(op[3], b)) return false;
        t.add_option(TCP::option(uint8_t(tr_num(op[1])), uint16_t(tr_num(op[2])), b.begin(), b.end()));
        return true;
    }
    if (n != 2) return false;
    unsigned long long v = tr_num(op[1]);
    if (op[0] == "sport") { t.sport(uint16_t(v)); return true; }
    if (op[0] == "dport") { t.dport(uint16_t(v)); return true; }
    if (op[0] == "seq") { t.seq(uint32_t(v)); return true; }
    if (op[0] == "ack_seq") { t.ack_seq(uint32_t(v)); return true; }
    if (op[0] == "window") { t.window(uint16_t(v)); return true; }
    if (op[0] == "urg_ptr") { t.urg_ptr(uint16_t(v)); return true; }
    if (op[0] == "data_offset") { t.data_offset(uint8_t(v & 15)); return true; }
    if (op[0] == "flags") { t.flags(uint16_t(v & 0xfff)); return true; }
    if (op[0] == "mss") { t.mss(uint16_t(v)); return true; }
    if (op[0] == "winscale") { t.winscale(uint8_t(v)); return true; }
    if (op[0] == "altchecksum") { t.altchecksum(TCP::AltChecksums(uint8_t(v))); return true; }
    if (op[0] == "remove_option") { t.remove_option(TCP::OptionTypes(uint8_t(v))); return true; }
    return false;
}

inline bool transport_apply(PDU& p, const std::vector<std::string>& op) {
    if (p.pdu_type() == PDU::UDP && op.size() == 2) {
        UDP& u = static_cast<UDP&>(p);
        if (op[0] == "sport") { u.sport(uint16_t(std::stoul(op[1]))); return true; }
        if (op[0] == "dport") { u.dport(uint16_t(std::stoul(op[1]))); return true; }
        if (op[0] == "length") { u.length(uint16_t(std::stoul(op[1]))); return true; }
    }
    if (p.pdu_type() == PDU::TCP) return tcp_apply(static_cast<TCP&>(p), op);
    return false;
}

// read-only accessors that can fail: typed getters on every packet (option present or not, well-formed or not), every
// converter the typed getters use on every option present, search_option for every kind
inline bool transport_sweep(const PDU& p, std::string& out) {
    if (p.pdu_type() != PDU::TCP) return false;
    const TCP& t = static_cast<const TCP&>(p);
    sweep_item(out, "mss", [&] { t.mss(); });
    sweep_item(out, "winscale", [&] { t.winscale(); });
    sweep_item(out, "has_sack_permitted", [&] { t.has_sack_permitted(); });
    sweep_item(out, "sack", [&] { t.sack(); });
    sweep_item(out, "timestamp", [&] { t.timestamp(); });
    sweep_item(out, "altchecksum", [&] { t.altchecksum(); });
    sweep_item(out, "has_flags", [&] { t.has_flags(0xfff); });
    sweep_item(out, "search_option", [&] {
        for (unsigned k = 0; k < 256; ++k) {
            const TCP::option* o = t.search_option(TCP::OptionTypes(k));
            if (o && o->option() != k) throw std::logic_error("search_option returned another kind");
        }
    });
    for (TCP::options_type::const_iterator it = t.options().begin(); it != t.options().end(); ++it) {
        sweep_item(out, "opt.to_u8", [&] { it->to<uint8_t>(); });
        sweep_item(out, "opt.to_u16", [&] { it->to<uint16_t>(); });
        sweep_item(out, "opt.to_u32", [&] { it->to<uint32_t>(); });
        sweep_item(out, "opt.to_sack", [&] { it->to<TCP::sack_type>(); });
        sweep_item(out, "opt.to_pair32", [&] { it->to<std::pair<uint32_t, uint32_t> >(); });
    }
    return true;
}

} // namespace wire
