// Transport family (TCP, UDP, ICMP, ICMPv6, ICMP extensions) — modelled so far: UDP
#pragma once
#include "wire_iface.h"
namespace wire {

inline bool transport_dump(const PDU& p, std::string& out) {
    if (p.pdu_type() == PDU::UDP) {
        const UDP& u = static_cast<const UDP&>(p);
        out = FieldDump().num("sport", u.sport()).num("dport", u.dport()).num("~length", u.length())
                  .num("~checksum", u.checksum()).done();
        return true;
    }
    return false;
}

inline PDU* transport_mk(const std::string& cls, const std::vector<std::string>& a) {
    if (cls == "UDP") {
        if (a.size() == 2) return new UDP(uint16_t(std::stoul(a[0])), uint16_t(std::stoul(a[1])));
        return new UDP();
    }
    return 0;
}

inline bool transport_apply(PDU& p, const std::vector<std::string>& op) {
    if (p.pdu_type() == PDU::UDP && op.size() == 2) {
        UDP& u = static_cast<UDP&>(p);
        if (op[0] == "sport") { u.sport(uint16_t(std::stoul(op[1]))); return true; }
        if (op[0] == "dport") { u.dport(uint16_t(std::stoul(op[1]))); return true; }
        if (op[0] == "length") { u.length(uint16_t(std::stoul(op[1]))); return true; }
    }
    return false;
}

inline bool transport_sweep(const PDU&, std::string&) { return false; }

} // namespace wire
