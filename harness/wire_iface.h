// Interface between the central wire harness (wire_main.cpp) and the per-family files wire_<fam>.h.
// A family provides four functions (see wire_transport.h for the worked example):
//   bool <fam>_dump(const Tins::PDU& p, std::string& out)   fields of p as "name=value;name=value" in the SAME order
//        and with the SAME names/values as the Lean model's `fields` (prefix "~" = derived by libtins on
//        serialization: lengths, checksums, padding; prefix "^" = next-protocol tag); false if p is not a class of
//        this family that is modelled
//   Tins::PDU* <fam>_mk(const std::string& cls, const std::vector<std::string>& args)   public constructors; 0 if not mine
//   bool <fam>_apply(Tins::PDU& p, const std::vector<std::string>& op)   one API call (setter, add/remove option…);
//        false if not mine; libtins exceptions propagate
//   bool <fam>_sweep(const Tins::PDU& p, std::string& out)   read-only accessor sweep for C01 (typed option decoders,
//        searches…); appends "name:ok" / "name:throw:<exc>" items separated by ','; false if nothing to sweep
#pragma once
#include "common.h"
#include <tins/tins.h>
#include <tins/pdu_cacher.h>
#include <tins/loopback.h>
#include <tins/pktap.h>
#include <tins/ppi.h>
#include <tins/mpls.h>
#include <tins/vxlan.h>
#include <tins/rtp.h>
#include <tins/ipsec.h>
#include <tins/stp.h>
#include <tins/pppoe.h>
#include <tins/sll.h>
#include <tins/dot1q.h>
#include <tins/dhcpv6.h>
#include <tins/icmp_extension.h>

namespace wire {
using namespace Tins;
using vh::bytes;

inline std::string hex_of(const HWAddress<6>& a) { return vh::to_hex(a.begin(), 6); }
inline std::string hex_of(const IPv4Address& a) { uint32_t v = a; return vh::to_hex((const uint8_t*)&v, 4); }
inline std::string hex_of(const IPv6Address& a) { return vh::to_hex(a.begin(), 16); }

struct FieldDump {
    std::ostringstream o;
    bool first;
    FieldDump() : first(true) {}
    template <typename T> FieldDump& num(const char* name, T v) { sep(); o << name << "=" << (unsigned long long)v; return *this; }
    FieldDump& str(const char* name, const std::string& v) { sep(); o << name << "=" << v; return *this; }
    FieldDump& hex(const char* name, const uint8_t* p, size_t n) { sep(); o << name << "=" << vh::to_hex(p, n); return *this; }
    void sep() { if (!first) o << ";"; first = false; }
    std::string done() { return o.str(); }
};

// run an accessor, map the outcome to "name:ok" / "name:throw:<exc>"
template <typename F>
inline void sweep_item(std::string& out, const char* name, F f) {
    if (!out.empty()) out += ",";
    try { f(); out += std::string(name) + ":ok"; }
    catch (const std::exception& e) { out += std::string(name) + ":throw:" + vh::exc_name(e); }
}

} // namespace wire
