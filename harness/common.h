// Shared helpers for the correspondence harnesses: canonical hex / hash output, tokenising.
#pragma once
#include <cstdint>
#include <cstdio>
#include <cstdlib>
#include <cstring>
#include <iostream>
#include <sstream>
#include <string>
#include <typeinfo>
#include <vector>
#include <tins/exceptions.h>

namespace vh {

typedef std::vector<uint8_t> bytes;

inline int hexval(char c) {
    if (c >= '0' && c <= '9') return c - '0';
    if (c >= 'a' && c <= 'f') return c - 'a' + 10;
    if (c >= 'A' && c <= 'F') return c - 'A' + 10;
    return -1;
}

// "-" is the empty string. Returns an exact-size heap block (ASan red zone right after the end).
inline bool parse_hex(const std::string& s, bytes& out) {
    out.clear();
    if (s == "-") return true;
    if (s.size() % 2) return false;
    out.reserve(s.size() / 2);
    for (size_t i = 0; i < s.size(); i += 2) {
        int a = hexval(s[i]), b = hexval(s[i + 1]);
        if (a < 0 || b < 0) return false;
        out.push_back(uint8_t(a * 16 + b));
    }
    bytes exact(out.begin(), out.end());
    exact.shrink_to_fit();
    out.swap(exact);
    return true;
}

inline std::string to_hex(const uint8_t* p, size_t n) {
    if (n == 0) return "-";
    static const char* d = "0123456789abcdef";
    std::string s;
    s.reserve(n * 2);
    for (size_t i = 0; i < n; ++i) { s.push_back(d[p[i] >> 4]); s.push_back(d[p[i] & 15]); }
    return s;
}
inline std::string to_hex(const bytes& b) { return to_hex(b.data(), b.size()); }

inline uint64_t fnv(const uint8_t* p, size_t n) {
    uint64_t h = 14695981039346656037ULL;
    for (size_t i = 0; i < n; ++i) { h ^= p[i]; h *= 1099511628211ULL; }
    return h;
}
inline uint64_t fnv(const bytes& b) { return fnv(b.data(), b.size()); }

inline std::vector<std::string> words(const std::string& line) {
    std::vector<std::string> w;
    std::istringstream is(line);
    std::string t;
    while (is >> t) w.push_back(t);
    return w;
}

// libtins exception kind -> the model's Exc enum name
inline std::string exc_name(const std::exception& e) {
    using namespace Tins;
    if (dynamic_cast<const dns_decompression_pointer_loops*>(&e)) return "dns_decompression_pointer_loops";
    if (dynamic_cast<const dns_decompression_pointer_out_of_bounds*>(&e)) return "dns_decompression_pointer_out_of_bounds";
    if (dynamic_cast<const malformed_packet*>(&e)) return "malformed_packet";
    if (dynamic_cast<const option_not_found*>(&e)) return "option_not_found";
    if (dynamic_cast<const malformed_option*>(&e)) return "malformed_option";
    if (dynamic_cast<const serialization_error*>(&e)) return "serialization_error";
    if (dynamic_cast<const pdu_not_found*>(&e)) return "pdu_not_found";
    if (dynamic_cast<const field_not_present*>(&e)) return "field_not_present";
    if (dynamic_cast<const invalid_address*>(&e)) return "invalid_address";
    if (dynamic_cast<const option_payload_too_large*>(&e)) return "option_payload_too_large";
    if (dynamic_cast<const invalid_domain_name*>(&e)) return "invalid_domain_name";
    if (dynamic_cast<const invalid_option_value*>(&e)) return "invalid_option_value";
    if (dynamic_cast<const pdu_not_serializable*>(&e)) return "pdu_not_serializable";
    if (dynamic_cast<const bad_tins_cast*>(&e)) return "bad_tins_cast";
    if (dynamic_cast<const exception_base*>(&e)) return std::string("tins:") + typeid(e).name();
    return std::string("std:") + typeid(e).name();
}

// main loop: one result line per input line, flushed so a crash is attributed to the right op
template <typename F>
int line_loop(F step) {
    std::string line;
    while (std::getline(std::cin, line)) {
        std::string out;
        try {
            out = step(line);
        } catch (const std::exception& e) {
            out = "throw " + exc_name(e);
        }
        std::cout << out << "\n" << std::flush;
    }
    return 0;
}

} // namespace vh
