// C18 correspondence harness — independent objects used from different threads.
//
// Line protocol (one result line per op line):
//   case <id> [eth:<n>|ip:<n>]...          -> "case"                       (forgets registered workloads; the listed user
//        allocators are registered, in that order, as described under `reg`)
//   w <tid> crc <iters> <hex>
//   w <tid> <kind> <iters> <seed> [alone=] kind in parse|build|copy|addr|reasm|follow|wep|wpa2
//        registers a workload.  Default mode: -> "w <tid> reg" (nothing is executed yet).
//        argv[1] == "alone": the workload is executed right away on the only thread of the process
//        -> "w <tid> seq=<digest>" (crc: the CRC-32 in decimal) — "the same calls run alone", the reference.
//   go <yseed> <reps>                      -> "go conc=<d0>,<d1>,… seq=<s0>,<s1>,… races=<n>"   ("go skipped" in alone mode)
//        in a forked child (fresh statics: the parent never executes libtins code, so lazily initialised state is
//        initialised inside the concurrent run) every registered workload runs on its own thread, all threads
//        released together, random yields between iterations (seeded by yseed, thread index and repetition);
//        repeated <reps> times.  d_i is the digest thread i obtained (MIXED:<a>/<b> if repetitions disagree);
//        s_i is the digest of the same workload executed once more afterwards on a single thread of that process.
//        races = ThreadSanitizer reports raised during the op.
//   reg <eth|ip> <id>                      -> "reg <fam> <id>"   (before the first `w` of the case) a user allocator for that ether type /
//        IP protocol is registered — in the forked `go` child on its main thread before any thread is created and with no
//        parse in between (and in the child of every run-alone `w` of the case); k-th registration of a family uses UserPDU<k>
//   round-2 kinds: user flag fcs cksum addrio dns opts rtap dot11 serall ack tkip ccmp
//   selftest                               -> "selftest races=<n>"        deliberate race inside the harness (n must be > 0 under TSan)
//   stat <kind> <iters> <seed>             -> "stat <digest> <counter>=<n> …"  what a workload exercises (evidence)
//
// All objects are created inside the workload function: nothing libtins-related is shared between threads by the harness.
#include "common.h"
#include <tins/tins.h>
#include <tins/tcp_ip/stream_follower.h>
#include <tins/ip_reassembler.h>
#include <tins/tcp_ip/ack_tracker.h>
#include <tins/detail/pdu_helpers.h>
#include <tins/pdu_allocator.h>
#include <tins/loopback.h>
#include <sstream>
#include <atomic>
#include <thread>
#include <functional>
#include <algorithm>
#include <map>
#include <sched.h>
#include <unistd.h>
#include <sys/wait.h>
#include <time.h>

using namespace Tins;
using vh::bytes;

static std::atomic<int> g_reports(0);
// ThreadSanitizer calls this (weak in the runtime) for every report it prints
extern "C" void __tsan_on_report(void*) { g_reports.fetch_add(1); }

namespace {

struct Rng {
    uint64_t s;
    explicit Rng(uint64_t seed) : s(seed * 0x9E3779B97F4A7C15ULL + 0x1234567ULL) {}
    uint64_t next() {
        uint64_t z = (s += 0x9E3779B97F4A7C15ULL);
        z = (z ^ (z >> 30)) * 0xBF58476D1CE4E5B9ULL;
        z = (z ^ (z >> 27)) * 0x94D049BB133111EBULL;
        return z ^ (z >> 31);
    }
    uint32_t below(uint32_t n) { return n ? uint32_t(next() % n) : 0; }
    uint32_t range(uint32_t lo, uint32_t hi) { return lo + below(hi - lo + 1); }
    bool chance(uint32_t num, uint32_t den) { return below(den) < num; }
    bytes blob(size_t n) { bytes b(n); for (size_t i = 0; i < n; ++i) b[i] = uint8_t(next()); return b; }
};

struct Dig {
    uint64_t h;
    Dig() : h(14695981039346656037ULL) {}
    void byte(uint8_t b) { h ^= b; h *= 1099511628211ULL; }
    void raw(const uint8_t* p, size_t n) { for (size_t i = 0; i < n; ++i) byte(p[i]); }
    void u(uint64_t v) { for (int i = 0; i < 8; ++i) byte(uint8_t(v >> (8 * i))); }
    void str(const std::string& s) { u(s.size()); raw(reinterpret_cast<const uint8_t*>(s.data()), s.size()); }
    void buf(const bytes& b) { u(b.size()); raw(b.data(), b.size()); }
    std::string hex() const { char t[20]; snprintf(t, sizeof t, "%016llx", (unsigned long long)h); return t; }
};

// random yields between the iterations of a workload (never inside a libtins call)
struct Yielder {
    Rng rng;
    bool on;
    std::map<std::string, unsigned>* stats;      // only for the `stat` op (main thread): what the workload exercised
    Yielder(uint64_t seed, bool on) : rng(seed), on(on), stats(0) {}
    void note(const char* what, unsigned n = 1) { if (stats) (*stats)[what] += n; }
    void maybe() {
        if (!on) return;
        uint32_t r = rng.below(8);
        if (r == 0) sched_yield();
        else if (r == 1) { timespec ts = {0, long(1000 * (1 + rng.below(60)))}; nanosleep(&ts, 0); }
        else if (r == 2) { volatile unsigned spin = rng.below(2000); while (spin) --spin; }
    }
};

bytes unhex(const char* h) { bytes b; vh::parse_hex(h, b); return b; }

// ------------------------------------------------------------------ reference primitives (independent of libtins)

uint32_t ref_crc32(const bytes& d) {            // IEEE 802.3 CRC-32, bit by bit
    uint32_t c = 0xFFFFFFFFu;
    for (size_t i = 0; i < d.size(); ++i) {
        c ^= d[i];
        for (int k = 0; k < 8; ++k) c = (c >> 1) ^ ((c & 1) ? 0xEDB88320u : 0);
    }
    return ~c;
}

void ref_rc4(const bytes& key, bytes& data) {
    uint8_t S[256];
    for (int i = 0; i < 256; ++i) S[i] = uint8_t(i);
    for (int i = 0, j = 0; i < 256; ++i) { j = (j + S[i] + key[i % key.size()]) & 255; std::swap(S[i], S[j]); }
    int i = 0, j = 0;
    for (size_t n = 0; n < data.size(); ++n) {
        i = (i + 1) & 255; j = (j + S[i]) & 255; std::swap(S[i], S[j]);
        data[n] ^= S[(S[i] + S[j]) & 255];
    }
}

// ------------------------------------------------------------------ digesting PDUs

void digest_chain(Dig& d, PDU& p) {
    for (PDU* q = &p; q; q = q->inner_pdu()) { d.u(q->pdu_type()); d.u(q->header_size()); d.u(q->trailer_size()); }
    try { bytes b = p.serialize(); d.buf(b); }
    catch (const std::exception& e) { d.str("ser:" + vh::exc_name(e)); }
}

void digest_dns(Dig& d, const DNS& dns) {
    d.u(dns.id()); d.u(dns.questions_count()); d.u(dns.answers_count());
    try {
        DNS::queries_type qs = dns.queries();
        for (DNS::queries_type::const_iterator it = qs.begin(); it != qs.end(); ++it) { d.str(it->dname()); d.u(it->query_type()); }
        DNS::resources_type rs = dns.answers();
        for (DNS::resources_type::const_iterator it = rs.begin(); it != rs.end(); ++it) { d.str(it->dname()); d.str(it->data()); d.u(it->ttl()); }
    } catch (const std::exception& e) { d.str("dns:" + vh::exc_name(e)); }
}

// ------------------------------------------------------------------ packet builders (thread-private objects only)

HWAddress<6> rnd_hw(Rng& r) { bytes b = r.blob(6); b[0] &= 0xfe; return HWAddress<6>(b.data()); }
IPv4Address rnd_v4(Rng& r) { return IPv4Address(uint32_t(r.next())); }
IPv6Address rnd_v6(Rng& r) { bytes b = r.blob(16); return IPv6Address(b.data()); }

std::string rnd_name(Rng& r) {
    std::string s;
    int labels = 1 + r.below(4);
    for (int i = 0; i < labels; ++i) {
        if (i) s += '.';
        int n = 1 + r.below(9);
        for (int k = 0; k < n; ++k) s += char('a' + r.below(26));
    }
    return s;
}

bytes build_frame(Rng& r, int kind, int* link) {
    *link = 0;      // 0 = EthernetII, 1 = RadioTap, 2 = Dot3, 3 = bare IP, 4 = bare IPv6
    switch (kind % 12) {
    case 10: {  // unknown ether type / unknown IP protocol: the parser consults the (empty) user allocator registries
        EthernetII eth = EthernetII(rnd_hw(r), rnd_hw(r)) / RawPDU(r.blob(r.range(1, 40)));
        eth.payload_type(uint16_t(0x88b5 + r.below(2)));
        return eth.serialize();
    }
    case 11: {
        IP ip(rnd_v4(r), rnd_v4(r));
        ip.protocol(uint8_t(253 + r.below(2)));
        if (r.chance(1, 2)) {
            EthernetII eth = EthernetII(rnd_hw(r), rnd_hw(r)) / ip / RawPDU(r.blob(r.range(1, 40)));
            return eth.serialize();
        }
        IPv6 v6(rnd_v6(r), rnd_v6(r));
        v6.next_header(uint8_t(253 + r.below(2)));
        EthernetII eth = EthernetII(rnd_hw(r), rnd_hw(r)) / v6 / RawPDU(r.blob(r.range(1, 40)));
        return eth.serialize();
    }
    case 0: {   // Ethernet / IP / TCP with options / payload
        TCP tcp(uint16_t(r.next()), uint16_t(r.next()));
        tcp.seq(uint32_t(r.next())); tcp.ack_seq(uint32_t(r.next())); tcp.window(uint16_t(r.next()));
        tcp.flags(uint8_t(r.below(64)));
        if (r.chance(1, 2)) tcp.mss(uint16_t(r.range(500, 1460)));
        if (r.chance(1, 2)) tcp.winscale(uint8_t(r.below(15)));
        if (r.chance(1, 2)) tcp.sack_permitted();
        if (r.chance(1, 2)) tcp.timestamp(uint32_t(r.next()), uint32_t(r.next()));
        if (r.chance(1, 3)) { TCP::sack_type sk; sk.push_back(uint32_t(r.next())); sk.push_back(uint32_t(r.next())); tcp.sack(sk); }
        IP ip(rnd_v4(r), rnd_v4(r));
        ip.ttl(uint8_t(r.range(1, 255))); ip.id(uint16_t(r.next())); ip.tos(uint8_t(r.next()));
        EthernetII eth = EthernetII(rnd_hw(r), rnd_hw(r)) / ip / tcp / RawPDU(r.blob(r.below(64)));
        return eth.serialize();
    }
    case 1: {   // Ethernet / IP / UDP / DNS
        DNS dns;
        dns.id(uint16_t(r.next())); dns.type(r.chance(1, 2) ? DNS::RESPONSE : DNS::QUERY); dns.recursion_desired(1);
        int nq = 1 + r.below(2);
        std::string first;
        for (int i = 0; i < nq; ++i) { std::string n = rnd_name(r); if (i == 0) first = n; dns.add_query(DNS::query(n, DNS::A, DNS::INTERNET)); }
        int na = r.below(4);
        for (int i = 0; i < na; ++i) {
            if (r.chance(1, 2)) dns.add_answer(DNS::resource(first, rnd_v4(r).to_string(), DNS::A, DNS::INTERNET, uint32_t(r.below(100000))));
            else dns.add_answer(DNS::resource(rnd_name(r), rnd_name(r), DNS::CNAME, DNS::INTERNET, uint32_t(r.below(100000))));
        }
        EthernetII eth = EthernetII(rnd_hw(r), rnd_hw(r)) / IP(rnd_v4(r), rnd_v4(r)) / UDP(53, uint16_t(r.range(1024, 65535))) / dns;
        return eth.serialize();
    }
    case 2: {   // Ethernet / IPv6 / ICMPv6 with options
        ICMPv6 icmp(r.chance(1, 2) ? ICMPv6::NEIGHBOUR_SOLICIT : ICMPv6::ROUTER_ADVERT);
        if (icmp.type() == ICMPv6::NEIGHBOUR_SOLICIT) icmp.target_addr(rnd_v6(r));
        icmp.source_link_layer_addr(rnd_hw(r));
        if (r.chance(1, 2)) icmp.mtu(ICMPv6::mtu_type(0, uint32_t(r.range(1280, 9000))));
        EthernetII eth = EthernetII(rnd_hw(r), rnd_hw(r)) / IPv6(rnd_v6(r), rnd_v6(r)) / icmp;
        return eth.serialize();
    }
    case 3: {   // RadioTap / Dot11 beacon
        Dot11Beacon b;
        b.addr1(Dot11::BROADCAST); b.addr2(rnd_hw(r)); b.addr3(b.addr2());
        b.ssid(rnd_name(r)); b.ds_parameter_set(uint8_t(r.range(1, 13)));
        Dot11ManagementFrame::rates_type rates; rates.push_back(1.0f); rates.push_back(5.5f); rates.push_back(11.0f);
        b.supported_rates(rates);
        if (r.chance(1, 2)) b.rsn_information(RSNInformation::wpa2_psk());
        b.interval(uint16_t(r.next())); b.timestamp(r.next());
        RadioTap rt;
        rt.channel(uint16_t(2412 + 5 * r.below(13)), 0x00a0);
        rt.dbm_signal(int8_t(-(int)r.range(20, 90)));
        if (r.chance(1, 2)) rt.rate(uint8_t(r.range(2, 108)));
        if (r.chance(1, 2)) rt.antenna(uint8_t(r.below(4)));
        rt.inner_pdu(b);
        *link = 1;
        return rt.serialize();
    }
    case 4: {   // Ethernet / IP / UDP / DHCP
        DHCP dhcp;
        dhcp.opcode(BootP::BOOTREQUEST); dhcp.xid(uint32_t(r.next())); dhcp.chaddr(rnd_hw(r));
        dhcp.type(r.chance(1, 2) ? DHCP::DISCOVER : DHCP::REQUEST);
        if (r.chance(1, 2)) dhcp.requested_ip(rnd_v4(r));
        if (r.chance(1, 2)) dhcp.hostname(rnd_name(r));
        if (r.chance(1, 2)) dhcp.lease_time(uint32_t(r.next()));
        dhcp.end();
        EthernetII eth = EthernetII(EthernetII::BROADCAST, rnd_hw(r)) / IP("255.255.255.255", "0.0.0.0") / UDP(67, 68) / dhcp;
        return eth.serialize();
    }
    case 5: {   // Dot3 / LLC / STP-ish payload
        LLC llc(0x42, 0x42);
        llc.type(LLC::UNNUMBERED); llc.modifier_function(LLC::UI);
        Dot3 d3 = Dot3(rnd_hw(r), rnd_hw(r)) / llc / RawPDU(r.blob(35));
        *link = 2;
        return d3.serialize();
    }
    case 6: {   // Ethernet / Dot1Q / IP / ICMP
        ICMP icmp(r.chance(1, 2) ? ICMP::ECHO_REQUEST : ICMP::ECHO_REPLY);
        icmp.id(uint16_t(r.next())); icmp.sequence(uint16_t(r.next()));
        EthernetII eth = EthernetII(rnd_hw(r), rnd_hw(r)) / Dot1Q(uint16_t(r.below(4096))) / IP(rnd_v4(r), rnd_v4(r)) / icmp / RawPDU(r.blob(r.below(48)));
        return eth.serialize();
    }
    case 7: {   // Ethernet / ARP
        EthernetII eth = r.chance(1, 2) ? ARP::make_arp_request(rnd_v4(r), rnd_v4(r), rnd_hw(r))
                                        : ARP::make_arp_reply(rnd_v4(r), rnd_v4(r), rnd_hw(r), rnd_hw(r));
        return eth.serialize();
    }
    case 8: {   // bare IP with options / UDP
        IP ip(rnd_v4(r), rnd_v4(r));
        if (r.chance(1, 2)) ip.add_option(IP::option(IP::option_identifier(IP::NOOP, IP::CONTROL, 0)));
        ip.ttl(uint8_t(r.range(1, 255)));
        IP pkt = ip / UDP(uint16_t(r.next()), uint16_t(r.next())) / RawPDU(r.blob(r.below(40)));
        *link = 3;
        return pkt.serialize();
    }
    default: {  // bare IPv6 / TCP
        IPv6 pkt = IPv6(rnd_v6(r), rnd_v6(r)) / TCP(uint16_t(r.next()), uint16_t(r.next())) / RawPDU(r.blob(r.below(40)));
        pkt.hop_limit(uint8_t(r.range(1, 255)));
        *link = 4;
        return pkt.serialize();
    }
    }
}

PDU* parse_link(int link, const bytes& b) {
    switch (link) {
    case 1: return new RadioTap(b.data(), uint32_t(b.size()));
    case 2: return new Dot3(b.data(), uint32_t(b.size()));
    case 3: return new IP(b.data(), uint32_t(b.size()));
    case 4: return new IPv6(b.data(), uint32_t(b.size()));
    default: return new EthernetII(b.data(), uint32_t(b.size()));
    }
}

// ------------------------------------------------------------------ workloads

typedef std::function<std::string(uint32_t iters, uint64_t seed, Yielder& y)> workload_fn;

// parse: frames built through the API, serialised, lightly mutated, parsed again, looked into, re-serialised
std::string wl_parse(uint32_t iters, uint64_t seed, Yielder& y) {
    Dig d; Rng r(seed);
    for (uint32_t it = 0; it < iters; ++it) {
        int link;
        bytes b;
        int kind = int(r.below(12));
        try { b = build_frame(r, kind, &link); }
        catch (const std::exception& e) { d.str("build:" + vh::exc_name(e)); y.maybe(); continue; }
        // mutate the payload end of the frame, or truncate it (DNS payloads rarely: their decoder has known
        // memory-safety defects that belong to C01/C10 and make a run irreproducible)
        if (r.chance(1, kind == 1 ? 40 : 3) && b.size() > 30) {
            if (r.chance(1, 2)) b[b.size() - 1 - r.below(8)] ^= uint8_t(1 << r.below(8));
            else b.resize(b.size() - r.below(6));
            bytes exact(b.begin(), b.end()); b.swap(exact);
            y.note("parse:mutated-input");
        }
        try {
            PDU* p = parse_link(link, b);
            y.note("parse:ok");
            digest_chain(d, *p);
            if (const RawPDU* raw = p->find_pdu<RawPDU>()) {
                const UDP* udp = p->find_pdu<UDP>();
                if (udp && (udp->sport() == 53 || udp->dport() == 53)) {
                    try { DNS dns = raw->to<DNS>(); digest_dns(d, dns); y.note("parse:dns-decoded"); }
                    catch (const std::exception& e) { d.str("dns:" + vh::exc_name(e)); }
                }
            }
            if (const TCP* tcp = p->find_pdu<TCP>()) {
                try { d.u(tcp->mss()); } catch (const std::exception& e) { d.str(vh::exc_name(e)); }
                try { TCP::sack_type s = tcp->sack(); d.u(s.size()); } catch (const std::exception& e) { d.str(vh::exc_name(e)); }
            }
            if (const Dot11Beacon* bc = p->find_pdu<Dot11Beacon>()) {
                try { d.str(bc->ssid()); } catch (const std::exception& e) { d.str(vh::exc_name(e)); }
                try { RSNInformation rsn = bc->rsn_information(); d.u(rsn.version()); } catch (const std::exception& e) { d.str(vh::exc_name(e)); }
            }
            if (const RadioTap* rt = p->find_pdu<RadioTap>()) {
                try { d.u(rt->channel_freq()); d.u(uint8_t(rt->dbm_signal())); } catch (const std::exception& e) { d.str(vh::exc_name(e)); }
            }
            if (const DHCP* dh = p->find_pdu<DHCP>()) {
                try { d.u(dh->type()); } catch (const std::exception& e) { d.str(vh::exc_name(e)); }
                try { d.str(dh->hostname()); } catch (const std::exception& e) { d.str(vh::exc_name(e)); }
            }
            delete p;
        } catch (const std::exception& e) { d.str("parse:" + vh::exc_name(e)); y.note("parse:threw"); }
        y.maybe();
    }
    return d.hex();
}

// build: construct, serialise (derived fields, checksums, FCS)
std::string wl_build(uint32_t iters, uint64_t seed, Yielder& y) {
    Dig d; Rng r(seed);
    for (uint32_t it = 0; it < iters; ++it) {
        int link;
        try { bytes b = build_frame(r, int(it), &link); d.buf(b); y.note("build:serialized"); }
        catch (const std::exception& e) { d.str("build:" + vh::exc_name(e)); }
        y.maybe();
    }
    return d.hex();
}

// copy: clone / copy-construct / assign / re-link, then serialise every copy
std::string wl_copy(uint32_t iters, uint64_t seed, Yielder& y) {
    Dig d; Rng r(seed);
    for (uint32_t it = 0; it < iters; ++it) {
        try {
            int link;
            bytes b = build_frame(r, int(r.below(12)), &link);
            PDU* p = parse_link(link, b);
            PDU* c = p->clone();
            digest_chain(d, *c);
            y.note("copy:cloned");
            if (EthernetII* e = dynamic_cast<EthernetII*>(p)) {
                EthernetII copy(*e);
                EthernetII assigned;
                assigned = copy;
                assigned.src_addr(rnd_hw(r));
                digest_chain(d, assigned);
                if (PDU* inner = copy.release_inner_pdu()) {
                    EthernetII other = EthernetII() / *inner;
                    digest_chain(d, other);
                    delete inner;
                    y.note("copy:relinked");
                }
            }
            delete c;
            delete p;
        } catch (const std::exception& e) { d.str("copy:" + vh::exc_name(e)); y.note("copy:threw"); }
        y.maybe();
    }
    return d.hex();
}

// addr: address classes — text conversion, classification against the namespace-scope constant ranges, ranges
std::string wl_addr(uint32_t iters, uint64_t seed, Yielder& y) {
    Dig d; Rng r(seed);
    for (uint32_t it = 0; it < iters; ++it) {
        try {
            IPv4Address a = r.chance(1, 4) ? IPv4Address(Endian::host_to_be(uint32_t(0x0a000000u | r.below(1 << 24)))) : rnd_v4(r);
            if (r.chance(1, 16)) a = IPv4Address::broadcast;
            std::string s = a.to_string();
            d.str(s);
            IPv4Address back(s);
            d.u(uint32_t(back));
            d.u((a.is_private() ? 1 : 0) | (a.is_loopback() ? 2 : 0) | (a.is_multicast() ? 4 : 0) | (a.is_unicast() ? 8 : 0) | (a.is_broadcast() ? 16 : 0));
            IPv6Address b = rnd_v6(r);
            if (r.chance(1, 4)) b = IPv6Address("ff02::1");
            if (r.chance(1, 8)) b = IPv6Address("::1");
            std::string s6 = b.to_string();
            d.str(s6);
            IPv6Address back6(s6);
            d.raw(back6.begin(), 16);
            d.u((b.is_loopback() ? 1 : 0) | (b.is_multicast() ? 2 : 0) | (b.is_local_unicast() ? 4 : 0));
            HWAddress<6> h = r.chance(1, 8) ? HWAddress<6>::broadcast : rnd_hw(r);
            std::string hs = h.to_string();
            d.str(hs);
            HWAddress<6> hb(hs);
            d.u((hb == h ? 1 : 0) | (h.is_broadcast() ? 2 : 0) | (h.is_multicast() ? 4 : 0) | (h.is_unicast() ? 8 : 0));
            IPv4Range rg = a / 28;
            uint32_t n = 0;
            for (IPv4Range::const_iterator i = rg.begin(); i != rg.end() && n < 40; ++i, ++n) d.u(uint32_t(*i));
            d.u(rg.contains(a) ? 1 : 0);
            y.note("addr:iterations");
            if (a.is_private()) y.note("addr:private-v4");
            if (b.is_multicast()) y.note("addr:multicast-v6");
        } catch (const std::exception& e) { d.str("addr:" + vh::exc_name(e)); }
        y.maybe();
    }
    return d.hex();
}

// reasm: IPv4 fragments of one datagram in a random order through a thread-private reassembler
std::string wl_reasm(uint32_t iters, uint64_t seed, Yielder& y) {
    Dig d; Rng r(seed);
    IPv4Reassembler reasm;
    for (uint32_t it = 0; it < iters; ++it) {
        try {
            bytes payload = r.blob(8 * r.range(3, 40) + r.below(8));
            IPv4Address src = rnd_v4(r), dst = rnd_v4(r);
            uint16_t id = uint16_t(r.next());
            std::vector<std::pair<uint32_t, uint32_t> > cuts;     // (offset, len), offsets multiple of 8
            uint32_t off = 0;
            while (off < payload.size()) {
                uint32_t len = 8 * r.range(1, 6);
                if (off + len > payload.size()) len = uint32_t(payload.size()) - off;
                cuts.push_back(std::make_pair(off, len));
                off += len;
            }
            for (size_t i = cuts.size(); i > 1; --i) std::swap(cuts[i - 1], cuts[r.below(uint32_t(i))]);
            for (size_t i = 0; i < cuts.size(); ++i) {
                IP ip(dst, src);
                ip.id(id); ip.protocol(17);
                bool last = cuts[i].first + cuts[i].second == payload.size();
                ip.fragment_offset(small_uint<13>(cuts[i].first / 8));
                ip.flags(last ? IP::Flags(0) : IP::MORE_FRAGMENTS);
                IP pkt = ip / RawPDU(payload.begin() + cuts[i].first, payload.begin() + cuts[i].first + cuts[i].second);
                // through the wire format, as a sniffer would deliver it
                bytes wire = pkt.serialize();
                IP parsed(wire.data(), uint32_t(wire.size()));
                IPv4Reassembler::PacketStatus st = reasm.process(parsed);
                d.u(st);
                y.note("reasm:fragments");
                if (st == IPv4Reassembler::REASSEMBLED) { digest_chain(d, parsed); y.note("reasm:reassembled"); }
            }
        } catch (const std::exception& e) { d.str("reasm:" + vh::exc_name(e)); }
        y.maybe();
    }
    return d.hex();
}

// follow: a TCP conversation (handshake, both directions, out-of-order and duplicate segments, FIN) through a
// thread-private StreamFollower; digests what the data callbacks deliver
struct FollowSink {
    Dig* d;
    Yielder* y;
    void on_client(TCPIP::Stream& s) { d->str("c"); d->buf(s.client_payload()); y->note("follow:client-bytes", unsigned(s.client_payload().size())); }
    void on_server(TCPIP::Stream& s) { d->str("s"); d->buf(s.server_payload()); y->note("follow:server-bytes", unsigned(s.server_payload().size())); }
    void on_closed(TCPIP::Stream&) { d->str("closed"); y->note("follow:closed"); }
    void on_new(TCPIP::Stream& s) {
        using std::placeholders::_1;
        d->str("new");
        s.client_data_callback(std::bind(&FollowSink::on_client, this, _1));
        s.server_data_callback(std::bind(&FollowSink::on_server, this, _1));
        s.stream_closed_callback(std::bind(&FollowSink::on_closed, this, _1));
    }
};

std::string wl_follow(uint32_t iters, uint64_t seed, Yielder& y) {
    using std::placeholders::_1;
    Dig d; Rng r(seed);
    FollowSink sink; sink.d = &d; sink.y = &y;
    TCPIP::StreamFollower follower;
    follower.new_stream_callback(std::bind(&FollowSink::on_new, &sink, _1));
    for (uint32_t it = 0; it < iters; ++it) {
        try {
            IPv4Address ca = rnd_v4(r), sa = rnd_v4(r);
            uint16_t cp = uint16_t(r.range(1024, 65535)), sp = uint16_t(r.range(1, 1023));
            uint32_t cseq = r.chance(1, 3) ? uint32_t(0xffffffffu - r.below(64)) : uint32_t(r.next());
            uint32_t sseq = uint32_t(r.next());
            std::vector<EthernetII> pk;
            EthernetII syn = EthernetII() / IP(sa, ca) / TCP(sp, cp);
            syn.rfind_pdu<TCP>().flags(TCP::SYN); syn.rfind_pdu<TCP>().seq(cseq);
            EthernetII synack = EthernetII() / IP(ca, sa) / TCP(cp, sp);
            synack.rfind_pdu<TCP>().flags(TCP::SYN | TCP::ACK); synack.rfind_pdu<TCP>().seq(sseq); synack.rfind_pdu<TCP>().ack_seq(cseq + 1);
            EthernetII ack = EthernetII() / IP(sa, ca) / TCP(sp, cp);
            ack.rfind_pdu<TCP>().flags(TCP::ACK); ack.rfind_pdu<TCP>().seq(cseq + 1); ack.rfind_pdu<TCP>().ack_seq(sseq + 1);
            follower.process_packet(syn); follower.process_packet(synack); follower.process_packet(ack);
            for (int dir = 0; dir < 2; ++dir) {
                bytes data = r.blob(r.range(1, 300));
                std::vector<std::pair<uint32_t, uint32_t> > cuts;
                uint32_t off = 0;
                while (off < data.size()) {
                    uint32_t len = r.range(1, 60);
                    if (off + len > data.size()) len = uint32_t(data.size()) - off;
                    cuts.push_back(std::make_pair(off, len));
                    off += len;
                }
                size_t n0 = cuts.size();
                for (size_t i = 0; i < n0; ++i) if (r.chance(1, 5)) cuts.push_back(cuts[i]);        // duplicates
                for (size_t i = cuts.size(); i > 1; --i) if (r.chance(1, 2)) std::swap(cuts[i - 1], cuts[r.below(uint32_t(i))]);
                for (size_t i = 0; i < cuts.size(); ++i) {
                    EthernetII seg = dir == 0 ? EthernetII() / IP(sa, ca) / TCP(sp, cp) : EthernetII() / IP(ca, sa) / TCP(cp, sp);
                    TCP& t = seg.rfind_pdu<TCP>();
                    t.flags(TCP::ACK | TCP::PSH);
                    t.seq((dir == 0 ? cseq : sseq) + 1 + cuts[i].first);
                    t.inner_pdu(RawPDU(data.begin() + cuts[i].first, data.begin() + cuts[i].first + cuts[i].second));
                    follower.process_packet(seg);
                }
                EthernetII fin = dir == 0 ? EthernetII() / IP(sa, ca) / TCP(sp, cp) : EthernetII() / IP(ca, sa) / TCP(cp, sp);
                fin.rfind_pdu<TCP>().flags(TCP::FIN | TCP::ACK);
                fin.rfind_pdu<TCP>().seq((dir == 0 ? cseq : sseq) + 1 + uint32_t(data.size()));
                follower.process_packet(fin);
            }
        } catch (const std::exception& e) { d.str("follow:" + vh::exc_name(e)); }
        y.maybe();
    }
    return d.hex();
}

// wep: frames encrypted with the reference RC4 / CRC-32 above, decrypted by a thread-private WEPDecrypter
std::string wl_wep(uint32_t iters, uint64_t seed, Yielder& y) {
    Dig d; Rng r(seed);
    Crypto::WEPDecrypter dec;
    HWAddress<6> bssid = rnd_hw(r);
    bytes key = r.blob(r.chance(1, 2) ? 5 : 13);
    dec.add_password(bssid, std::string(key.begin(), key.end()));
    for (uint32_t it = 0; it < iters; ++it) {
        try {
            SNAP snap = SNAP() / ARP(rnd_v4(r), rnd_v4(r), rnd_hw(r), rnd_hw(r));
            bytes plain = snap.serialize();
            uint32_t icv = ref_crc32(plain);
            bytes body(plain);
            for (int i = 0; i < 4; ++i) body.push_back(uint8_t(icv >> (8 * i)));
            bytes iv = r.blob(3);
            bytes k(iv); k.insert(k.end(), key.begin(), key.end());
            bool wrong = r.chance(1, 5);
            if (wrong) k[3] ^= 0x40;                    // encrypted under another key: must not decrypt
            ref_rc4(k, body);
            bytes pl(iv); pl.push_back(0); pl.insert(pl.end(), body.begin(), body.end());
            Dot11Data frame;
            frame.from_ds(1); frame.wep(1);
            frame.addr1(rnd_hw(r)); frame.addr2(bssid); frame.addr3(rnd_hw(r));
            frame.inner_pdu(RawPDU(pl));
            bytes wire = frame.serialize();
            Dot11Data parsed(wire.data(), uint32_t(wire.size()));
            bool ok = dec.decrypt(parsed);
            d.u(ok ? 1 : 0); d.u(wrong ? 1 : 0);
            y.note(ok ? "wep:decrypted" : "wep:rejected");
            if (ok == wrong) y.note("wep:UNEXPECTED");
            digest_chain(d, parsed);
            if (const ARP* arp = parsed.find_pdu<ARP>()) d.str(arp->sender_ip_addr().to_string());
        } catch (const std::exception& e) { d.str("wep:" + vh::exc_name(e)); }
        y.maybe();
    }
    return d.hex();
}

// captured frames copied from the repo's tests/src/wpa2_decrypt_test.cpp (aircrack-ng sample captures)
static const char* const CCMP_PACKETS[] = {
    "000018008e58000010026c09a0006000002a0000477b930980000000ffffffffffff000c4182b255000c4182b25580fc86e12a1c0100000064001104"
    "0007436f6865726572010882848b962430486c0301010504000100002a01022f010230180100000fac020200000fac04000fac020100000fac020000"
    "32040c121860dd06001018020004dd1c0050f20101000050f20202000050f2040050f20201000050f2020000477b9309",
    "000018008e580000106c6c09c000640000270000b7084b7008022c00000d9382363a000c4182b255000c4182b255b0fcaaaa03000000888e02030075"
    "02008a001000000000000000003e8e967dacd960324cac5b6aa721235bf57b949771c867989f49d04ed47c6933000000000000000000000000000000"
    "0000000000000000000000000000000000000000000000000000000000000000000016dd14000fac04592da88096c461da246c69001e877f3db7084b"
    "70",
    "000018008e580000106c6c09c0006400003800008a0b2ef708012c00000c4182b255000d9382363a000c4182b2559001aaaa03000000888e02030075"
    "02010a00100000000000000000cdf405ceb9d889ef3dec42609828fae546b7add7baecbb1a394eac5214b1d386000000000000000000000000000000"
    "0000000000000000000000000000000000a462a7029ad5ba30b6af0df391988e45001630140100000fac020100000fac040100000fac0200008a0b2e"
    "f7",
    "000018008e580000106c6c09c0006400002800006c39910c08022c00000d9382363a000c4182b255000c4182b255c0fcaaaa03000000888e020300af"
    "0213ca001000000000000000013e8e967dacd960324cac5b6aa721235bf57b949771c867989f49d04ed47c6933f57b949771c867989f49d04ed47c69"
    "34cf0200000000000000000000000000007d0af6df51e99cde7a187453f0f935370050cfa72cde35b2c1e2319255806ab364179fd9673041b9a5939f"
    "a1a2010d2ac794e25168055f794ddc1fdfae3521f4446bfd11da98345f543df6ce199df8fe48f8cdd17adca87bf45711183c496d41aa0c6c39910c",
    "000018008e580000106c6c09c000640000380000ef456f7008012c00000c4182b255000d9382363a000c4182b255a001aaaa03000000888e0203005f"
    "02030a001000000000000000010000000000000000000000000000000000000000000000000000000000000000000000000000000000000000000000"
    "000000000000000000000000000000000010bba3bdfbcfde2bc537509d71f2ecd10000ef456f70",
    "000018008e580000106c6c09c0006400003900002ca8942708412c00000c4182b255000d9382363affffffffffffb00101000020000000007eccf60a"
    "c1ddffb04796c30ba19c92c6121e800390f5ef4a79be40b25af0541b6f4d1ce72708c295cf5819458c18d51f64567a7cc5ff85e7a68b238a335e4444"
    "f7de0c5eef721d9fdb0d514403d1c9064615233efce24b416d538c88845e460d29630eda7297fddbb566ac0a05f9211fbf24399a15a915110439bd0c"
    "0c510a084a88905001fc64cc9a4fcad251d6e0f15500b713fb42c24460582a68d0a5b99c808e012c200ac527b0eb320f757d60ea01fa79f65c2fc355"
    "669062d925e3e44c0291c1a736d50f0b8c6c68de9e536ed97feb439382804b73923a617fccef3760cf6598f77e39b990a6d167ab5ca6a9577638fea8"
    "342c97abd554f56fea48eb48be52dfc827667b1c09087858b9969a74102d53e37d352ee46244843d02f51b044364cb2633fd2e8c160a21312456e574"
    "748933e0d8495be82397d89cb739f7aba0e844c2b8dc3a3d57d1a7b07ea9ff97a3d717ff02830b582ca89427",
    "000018008e580000106c6c09c000640000290000beca35ae08422c00000d9382363a000c4182b255000c4182b253f0fc010000200000000077314774"
    "698855cd84c4b4778e84fe8e6bb922407fb6813b62b7cf9fa71b95a94aaaff9539bbdf13a2a5123f32996409f71de7c78d7d9409b73ef46532fe92ed"
    "7acc9897c5991f7adb3be61a7be7641fc977afe40cbde9eb41942e8f31902c4c4f8f7ea3db517afa66fcb3617497808a1d1dab405de9f52c23f4f98c"
    "a0c6bc2c782668346b467322ef75c3c314c155e0168ecd1b9b223e1320c7c8033bfdbcb4b12996f762c77f2befec743313b9bc619c97409014673d17"
    "d2eceb17d874790ebf96d2ffc3e6a735fecf231c12d1f0709cb5971e51d706e16a99305b66ab733e2e46ff27b7dbc749617f5c1299ce96c807995297"
    "22aab15eb295caa4d2b0706a49d5650ec373a899d9344c82749fe2f7eaee06fa8d9585d0286aac82bb72d8fa7c2f04e3c6617d4502db577b4f9674bb"
    "ef78ecc7b9601e70e9edb31c2e9566fd9685b3470777c927c46afb64c3c92f6de39e1b46cff1deb3e1dcbde061860b967febe0de6e8de000a77e489b"
    "b9a2808d7827a505d3de140b81de8e9582886a69768709dcb4c4754252d7ba6bfc552983ee55e9c5e49d312a393428ebf0d0f8b41a99e3df21f7eca2"
    "e2fd3f90c79da438b91308c5d2815ab11077a5d0f4f7fd790a330fd78ce733c6a80b367e87910da1c07710b81eeb178514f78b1eeb6ed30d274c0499"
    "53ecd7346b4bbc494a3ccb50c27f0741e1c38ba6b0169736cc9f05fe5291e6a3febfce1dc64ec6e8eef768f564436c5a58b188201c4c6cc3acfb799e"
    "17342176cdef32a3764196456d98461feb667efed1e494cb892214458db4b19a9b2365014ecf43751d6809f403dc833dbeca35ae",
    0
};
static const char* const CCMP_QOS_PACKETS[] = {
    "000012002e48000000028509a000dc00000080000000ffffffffffffea086be721daea086be721da1076b22126280000000064003100000754657374"
    "696e67010882848b960c1218240301060504000100002a010232043048606c2d1aef111bffffff00000000000000000001000000000000000000003d"
    "16060705000000000000000000000000000000000000007f080000000000000040dd180050f2020101800003a4000027a4000042435e0062322f00dd"
    "0900037f01010000ff7f30140100000fac040100000fac040100000fac020000",
    "000012002e48000000028509a000dc00000088023a018c7b9d690911ea086be721daea086be721da00000600aaaa03000000888e0203005f02008a00"
    "1000000000000000012486a813851e0491a2f50efdaffa5b1a85790a2e34c13e2109c38a72ba820d7900000000000000000000000000000000000000"
    "00000000000000000000000000000000000000000000000000000000000000",
    "000012002e48000000028509a000d400000088013a01ea086be721da8c7b9d690911ea086be721da00000000aaaa03000000888e0203007502010a00"
    "100000000000000001b90f90f08783c3e6e0ce067398c139f7cfbd82121090f6ff4806403601b10d8d00000000000000000000000000000000000000"
    "00000000000000000000000000f1c99d9765a24651227b18365217872b001630140100000fac040100000fac040100000fac020c00",
    "000012002e48000000028509a000e000000088023a018c7b9d690911ea086be721daea086be721da10000600aaaa03000000888e020300970213ca00"
    "1000000000000000022486a813851e0491a2f50efdaffa5b1a85790a2e34c13e2109c38a72ba820d7900000000000000000000000000000000700000"
    "0000000000000000000000000006b6bc24f47e991015a544331563e8010038e021ac1c8240a8407a130c7160cbcd2ed1f60cc3bf51345ca8e422ae69"
    "42c74f27274494dd4cee1fef12cdb4a44d5504a0ff5a0b00e4224f",
    "000012002e48000000028509a000d800000088013a01ea086be721da8c7b9d690911ea086be721da10000000aaaa03000000888e0203005f02030a00"
    "100000000000000002000000000000000000000000000000000000000000000000000000000000000000000000000000000000000000000000000000"
    "00000000000000000000000000b4512b2bf3d5c038ae208d45ac01c9c10000",
    "000015002a480800000085098004e100000027000788412c00ea086be721da8c7b9d690911ec086be721da1000060005000020000000001b918bc983"
    "666985f8490f76533bf1d5dc89ac1f8e6b3df9d8ba3435cbc55bd0179976e0dd2bf8ef94657abf",
    0
};
static const char* const TKIP_PACKETS[] = {
    "000012002e48000000026c09a000dd03000080000000ffffffffffff001b11d21beb001b11d21beb80b28161f40f000000006400110000044e4f444f"
    "010482848b9603010105040001000030140100000fac020100000fac020100000fac020000dd0900037f01010020ff7f",
    "000012002e48000000166c09a000dc0300000802d400940c6d8f9388001b11d21beb001b11d21bebd0b2aaaa03000000888e0103005f020089002000"
    "0000000000000116f19ed897569d81a02174d218bfd528825c4b1697165f5bf8a8bc81faa1ff97000000000000000000000000000000000000000000"
    "0000000000000000000000000000000000000000000000000000000000",
    "000012002e48000000046c09a000d903000008010201001b11d21beb940c6d8f9388001b11d21beb1000aaaa03000000888e01030075020109000000"
    "00000000000001da6c338845c4ab0ad18b069caa9b6ef1df604953c91cde8346d19e615ff415fc000000000000000000000000000000000000000000"
    "0000000000000000000000322f045a5582410342f58f4092ae05cf001630140100000fac020100000fac020100000fac020000",
    "000012002e480000000b6c09a000dd0300000802de00940c6d8f9388001b11d21beb001b11d21bebe0b2aaaa03000000888e0103009d0213c9002000"
    "0000000000000216f19ed897569d81a02174d218bfd528825c4b1697165f5bf8a8bc81faa1ff97825c4b1697165f5bf8a8bc81faa1ff989900000000"
    "0000000000000000000000c87ff5417ee10f7d5cc24e7819377fa1003eb146c4e6d5be29548ae58315e38fef983caa2365c5e6df6d1418a706459b94"
    "d45ecbe42d08454c2f947c93928de73c0bbdfeaa6a49bee563caf7298582af",
    "000012002e48000000046c09a000da03000008010201001b11d21beb940c6d8f9388001b11d21beb2000aaaa03000000888e0103005f020309000000"
    "000000000000020000000000000000000000000000000000000000000000000000000000000000000000000000000000000000000000000000000000"
    "0000000000000000000000b26d05a6c15e8f9f544272f4a6f02e010000",
    "000012002e48000000166c09a000d90300000841d500001b11d21beb940c6d8f9388001b11d21bebb03203232920000000007775eb99c8fbe3d3951f"
    "e78b24029251843fc12adc354668778b3c4ccc60da3665dac06f9094618dfcb4c9d6cebff266724ced3dbea70584809526589bf2bff4caceaf500f7c"
    "2c6c27e048d926af46bbe0d7158f",
    "000012002e48000000166c09a000da0300000841d500001b11d21beb940c6d8f9388001b11d21bebc03203232a2000000000a8c1afe1412c253d0cd6"
    "1d290c85896b5e638a76eedb536c19b5c3a32fc1b10235986f0da9a5547fa38bc278f2c3901c0da2358fdc5628d9de2645ceb8267d4fd255018102be"
    "1a6df3e34bb0a0569e7c29990b00",
    0
};


// wpa2: the captured handshakes + data frames of libtins' own test-suite through a thread-private WPA2Decrypter
std::string wl_wpa2(uint32_t iters, uint64_t seed, Yielder& y, int only = -1) {
    Dig d; Rng r(seed);
    for (uint32_t it = 0; it < iters; ++it) {
        try {
            int which = int(r.below(3));
            if (only == 2) which = 2; else if (only == 0) which = int(r.below(2));
            const char* const* pk = which == 0 ? CCMP_PACKETS : which == 1 ? CCMP_QOS_PACKETS : TKIP_PACKETS;
            Crypto::WPA2Decrypter dec;
            bool wrong = r.chance(1, 4);
            if (which == 1) dec.add_ap_data(wrong ? "password2" : "password1", "Testing");
            else if (which == 2) dec.add_ap_data(wrong ? "libtinstesu" : "libtinstest", "NODO");
            else dec.add_ap_data(wrong ? "Inductiom" : "Induction", "Coherer");
            for (int i = 0; pk[i]; ++i) {
                bytes b = unhex(pk[i]);
                RadioTap radio(b.data(), uint32_t(b.size()));
                bool ok = dec.decrypt(radio);
                d.u(ok ? 1 : 0);
                if (ok) { digest_chain(d, radio); y.note(which == 2 ? "wpa2:tkip-decrypted" : "wpa2:ccmp-decrypted"); }
                else y.note("wpa2:not-decrypted");
                y.maybe();
            }
            d.u(dec.get_keys().size());
        } catch (const std::exception& e) { d.str("wpa2:" + vh::exc_name(e)); }
        y.maybe();
    }
    return d.hex();
}


// ================================================================== round 2: one workload per path that could grow a
// lazily initialised table or shared scratch state.  Every one of them reaches its sensitive call in its FIRST
// iteration, so that in a cold process (forked `go` child) the first calls of all threads meet right after the barrier.

// user-defined PDUs for the registry scenarios (Allocators::register_allocator BEFORE the threads start)
template<int N>
class UserPDU : public PDU {
public:
    static const PDU::PDUType pdu_flag = static_cast<PDU::PDUType>(PDU::USER_DEFINED_PDU + N);
    UserPDU() {}
    explicit UserPDU(const bytes& b) : data_(b) {}
    UserPDU(const uint8_t* b, uint32_t n) : data_(b, b + n) {}
    UserPDU* clone() const { return new UserPDU(*this); }
    uint32_t header_size() const { return uint32_t(data_.size()); }
    PDUType pdu_type() const { return pdu_flag; }
    void write_serialization(uint8_t* buf, uint32_t sz) { std::copy(data_.begin(), data_.begin() + std::min<size_t>(sz, data_.size()), buf); }
    bytes data_;
};
template<int N> const PDU::PDUType UserPDU<N>::pdu_flag;

struct Reg { std::string fam; unsigned id; };

void apply_regs(const std::vector<Reg>& regs) {
    int ne = 0, ni = 0;
    for (size_t i = 0; i < regs.size(); ++i) {
        const Reg& r = regs[i];
        if (r.fam == "eth") {
            switch (ne++) {
            case 0: Allocators::register_allocator<EthernetII, UserPDU<0> >(uint16_t(r.id)); break;
            case 1: Allocators::register_allocator<EthernetII, UserPDU<1> >(uint16_t(r.id)); break;
            case 2: Allocators::register_allocator<EthernetII, UserPDU<2> >(uint16_t(r.id)); break;
            default: Allocators::register_allocator<EthernetII, UserPDU<3> >(uint16_t(r.id)); break;
            }
        } else {
            switch (ni++) {
            case 0: Allocators::register_allocator<IP, UserPDU<4> >(uint8_t(r.id)); break;
            case 1: Allocators::register_allocator<IP, UserPDU<5> >(uint8_t(r.id)); break;
            case 2: Allocators::register_allocator<IP, UserPDU<6> >(uint8_t(r.id)); break;
            default: Allocators::register_allocator<IP, UserPDU<7> >(uint8_t(r.id)); break;
            }
        }
    }
}

static const uint16_t ETH_IDS[] = {0x88b5, 0x88b6, 0x88b7, 0x88b8, 0x9000, 0x0101};
static const uint8_t IP_IDS[] = {253, 254, 143, 200, 99, 252};

void put16(bytes& b, uint16_t v) { b.push_back(uint8_t(v >> 8)); b.push_back(uint8_t(v)); }
void put(bytes& b, const bytes& x) { b.insert(b.end(), x.begin(), x.end()); }

// user: frames carrying non-built-in ether types / IP protocols (registered by the scenario or not), hand-assembled
// so that nothing is looked up before the parse; then the same through the API (serialisation consults pdu_types)
std::string wl_user(uint32_t iters, uint64_t seed, Yielder& y) {
    Dig d; Rng r(seed);
    for (uint32_t it = 0; it < iters; ++it) {
        uint16_t et = ETH_IDS[r.below(6)];
        uint8_t pr = IP_IDS[r.below(6)];
        bytes pay = r.blob(r.range(4, 40));
        bytes b;
        int shape = int(r.below(8));
        try {
            PDU* p = 0;
            switch (shape) {
            case 0: put(b, r.blob(12)); put16(b, et); put(b, pay); p = new EthernetII(b.data(), uint32_t(b.size())); break;
            case 1: put(b, r.blob(12)); put16(b, 0x8100); put16(b, uint16_t(r.below(4096))); put16(b, et); put(b, pay);
                    p = new EthernetII(b.data(), uint32_t(b.size())); break;
            case 2: put16(b, 0); put16(b, 1); put16(b, 6); put(b, r.blob(8)); put16(b, et); put(b, pay);
                    p = new SLL(b.data(), uint32_t(b.size())); break;
            case 3: b.push_back(0xaa); b.push_back(0xaa); b.push_back(3); b.push_back(0); b.push_back(0); b.push_back(0); put16(b, et); put(b, pay);
                    p = new SNAP(b.data(), uint32_t(b.size())); break;
            case 4: case 5: {
                b.push_back(0x45); b.push_back(0); put16(b, uint16_t(20 + pay.size())); put16(b, uint16_t(r.next())); put16(b, 0);
                b.push_back(64); b.push_back(pr); put16(b, 0); put(b, r.blob(8)); put(b, pay);
                if (shape == 5) { bytes e = r.blob(12); put16(e, 0x0800); put(e, b); p = new EthernetII(e.data(), uint32_t(e.size())); }
                else p = new IP(b.data(), uint32_t(b.size()));
                break;
            }
            case 6: {
                b.push_back(0x60); b.push_back(0); b.push_back(0); b.push_back(0); put16(b, uint16_t(pay.size())); b.push_back(pr); b.push_back(64);
                put(b, r.blob(32)); put(b, pay);
                p = new IPv6(b.data(), uint32_t(b.size()));
                break;
            }
            default: {      // through the API: the serialiser asks the registry for the identifier of the inner PDU's type
                PDU* inner = 0;
                int n = int(r.below(8));
                switch (n) {
                case 0: inner = new UserPDU<0>(pay); break; case 1: inner = new UserPDU<1>(pay); break;
                case 2: inner = new UserPDU<2>(pay); break; case 3: inner = new UserPDU<3>(pay); break;
                case 4: inner = new UserPDU<4>(pay); break; case 5: inner = new UserPDU<5>(pay); break;
                case 6: inner = new UserPDU<6>(pay); break; default: inner = new UserPDU<7>(pay); break;
                }
                if (n < 4) { EthernetII* e = new EthernetII(rnd_hw(r), rnd_hw(r)); e->inner_pdu(inner); p = e; }
                else if (r.chance(1, 2)) { IP* ip = new IP(rnd_v4(r), rnd_v4(r)); ip->inner_pdu(inner); p = ip; }
                else { IPv6* v6 = new IPv6(rnd_v6(r), rnd_v6(r)); v6->inner_pdu(inner); p = v6; }
                break;
            }
            }
            digest_chain(d, *p);
            y.note(p->inner_pdu() && p->inner_pdu()->pdu_type() >= PDU::USER_DEFINED_PDU ? "user:user-pdu-allocated" : "user:not-user");
            delete p;
        } catch (const std::exception& e) { d.str("user:" + vh::exc_name(e)); y.note("user:threw"); }
        y.maybe();
    }
    return d.hex();
}

// flag: Internals::pdu_from_flag for ether types, IP protocols and PDU tags, built-in and not; tag <-> identifier maps
std::string wl_flag(uint32_t iters, uint64_t seed, Yielder& y) {
    Dig d; Rng r(seed);
    std::vector<bytes> bufs;
    {
        Rng f(7);
        bufs.push_back((IP("10.0.0.1", "10.0.0.2") / UDP(53, 1053) / RawPDU("0123456789abcdef0123456789abcdef")).serialize());
        bufs.push_back((IPv6("::1", "::2") / TCP(80, 1080) / RawPDU("0123456789abcdef")).serialize());
        bufs.push_back(ARP("10.0.0.1", "10.0.0.2", "00:01:02:03:04:05", "00:01:02:03:04:06").serialize());
        Dot11Beacon bc; bc.ssid("flag"); bufs.push_back(bc.serialize());
        bufs.push_back((EthernetII() / IP() / TCP()).serialize());
        bufs.push_back(bytes(64, 0));
    }
    static const uint16_t ET[] = {0x0800, 0x86dd, 0x0806, 0x8863, 0x8864, 0x888e, 0x8100, 0x88a8, 0x9100, 0x8847,
                                  0x88b5, 0x88b6, 0x88b7, 0x88b8, 0x9000, 0x0101, 0x0000, 0xffff};
    for (uint32_t it = 0; it < iters; ++it) {
        const bytes& b = bufs[r.below(uint32_t(bufs.size()))];
        PDU* p = 0;
        try {
            int which = int(r.below(5));
            bool raw = r.chance(1, 2);
            if (which == 0) {
                uint16_t e = r.chance(1, 8) ? uint16_t(r.next()) : ET[r.below(18)];
                d.u(e);
                p = Internals::pdu_from_flag(Constants::Ethernet::e(e), b.data(), uint32_t(b.size()), raw);
            } else if (which == 1) {
                uint8_t pr = r.chance(1, 2) ? IP_IDS[r.below(6)] : uint8_t(r.next());
                d.u(pr);
                p = Internals::pdu_from_flag(Constants::IP::e(pr), b.data(), uint32_t(b.size()), raw);
            } else if (which == 2) {
                unsigned t = r.chance(1, 4) ? PDU::USER_DEFINED_PDU + r.below(9) : r.below(80);
                d.u(t);
                p = Internals::pdu_from_flag(PDU::PDUType(t), b.data(), uint32_t(b.size()));
            } else {
                unsigned t = r.chance(1, 2) ? PDU::USER_DEFINED_PDU + r.below(9) : r.below(80);
                d.u(t);
                d.u(Internals::pdu_flag_to_ether_type(PDU::PDUType(t)));
                d.u(Internals::pdu_flag_to_ip_type(PDU::PDUType(t)));
                uint16_t e = ET[r.below(18)];
                d.u(Internals::ether_type_to_pdu_flag(Constants::Ethernet::e(e)));
                d.u(Internals::ip_type_to_pdu_flag(Constants::IP::e(uint8_t(r.next()))));
            }
            if (p) { d.u(p->pdu_type()); d.u(p->size()); y.note("flag:allocated"); delete p; }
            else { d.str("null"); y.note("flag:null"); }
        } catch (const std::exception& e) { d.str("flag:" + vh::exc_name(e)); y.note("flag:threw"); }
        y.maybe();
    }
    return d.hex();
}

// fcs: RadioTap frames that announce an FCS: the serialiser computes CRC-32 over the inner PDU (first iteration = first
// CRC of the process); the trailer is compared with the bit-wise reference
std::string wl_fcs(uint32_t iters, uint64_t seed, Yielder& y) {
    Dig d; Rng r(seed);
    for (uint32_t it = 0; it < iters; ++it) {
        try {
            Dot11Data data;
            data.addr1(rnd_hw(r)); data.addr2(rnd_hw(r)); data.addr3(rnd_hw(r));
            data.inner_pdu(RawPDU(r.blob(r.range(1, 200))));
            RadioTap rt;
            rt.flags(RadioTap::FCS);
            rt.inner_pdu(data);
            bytes b = rt.serialize();
            bytes inner = data.serialize();
            uint32_t want = ref_crc32(inner), got = 0;
            if (b.size() >= 4) for (int i = 0; i < 4; ++i) got |= uint32_t(b[b.size() - 4 + i]) << (8 * i);
            d.buf(b);
            d.str(want == got ? "fcs-ok" : "FCS-WRONG");
            y.note(want == got ? "fcs:trailer-matches-reference" : "fcs:WRONG");
        } catch (const std::exception& e) { d.str("fcs:" + vh::exc_name(e)); }
        y.maybe();
    }
    return d.hex();
}

bool inet_sum_ok(const bytes& pseudo, const uint8_t* seg, size_t n) {
    uint32_t s = 0;
    for (size_t i = 0; i + 1 < pseudo.size(); i += 2) s += (uint32_t(pseudo[i]) << 8) | pseudo[i + 1];
    for (size_t i = 0; i < n; i += 2) s += (uint32_t(seg[i]) << 8) | (i + 1 < n ? seg[i + 1] : 0);
    while (s >> 16) s = (s & 0xffff) + (s >> 16);
    return s == 0xffff;
}

// cksum: TCP / UDP / ICMPv6 / ICMP over IPv4 and IPv6 parents, three flows per thread used in turn (per-key caches see
// different keys at overlapping times); every transport checksum verified against the pseudo header by hand
std::string wl_cksum(uint32_t iters, uint64_t seed, Yielder& y) {
    Dig d; Rng r(seed);
    IPv4Address s4[3], d4[3]; IPv6Address s6[3], d6[3];
    for (int i = 0; i < 3; ++i) { s4[i] = rnd_v4(r); d4[i] = rnd_v4(r); s6[i] = rnd_v6(r); d6[i] = rnd_v6(r); }
    for (uint32_t it = 0; it < iters; ++it) {
        try {
            int f = int(r.below(3));
            bool v6 = r.chance(1, 2);
            int l4 = int(r.below(v6 ? 3 : 4));      // 0 tcp, 1 udp, 2 icmpv6 (v6) / icmp (v4), 3 icmp
            bytes pay = r.blob(r.below(80));
            bytes b; size_t off; uint8_t proto;
            if (v6) {
                IPv6 ip(d6[f], s6[f]);
                if (l4 == 0) { ip /= TCP(uint16_t(r.next()), uint16_t(r.next())); proto = 6; }
                else if (l4 == 1) { ip /= UDP(uint16_t(r.next()), uint16_t(r.next())); proto = 17; }
                else { ICMPv6 ic(ICMPv6::ECHO_REQUEST); ic.identifier(uint16_t(r.next())); ic.sequence(uint16_t(r.next())); ip /= ic; proto = 58; }
                ip /= RawPDU(pay);
                b = ip.serialize(); off = 40;
                bytes ph(s6[f].begin(), s6[f].end()); ph.insert(ph.end(), d6[f].begin(), d6[f].end());
                put16(ph, 0); put16(ph, uint16_t(b.size() - off)); put16(ph, 0); put16(ph, proto);
                bool ok = b.size() >= off && inet_sum_ok(ph, b.data() + off, b.size() - off);
                d.str(ok ? "sum-ok" : "SUM-WRONG"); y.note(ok ? "cksum:verified-v6" : "cksum:WRONG");
            } else {
                IP ip(d4[f], s4[f]);
                if (l4 == 0) { ip /= TCP(uint16_t(r.next()), uint16_t(r.next())); proto = 6; }
                else if (l4 == 1) { ip /= UDP(uint16_t(r.next()), uint16_t(r.next())); proto = 17; }
                else { ICMP ic(ICMP::ECHO_REQUEST); ic.id(uint16_t(r.next())); ip /= ic; proto = 1; }
                ip /= RawPDU(pay);
                b = ip.serialize(); off = 20;
                bytes ph;
                if (proto != 1) {
                    uint32_t a = uint32_t(s4[f]), c = uint32_t(d4[f]);        // network order in memory
                    const uint8_t* pa = reinterpret_cast<const uint8_t*>(&a); const uint8_t* pc = reinterpret_cast<const uint8_t*>(&c);
                    ph.insert(ph.end(), pa, pa + 4); ph.insert(ph.end(), pc, pc + 4);
                    put16(ph, proto); put16(ph, uint16_t(b.size() - off));
                }
                bool ok = b.size() >= off && inet_sum_ok(ph, b.data() + off, b.size() - off) && inet_sum_ok(bytes(), b.data(), 20);
                d.str(ok ? "sum-ok" : "SUM-WRONG"); y.note(ok ? "cksum:verified-v4" : "cksum:WRONG");
            }
            d.buf(b);
        } catch (const std::exception& e) { d.str("cksum:" + vh::exc_name(e)); }
        y.maybe();
    }
    return d.hex();
}

// addrio: text conversion of the address classes in both directions through every entry point (to_string,
// operator<<, constructors from text incl. malformed text), prefix masks, ranges, hashing
std::string wl_addrio(uint32_t iters, uint64_t seed, Yielder& y) {
    Dig d; Rng r(seed);
    static const char* const BAD[] = {"", "1.2.3", "1.2.3.4.5", "256.1.1.1", "a.b.c.d", "::g", "1::2::3", ":::", "00:11:22:33:44", "zz:11:22:33:44:55", "1.2.3.4 "};
    for (uint32_t it = 0; it < iters; ++it) {
        try {
            IPv4Address a = rnd_v4(r);
            std::ostringstream os;
            os << a;
            d.str(os.str()); d.str(a.to_string());
            d.u(uint32_t(IPv4Address(os.str())));
            IPv6Address b = rnd_v6(r);
            if (r.chance(1, 3)) { bytes z(16, 0); z[r.below(16)] = uint8_t(r.next()); z[15] = uint8_t(r.next()); b = IPv6Address(z.data()); }
            std::ostringstream os6; os6 << b;
            d.str(os6.str()); d.str(b.to_string());
            IPv6Address b2(os6.str());
            d.raw(b2.begin(), 16); d.u(b2 == b ? 1 : 0);
            HWAddress<6> h = rnd_hw(r);
            std::ostringstream osh; osh << h;
            d.str(osh.str()); d.str(h.to_string());
            HWAddress<6> h2(osh.str());
            d.u(h2 == h ? 1 : 0);
            HWAddress<8> h8(r.blob(8).data());
            d.str(h8.to_string());
            d.u(uint32_t(IPv4Address::from_prefix_length(r.below(33))));
            IPv6Address m6 = IPv6Address::from_prefix_length(r.below(129));
            d.raw(m6.begin(), 16);
            IPv6Address masked = b & m6;
            d.str(masked.to_string());
            d.u(uint32_t(a & IPv4Address::from_prefix_length(r.below(33))));
            d.u(std::hash<IPv4Address>()(a) == std::hash<IPv4Address>()(IPv4Address(a.to_string())) ? 1 : 0);
            d.u(std::hash<IPv6Address>()(b) == std::hash<IPv6Address>()(b2) ? 1 : 0);
            d.u(std::hash<HWAddress<6> >()(h) == std::hash<HWAddress<6> >()(h2) ? 1 : 0);
            IPv6Range rg = b / 124;
            uint32_t n = 0;
            for (IPv6Range::const_iterator i = rg.begin(); i != rg.end() && n < 20; ++i, ++n) d.str(i->to_string());
            const char* bad = BAD[r.below(11)];
            try { IPv4Address x(bad); d.u(uint32_t(x)); } catch (const std::exception& e) { d.str(vh::exc_name(e)); }
            try { IPv6Address x(bad); d.str(x.to_string()); } catch (const std::exception& e) { d.str(vh::exc_name(e)); }
            try { HWAddress<6> x(bad); d.str(x.to_string()); } catch (const std::exception& e) { d.str(vh::exc_name(e)); }
            y.note("addrio:iterations");
        } catch (const std::exception& e) { d.str("addrio:" + vh::exc_name(e)); y.note("addrio:threw"); }
        y.maybe();
    }
    return d.hex();
}

// dns: name encode / decode, records of several types composed into a message, serialised, decoded again
std::string wl_dns(uint32_t iters, uint64_t seed, Yielder& y) {
    Dig d; Rng r(seed);
    for (uint32_t it = 0; it < iters; ++it) {
        try {
            std::string nm = rnd_name(r);
            std::string enc = DNS::encode_domain_name(nm);
            d.str(enc); d.str(DNS::decode_domain_name(enc));
            DNS dns;
            dns.id(uint16_t(r.next())); dns.type(DNS::RESPONSE); dns.opcode(uint8_t(r.below(3))); dns.rcode(uint8_t(r.below(6)));
            int nq = 1 + int(r.below(3));
            for (int i = 0; i < nq; ++i) dns.add_query(DNS::query(i == 0 ? nm : rnd_name(r), r.chance(1, 2) ? DNS::A : DNS::AAAA, DNS::INTERNET));
            int na = int(r.below(5));
            for (int i = 0; i < na; ++i) {
                switch (r.below(5)) {
                case 0: dns.add_answer(DNS::resource(nm, rnd_v4(r).to_string(), DNS::A, DNS::INTERNET, uint32_t(r.below(86400)))); break;
                case 1: dns.add_answer(DNS::resource(nm, rnd_v6(r).to_string(), DNS::AAAA, DNS::INTERNET, uint32_t(r.below(86400)))); break;
                case 2: dns.add_answer(DNS::resource(rnd_name(r), rnd_name(r), DNS::CNAME, DNS::INTERNET, uint32_t(r.below(86400)))); break;
                case 3: dns.add_authority(DNS::resource(rnd_name(r), rnd_name(r), DNS::NS, DNS::INTERNET, uint32_t(r.below(86400)))); break;
                default: dns.add_additional(DNS::resource(nm, rnd_name(r), DNS::TXT, DNS::INTERNET, uint32_t(r.below(86400)))); break;
                }
            }
            bytes b = dns.serialize();
            d.buf(b);
            DNS back(b.data(), uint32_t(b.size()));
            digest_dns(d, back);
            DNS::resources_type au = back.authority(), ad = back.additional();
            for (DNS::resources_type::const_iterator i = au.begin(); i != au.end(); ++i) { d.str(i->dname()); d.str(i->data()); }
            for (DNS::resources_type::const_iterator i = ad.begin(); i != ad.end(); ++i) { d.str(i->dname()); d.str(i->data()); }
            y.note("dns:composed-and-decoded");
        } catch (const std::exception& e) { d.str("dns:" + vh::exc_name(e)); y.note("dns:threw"); }
        y.maybe();
    }
    return d.hex();
}

// opts: typed option setters, serialisation, parse, typed getters (TCP, IP, DHCP, ICMPv6, Dot11 tagged parameters)
std::string wl_opts(uint32_t iters, uint64_t seed, Yielder& y) {
    Dig d; Rng r(seed);
    for (uint32_t it = 0; it < iters; ++it) {
        try {
            TCP tcp(1, 2);
            tcp.mss(uint16_t(r.next())); tcp.winscale(uint8_t(r.below(15))); tcp.sack_permitted();
            tcp.timestamp(uint32_t(r.next()), uint32_t(r.next())); tcp.altchecksum(TCP::CHK_8FLETCHER);
            TCP::sack_type sk; for (uint32_t i = 0, n = 2 * r.range(1, 2); i < n; ++i) sk.push_back(uint32_t(r.next()));
            tcp.sack(sk);
            bytes tb = tcp.serialize();
            TCP t2(tb.data(), uint32_t(tb.size()));
            d.u(t2.mss()); d.u(t2.winscale()); d.u(t2.has_sack_permitted() ? 1 : 0); d.u(t2.timestamp().first); d.u(t2.timestamp().second);
            d.u(t2.altchecksum()); d.u(t2.sack().size());
            try { d.u(t2.search_option(TCP::SACK) ? 1 : 0); } catch (const std::exception& e) { d.str(vh::exc_name(e)); }

            IP ip("1.2.3.4", "5.6.7.8");
            IP::generic_route_option_type::routes_type rts; for (uint32_t i = 0, n = r.range(1, 3); i < n; ++i) rts.push_back(rnd_v4(r));
            switch (r.below(3)) {
            case 0: ip.lsrr(IP::lsrr_type(4, rts)); break;
            case 1: ip.ssrr(IP::ssrr_type(4, rts)); break;
            default: ip.record_route(IP::record_route_type(4, rts)); break;
            }
            ip.stream_identifier(uint16_t(r.next())); ip.noop(); ip.eol();
            bytes ib = ip.serialize();
            IP i2(ib.data(), uint32_t(ib.size()));
            d.buf(ib); d.u(i2.stream_identifier());
            try { d.u(i2.lsrr().routes.size()); } catch (const std::exception& e) { d.str(vh::exc_name(e)); }
            try { d.u(i2.ssrr().routes.size()); } catch (const std::exception& e) { d.str(vh::exc_name(e)); }
            try { d.u(i2.record_route().routes.size()); } catch (const std::exception& e) { d.str(vh::exc_name(e)); }

            DHCP dh;
            dh.type(DHCP::OFFER); dh.server_identifier(rnd_v4(r)); dh.lease_time(uint32_t(r.next())); dh.renewal_time(uint32_t(r.next()));
            dh.rebind_time(uint32_t(r.next())); dh.subnet_mask(rnd_v4(r)); dh.broadcast(rnd_v4(r)); dh.requested_ip(rnd_v4(r));
            std::vector<IPv4Address> lst; for (uint32_t i = 0, n = r.range(1, 3); i < n; ++i) lst.push_back(rnd_v4(r));
            dh.routers(lst); dh.domain_name_servers(lst); dh.domain_name(rnd_name(r)); dh.hostname(rnd_name(r)); dh.end();
            bytes db = dh.serialize();
            DHCP d2(db.data(), uint32_t(db.size()));
            d.u(d2.type()); d.u(uint32_t(d2.server_identifier())); d.u(d2.lease_time()); d.u(d2.renewal_time()); d.u(d2.rebind_time());
            d.u(uint32_t(d2.subnet_mask())); d.u(uint32_t(d2.broadcast())); d.u(uint32_t(d2.requested_ip()));
            d.u(d2.routers().size()); d.u(d2.domain_name_servers().size()); d.str(d2.domain_name()); d.str(d2.hostname());

            ICMPv6 ic(ICMPv6::ROUTER_ADVERT);
            ic.source_link_layer_addr(rnd_hw(r)); ic.target_link_layer_addr(rnd_hw(r)); ic.mtu(ICMPv6::mtu_type(0, uint32_t(r.next())));
            bytes cb = (IPv6("::1", "::2") / ic).serialize();
            IPv6 v2(cb.data(), uint32_t(cb.size()));
            const ICMPv6& c2 = v2.rfind_pdu<ICMPv6>();
            d.str(c2.source_link_layer_addr().to_string()); d.str(c2.target_link_layer_addr().to_string()); d.u(c2.mtu().second);

            Dot11Beacon bc;
            bc.ssid(rnd_name(r)); bc.ds_parameter_set(uint8_t(r.range(1, 13))); bc.erp_information(uint8_t(r.next())); bc.ibss_parameter_set(uint16_t(r.next()));
            Dot11ManagementFrame::rates_type rates; rates.push_back(1.0f); rates.push_back(2.0f); rates.push_back(5.5f);
            bc.supported_rates(rates); bc.extended_supported_rates(rates); bc.power_capability(uint8_t(r.next()), uint8_t(r.next()));
            bc.challenge_text(rnd_name(r)); bc.rsn_information(r.chance(1, 2) ? RSNInformation::wpa2_psk() : RSNInformation());
            bytes bb = bc.serialize();
            Dot11Beacon b2(bb.data(), uint32_t(bb.size()));
            d.str(b2.ssid()); d.u(b2.ds_parameter_set()); d.u(b2.erp_information()); d.u(b2.ibss_parameter_set());
            d.u(b2.supported_rates().size()); d.u(b2.extended_supported_rates().size()); d.u(b2.power_capability().first);
            d.str(b2.challenge_text()); d.u(b2.rsn_information().version());
            y.note("opts:iterations");
        } catch (const std::exception& e) { d.str("opts:" + vh::exc_name(e)); y.note("opts:threw"); }
        y.maybe();
    }
    return d.hex();
}

// rtap: RadioTap with a random subset of fields (writer keeps them ordered by the field table), serialised, parsed
// (parser walks the field table: sizes and alignments), getters
std::string wl_rtap(uint32_t iters, uint64_t seed, Yielder& y) {
    Dig d; Rng r(seed);
    for (uint32_t it = 0; it < iters; ++it) {
        try {
            RadioTap rt;
            for (int n = int(r.range(1, 10)); n > 0; --n) {
                switch (r.below(14)) {
                case 0: rt.tsft(r.next()); break;
                case 1: rt.flags(RadioTap::FrameFlags(r.chance(1, 2) ? RadioTap::FCS : RadioTap::PREAMBLE)); break;
                case 2: rt.rate(uint8_t(r.next())); break;
                case 3: rt.channel(uint16_t(2412 + 5 * r.below(13)), uint16_t(r.next())); break;
                case 4: rt.dbm_signal(int8_t(r.next())); break;
                case 5: rt.dbm_noise(int8_t(r.next())); break;
                case 6: rt.signal_quality(uint16_t(r.next())); break;
                case 7: rt.antenna(uint8_t(r.next())); break;
                case 8: rt.db_signal(uint8_t(r.next())); break;
                case 9: rt.rx_flags(uint16_t(r.next())); break;
                case 10: rt.tx_flags(uint16_t(r.next())); break;
                case 11: rt.data_retries(uint8_t(r.next())); break;
                case 12: { RadioTap::mcs_type m; m.known = uint8_t(r.next()); m.flags = uint8_t(r.next()); m.mcs = uint8_t(r.next()); rt.mcs(m); break; }
                default: { RadioTap::xchannel_type x; x.flags = uint32_t(r.next()); x.frequency = uint16_t(r.next()); x.channel = uint8_t(r.next()); x.max_power = uint8_t(r.next()); rt.xchannel(x); break; }
                }
            }
            Dot11Data data; data.addr1(rnd_hw(r)); data.inner_pdu(RawPDU(r.blob(r.range(1, 30))));
            rt.inner_pdu(data);
            bytes b = rt.serialize();
            d.buf(b);
            RadioTap p(b.data(), uint32_t(b.size()));
            d.u(p.present()); d.u(p.header_size()); d.u(p.trailer_size());
            try { d.u(p.tsft()); } catch (const std::exception& e) { d.str(vh::exc_name(e)); }
            try { d.u(p.flags()); } catch (const std::exception& e) { d.str(vh::exc_name(e)); }
            try { d.u(p.rate()); } catch (const std::exception& e) { d.str(vh::exc_name(e)); }
            try { d.u(p.channel_freq()); d.u(p.channel_type()); } catch (const std::exception& e) { d.str(vh::exc_name(e)); }
            try { d.u(uint8_t(p.dbm_signal())); } catch (const std::exception& e) { d.str(vh::exc_name(e)); }
            try { d.u(uint8_t(p.dbm_noise())); } catch (const std::exception& e) { d.str(vh::exc_name(e)); }
            try { d.u(p.antenna()); } catch (const std::exception& e) { d.str(vh::exc_name(e)); }
            try { d.u(p.rx_flags()); } catch (const std::exception& e) { d.str(vh::exc_name(e)); }
            try { d.u(p.mcs().mcs); } catch (const std::exception& e) { d.str(vh::exc_name(e)); }
            try { d.u(p.xchannel().frequency); } catch (const std::exception& e) { d.str(vh::exc_name(e)); }
            bytes again = p.serialize();
            d.buf(again);
            y.note("rtap:iterations");
        } catch (const std::exception& e) { d.str("rtap:" + vh::exc_name(e)); y.note("rtap:threw"); }
        y.maybe();
    }
    return d.hex();
}

template<typename T> void dot11_one(Dig& d, Rng& r, Yielder& y) {
    T f;
    f.addr1(rnd_hw(r));
    f.duration_id(uint16_t(r.next()));
    bytes b = f.serialize();
    d.buf(b);
    Dot11* p = Dot11::from_bytes(b.data(), uint32_t(b.size()));
    d.u(p->pdu_type()); d.u(p->type()); d.u(p->subtype()); d.u(p->pdu_type() == f.pdu_type() ? 1 : 0);
    if (p->pdu_type() != f.pdu_type()) y.note("dot11:DISPATCH-DIFFERS"); else y.note("dot11:dispatched");
    bytes again = p->serialize();
    d.buf(again);
    delete p;
    RadioTap rt; rt.inner_pdu(f);
    bytes rb = rt.serialize();
    RadioTap rp(rb.data(), uint32_t(rb.size()));
    d.u(rp.inner_pdu() ? rp.inner_pdu()->pdu_type() : 9999);
}

// dot11: every 802.11 frame class through serialisation and the Dot11::from_bytes dispatch (bare and under RadioTap)
std::string wl_dot11(uint32_t iters, uint64_t seed, Yielder& y) {
    Dig d; Rng r(seed);
    for (uint32_t it = 0; it < iters; ++it) {
        try {
            switch ((it + r.below(2) * 7) % 21) {
            case 0: dot11_one<Dot11Beacon>(d, r, y); break;
            case 1: dot11_one<Dot11ProbeRequest>(d, r, y); break;
            case 2: dot11_one<Dot11ProbeResponse>(d, r, y); break;
            case 3: dot11_one<Dot11AssocRequest>(d, r, y); break;
            case 4: dot11_one<Dot11AssocResponse>(d, r, y); break;
            case 5: dot11_one<Dot11ReAssocRequest>(d, r, y); break;
            case 6: dot11_one<Dot11ReAssocResponse>(d, r, y); break;
            case 7: dot11_one<Dot11Authentication>(d, r, y); break;
            case 8: dot11_one<Dot11Deauthentication>(d, r, y); break;
            case 9: dot11_one<Dot11Disassoc>(d, r, y); break;
            case 10: dot11_one<Dot11Data>(d, r, y); break;
            case 11: dot11_one<Dot11QoSData>(d, r, y); break;
            case 12: dot11_one<Dot11RTS>(d, r, y); break;
            case 13: dot11_one<Dot11PSPoll>(d, r, y); break;
            case 14: dot11_one<Dot11CFEnd>(d, r, y); break;
            case 15: dot11_one<Dot11EndCFAck>(d, r, y); break;
            case 16: dot11_one<Dot11Ack>(d, r, y); break;
            case 17: dot11_one<Dot11BlockAckRequest>(d, r, y); break;
            case 18: dot11_one<Dot11BlockAck>(d, r, y); break;
            case 19: dot11_one<Dot11>(d, r, y); break;
            default: dot11_one<Dot11ProbeResponse>(d, r, y); break;
            }
        } catch (const std::exception& e) { d.str("dot11:" + vh::exc_name(e)); y.note("dot11:threw"); }
        y.maybe();
    }
    return d.hex();
}

#define SER_ONE(expr) do { try { bytes b_ = (expr).serialize(); d.buf(b_); y.note("serall:serialized"); } \
                           catch (const std::exception& e_) { d.str("ser:" + vh::exc_name(e_)); y.note("serall:threw"); } } while (0)

// serall: PDU::serialize of every PDU class (default constructed and stacked)
std::string wl_serall(uint32_t iters, uint64_t seed, Yielder& y) {
    Dig d; Rng r(seed);
    for (uint32_t it = 0; it < iters; ++it) {
        RawPDU raw(r.blob(r.range(1, 20)));
        switch ((it + r.below(3) * 11) % 33) {
        case 0: SER_ONE(EthernetII() / raw); break;
        case 1: SER_ONE(Dot3() / LLC() / raw); break;
        case 2: SER_ONE(SNAP() / IP() / raw); break;
        case 3: SER_ONE(IP() / TCP() / raw); break;
        case 4: SER_ONE(IPv6() / UDP() / raw); break;
        case 5: SER_ONE(IP() / ICMP() / raw); break;
        case 6: SER_ONE(IPv6() / ICMPv6() / raw); break;
        case 7: SER_ONE(EthernetII() / ARP()); break;
        case 8: SER_ONE(IP() / UDP(53, 53) / DNS()); break;
        case 9: SER_ONE(IP() / UDP(67, 68) / DHCP()); break;
        case 10: SER_ONE(IPv6() / UDP(547, 546) / DHCPv6()); break;
        case 11: SER_ONE(BootP()); break;
        case 12: SER_ONE(EthernetII() / Dot1Q(uint16_t(r.below(4096))) / IP() / raw); break;
        case 13: SER_ONE(EthernetII() / RC4EAPOL()); break;
        case 14: SER_ONE(EthernetII() / RSNEAPOL()); break;
        case 15: SER_ONE(EthernetII() / PPPoE() / raw); break;
        case 16: SER_ONE(Dot3() / LLC(0x42, 0x42) / STP()); break;
        case 17: SER_ONE(SLL() / IP() / raw); break;
        case 18: SER_ONE(Loopback() / IP() / raw); break;
        case 19: SER_ONE(EthernetII() / MPLS() / raw); break;
        case 20: SER_ONE(IP() / IPSecAH() / raw); break;
        case 21: SER_ONE(IP() / IPSecESP() / raw); break;
        case 22: SER_ONE(RadioTap() / Dot11Data() / raw); break;
        case 23: SER_ONE(RadioTap() / Dot11Beacon()); break;
        case 24: SER_ONE(RadioTap() / Dot11QoSData() / SNAP() / IP() / raw); break;
        case 25: SER_ONE(IP() / UDP(4789, 4789) / VXLAN() / EthernetII() / raw); break;
        case 26: SER_ONE(IP() / IP() / TCP() / raw); break;
        case 27: SER_ONE(IPv6() / IPv6() / UDP() / raw); break;
        case 28: SER_ONE(raw); break;
        case 29: SER_ONE(EthernetII() / IP() / ICMP(ICMP::DEST_UNREACHABLE) / IP() / UDP()); break;
        case 30: SER_ONE(Dot11ProbeRequest()); break;
        case 31: SER_ONE(Dot11RTS()); break;
        default: SER_ONE(IEEE802_3() / LLC() / raw); break;
        }
        y.maybe();
    }
    return d.hex();
}

// ack: TCP acknowledgements with SACK blocks through a thread-private AckTracker
std::string wl_ack(uint32_t iters, uint64_t seed, Yielder& y) {
    Dig d; Rng r(seed);
    uint32_t ack = uint32_t(r.next());
    if (r.chance(1, 3)) ack = 0xffffff00u + r.below(200);
    TCPIP::AckTracker tr(ack, true);
    for (uint32_t it = 0; it < iters; ++it) {
        try {
            TCP tcp(1, 2);
            tcp.flags(TCP::ACK);
            if (r.chance(2, 3)) ack += r.below(3000);
            tcp.ack_seq(ack);
            if (r.chance(1, 2)) {
                TCP::sack_type sk;
                uint32_t l = ack + 1 + r.below(2000);
                for (uint32_t i = 0, n = r.range(1, 3); i < n; ++i) { uint32_t e = l + 1 + r.below(1500); sk.push_back(l); sk.push_back(e); l = e + 1 + r.below(1500); }
                tcp.sack(sk);
            }
            IP pkt = IP("1.1.1.1", "2.2.2.2") / tcp;
            tr.process_packet(pkt);
            d.u(tr.ack_number()); d.u(tr.acked_intervals().iterative_size());
            d.u(tr.is_segment_acked(ack + r.below(4000), 1 + r.below(1000)) ? 1 : 0);
            y.note("ack:packets");
        } catch (const std::exception& e) { d.str("ack:" + vh::exc_name(e)); }
        y.maybe();
    }
    return d.hex();
}

struct Work {
    std::string tid, kind;
    uint32_t iters;
    uint64_t seed;
    bytes data;      // crc
};

std::string run_work(const Work& w, Yielder& y) {
    if (w.kind == "crc") {
        uint32_t first = 0;
        bool stable = true;
        for (uint32_t i = 0; i < w.iters; ++i) {
            uint32_t c = Utils::crc32(w.data.data(), uint32_t(w.data.size()));
            if (i == 0) first = c; else if (c != first) stable = false;
            if ((i & 15) == 0) y.maybe();
        }
        return stable ? std::to_string(first) : std::string("UNSTABLE");
    }
    if (w.kind == "parse") return wl_parse(w.iters, w.seed, y);
    if (w.kind == "build") return wl_build(w.iters, w.seed, y);
    if (w.kind == "copy") return wl_copy(w.iters, w.seed, y);
    if (w.kind == "addr") return wl_addr(w.iters, w.seed, y);
    if (w.kind == "reasm") return wl_reasm(w.iters, w.seed, y);
    if (w.kind == "follow") return wl_follow(w.iters, w.seed, y);
    if (w.kind == "wep") return wl_wep(w.iters, w.seed, y);
    if (w.kind == "wpa2") return wl_wpa2(w.iters, w.seed, y);
    if (w.kind == "tkip") return wl_wpa2(w.iters, w.seed, y, 2);
    if (w.kind == "ccmp") return wl_wpa2(w.iters, w.seed, y, 0);
    if (w.kind == "user") return wl_user(w.iters, w.seed, y);
    if (w.kind == "flag") return wl_flag(w.iters, w.seed, y);
    if (w.kind == "fcs") return wl_fcs(w.iters, w.seed, y);
    if (w.kind == "cksum") return wl_cksum(w.iters, w.seed, y);
    if (w.kind == "addrio") return wl_addrio(w.iters, w.seed, y);
    if (w.kind == "dns") return wl_dns(w.iters, w.seed, y);
    if (w.kind == "opts") return wl_opts(w.iters, w.seed, y);
    if (w.kind == "rtap") return wl_rtap(w.iters, w.seed, y);
    if (w.kind == "dot11") return wl_dot11(w.iters, w.seed, y);
    if (w.kind == "serall") return wl_serall(w.iters, w.seed, y);
    if (w.kind == "ack") return wl_ack(w.iters, w.seed, y);
    return "bad-kind";
}

std::string guarded(const Work& w, Yielder& y) {
    try { return run_work(w, y); }
    catch (const std::exception& e) { return "throw:" + vh::exc_name(e); }
}

} // namespace

// Runs `f` in a forked child and returns what it returned (through a pipe).  The parent process never executes
// libtins code, so every `w` (run alone) and every `go` (concurrent run) starts from freshly initialised statics —
// a lazily initialised table or registry is initialised *inside* the run that is being judged.
static std::string in_child(const std::function<std::string()>& f) {
    int fd[2];
    if (pipe(fd) != 0) return "harness-error pipe";
    fflush(stdout); fflush(stderr);
    pid_t pid = fork();
    if (pid < 0) return "harness-error fork";
    if (pid == 0) {
        close(fd[0]);
        std::string r;
        try { r = f(); } catch (const std::exception& e) { r = "throw " + vh::exc_name(e); }
        size_t off = 0;
        while (off < r.size()) { ssize_t n = write(fd[1], r.data() + off, r.size() - off); if (n <= 0) break; off += size_t(n); }
        close(fd[1]);
        fflush(stderr);
        _exit(0);
    }
    close(fd[1]);
    std::string r;
    char buf[4096];
    ssize_t n;
    while ((n = read(fd[0], buf, sizeof buf)) > 0) r.append(buf, size_t(n));
    close(fd[0]);
    int status = 0;
    waitpid(pid, &status, 0);
    if (!WIFEXITED(status) || WEXITSTATUS(status) != 0 || r.empty()) {
        // the child died (signal / sanitizer abort): die the same way so that the driver attributes a FAULT to this op
        fprintf(stderr, "c18 harness: child died, status=%d\n", status);
        abort();
    }
    return r;
}

int main(int argc, char** argv) {
    bool alone = argc > 1 && std::string(argv[1]) == "alone";
    std::vector<Work> works;
    std::vector<Reg> regs;
    return vh::line_loop([&](const std::string& line) -> std::string {
        std::vector<std::string> w = vh::words(line);
        if (w.empty()) return "bad-op";
        if (w[0] == "case") {
            // `case <id> [eth:<id>|ip:<id>]...`: the registrations of the case travel on its first line (the case minimiser
            // never drops that line, so the run-alone digests of the remaining workloads stay valid while it shrinks)
            works.clear(); regs.clear();
            for (size_t i = 2; i < w.size(); ++i) {
                size_t c = w[i].find(':');
                if (c == std::string::npos) return "bad-op";
                Reg g; g.fam = w[i].substr(0, c); g.id = unsigned(strtoul(w[i].c_str() + c + 1, 0, 0));
                if ((g.fam != "eth" && g.fam != "ip") || regs.size() >= 8) return "bad-op";
                regs.push_back(g);
            }
            return "case";
        }
        if (w[0] == "reg" && w.size() >= 3) {       // recorded only: applied on the main thread of the forked child, before the threads exist
            Reg g; g.fam = w[1]; g.id = unsigned(strtoul(w[2].c_str(), 0, 0));
            if ((g.fam != "eth" && g.fam != "ip") || regs.size() >= 8 || !works.empty()) return "bad-op";
            regs.push_back(g);
            return "reg " + g.fam + " " + std::to_string(g.id);
        }
        if (w[0] == "w" && w.size() >= 5) {
            Work k;
            k.tid = w[1]; k.kind = w[2]; k.iters = uint32_t(strtoul(w[3].c_str(), 0, 10)); k.seed = 0;
            if (k.kind == "crc") { if (!vh::parse_hex(w[4], k.data)) return "bad-op"; }
            else k.seed = strtoull(w[4].c_str(), 0, 10);
            if (works.size() >= 64) return "bad-op";
            works.push_back(k);
            if (!alone) return "w " + k.tid + " reg";        // nothing runs in this process before the forked `go`
            if (!regs.empty())      // the registries cannot be emptied again: a process of its own with this case's registrations
                return in_child([&]() -> std::string { apply_regs(regs); Yielder none(0, false); return "w " + k.tid + " seq=" + guarded(k, none); });
            Yielder none(0, false);
            return "w " + k.tid + " seq=" + guarded(k, none);
        }
        if (w[0] == "selftest") {       // the race detector and the report hook work: a deliberate race in the harness itself
            static int racy = 0;
            int before = g_reports.load();
            if (!alone) {
                std::thread a([&]() { for (int i = 0; i < 1000; ++i) racy = racy + 1; });
                std::thread b([&]() { for (int i = 0; i < 1000; ++i) racy = racy + 2; });
                a.join(); b.join();
            }
            return "selftest races=" + std::to_string(g_reports.load() - before);
        }
        if (w[0] == "stat" && w.size() >= 4) {          // stat <kind> <iters> <seed>: what the workload exercises (evidence only)
            Work k; k.tid = "-"; k.kind = w[1]; k.iters = uint32_t(strtoul(w[2].c_str(), 0, 10)); k.seed = strtoull(w[3].c_str(), 0, 10);
            if (k.kind == "crc") return "bad-op";
            return in_child([&]() -> std::string {
                std::map<std::string, unsigned> st;
                apply_regs(regs);
                Yielder yy(0, false); yy.stats = &st;
                std::string dg = guarded(k, yy);
                std::string s = "stat " + dg;
                for (std::map<std::string, unsigned>::const_iterator it = st.begin(); it != st.end(); ++it) s += " " + it->first + "=" + std::to_string(it->second);
                return s;
            });
        }
        if (w[0] == "go" && w.size() >= 3) {
            if (alone) return "go skipped";
            uint64_t yseed = strtoull(w[1].c_str(), 0, 10);
            uint32_t reps = uint32_t(strtoul(w[2].c_str(), 0, 10));
            if (reps == 0 || reps > 64) return "bad-op";
            return in_child([&]() -> std::string {
            int before = g_reports.load();
            size_t n = works.size();
            apply_regs(regs);           // ordinary use: registration first, on the only thread; NO parse on this thread before the threads start
            std::vector<std::string> first(n), mixed(n);
            for (uint32_t rep = 0; rep < reps; ++rep) {
                std::vector<std::string> out(n);
                std::atomic<size_t> ready(0);
                std::atomic<bool> start(false);
                std::vector<std::thread> th;
                for (size_t i = 0; i < n; ++i) {
                    th.push_back(std::thread([&, i, rep]() {
                        Yielder y(yseed * 1000003ULL + i * 7919ULL + rep, true);
                        ready.fetch_add(1);
                        for (unsigned spin = 0; !start.load(); ++spin) if (spin > 200000) sched_yield();     // spin: all threads leave within the same microsecond
                        out[i] = guarded(works[i], y);
                    }));
                }
                while (ready.load() < n) sched_yield();
                start.store(true);
                for (size_t i = 0; i < n; ++i) th[i].join();
                for (size_t i = 0; i < n; ++i) {
                    if (rep == 0) first[i] = out[i];
                    else if (out[i] != first[i] && mixed[i].empty()) mixed[i] = out[i];
                }
            }
            std::string s = "go conc=";
            for (size_t i = 0; i < n; ++i) {
                if (i) s += ",";
                s += mixed[i].empty() ? first[i] : ("MIXED:" + first[i] + "/" + mixed[i]);
            }
            if (n == 0) s += "-";
            // afterwards, in the same process, every workload once more on a single thread
            s += " seq=";
            for (size_t i = 0; i < n; ++i) { Yielder none(0, false); if (i) s += ","; s += guarded(works[i], none); }
            if (n == 0) s += "-";
            s += " races=" + std::to_string(g_reports.load() - before);
            return s;
            });
        }
        return "bad-op";
    });
}
