// C14 correspondence harness: PDU::matches_response(ptr, len) on the real libtins objects.
//
//   layout                       -> header sizes / constants of the current tree (compared with the model's assumptions)
//   gen <stack>                  -> "gen state=<stack, normalised> mirror=<hex> req=<hex>": builds the request through the public API,
//                                   serialises it (as PacketSender::send does), reports the state the matchers read, and
//                                   builds + serialises the mirrored reply with libtins types
//   m <stack> <reply hex>        -> r=0 | r=1      (sanitizer abort = FAULT, mapped by the runner)
//
// <stack> = layers joined by '/', outermost first; layer = name[:key=hex,…].  The reply buffer of `m` is placed at the
// end of a heap block, so any read at or past total_sz lands in the ASan red zone (also for total_sz = 0).
#include "common.h"
#include <tins/tins.h>
#include <tins/pdu_cacher.h>
#include <tins/loopback.h>
#include <tins/constants.h>
#include <map>
#include <memory>
using namespace Tins;
using namespace vh;

struct LayerDesc {
    std::string name;
    std::vector<std::pair<std::string, std::string> > kv;   // insertion order kept for the normalised form
    bool has(const std::string& k) const { for (auto& p : kv) if (p.first == k) return true; return false; }
    std::string get(const std::string& k) const { for (auto& p : kv) if (p.first == k) return p.second; return ""; }
    void set(const std::string& k, const std::string& v) {
        for (auto& p : kv) if (p.first == k) { p.second = v; return; }
        kv.push_back(std::make_pair(k, v));
    }
    bytes hex(const std::string& k, size_t want) const {
        bytes b;
        if (!has(k) || !parse_hex(get(k), b) || (want && b.size() != want)) throw std::runtime_error("bad field " + name + "." + k);
        return b;
    }
    uint32_t be(const std::string& k, size_t want) const {
        bytes b = hex(k, want);
        uint32_t v = 0;
        for (size_t i = 0; i < b.size(); ++i) v = (v << 8) | b[i];
        return v;
    }
    uint32_t num(const std::string& k, uint32_t dflt) const { return has(k) ? uint32_t(std::stoul(get(k))) : dflt; }
};

static std::vector<LayerDesc> parse_stack(const std::string& s) {
    std::vector<LayerDesc> out;
    size_t i = 0;
    while (i <= s.size()) {
        size_t j = s.find('/', i);
        if (j == std::string::npos) j = s.size();
        std::string item = s.substr(i, j - i);
        LayerDesc d;
        size_t c = item.find(':');
        d.name = item.substr(0, c);
        if (c != std::string::npos) {
            std::string args = item.substr(c + 1);
            size_t a = 0;
            while (a < args.size()) {
                size_t b = args.find(',', a);
                if (b == std::string::npos) b = args.size();
                std::string kv = args.substr(a, b - a);
                size_t e = kv.find('=');
                if (e != std::string::npos) d.kv.push_back(std::make_pair(kv.substr(0, e), kv.substr(e + 1)));
                a = b + 1;
            }
        }
        out.push_back(d);
        i = j + 1;
    }
    return out;
}

static std::string show_stack(const std::vector<LayerDesc>& st) {
    std::string s;
    for (size_t i = 0; i < st.size(); ++i) {
        if (i) s += "/";
        s += st[i].name;
        for (size_t k = 0; k < st[i].kv.size(); ++k)
            s += (k ? "," : ":") + st[i].kv[k].first + "=" + st[i].kv[k].second;
    }
    return s;
}

static IPv4Address ip4(const bytes& b) {
    std::ostringstream o;
    o << int(b[0]) << "." << int(b[1]) << "." << int(b[2]) << "." << int(b[3]);
    return IPv4Address(o.str());
}

static bytes raw_payload(uint32_t n) {
    bytes p(n);
    for (uint32_t i = 0; i < n; ++i) p[i] = uint8_t(i * 7 + 1);
    return p;
}

// one request layer through the public API
static PDU* make_layer(const LayerDesc& d) {
    const std::string& n = d.name;
    if (n == "eth") {
        bytes s = d.hex("src", 6), t = d.hex("dst", 6);
        return new EthernetII(HWAddress<6>(t.data()), HWAddress<6>(s.data()));
    }
    if (n == "dot3") {
        bytes s = d.hex("src", 6), t = d.hex("dst", 6);
        return new Dot3(HWAddress<6>(t.data()), HWAddress<6>(s.data()));
    }
    if (n == "dot1q") {
        uint32_t tci = d.be("tci", 2);
        Dot1Q* q = new Dot1Q(tci & 0xfff);
        q->priority(tci >> 13);
        q->cfi((tci >> 12) & 1);
        return q;
    }
    if (n == "ip") {
        IP* ip = new IP(ip4(d.hex("dst", 4)), ip4(d.hex("src", 4)));
        ip->tos(d.be("tos", 1));
        ip->id(d.be("id", 2));
        uint32_t fo = d.be("fo", 2);
        ip->flags(IP::Flags(fo >> 13));
        ip->fragment_offset(fo & 0x1fff);
        ip->ttl(d.be("ttl", 1));
        ip->protocol(d.be("p", 1));
        for (uint32_t i = 0, k = d.num("nop", 0); i < k; ++i) ip->noop();
        return ip;
    }
    if (n == "ipv6") {
        bytes s = d.hex("src", 16), t = d.hex("dst", 16);
        IPv6* ip = new IPv6(IPv6Address(t.data()), IPv6Address(s.data()));
        ip->hop_limit(64);
        return ip;
    }
    if (n == "tcp") {
        TCP* t = new TCP(d.be("dp", 2), d.be("sp", 2));
        t->seq(0x01020304);
        t->set_flag(TCP::SYN, 1);
        return t;
    }
    if (n == "udp") return new UDP(d.be("dp", 2), d.be("sp", 2));
    if (n == "icmp") {
        ICMP* i = new ICMP(ICMP::Flags(d.be("type", 1)));
        i->id(d.be("id", 2));
        i->sequence(d.be("seq", 2));
        return i;
    }
    if (n == "icmpv6") {
        ICMPv6* i = new ICMPv6(ICMPv6::Types(d.be("type", 1)));
        i->identifier(d.be("id", 2));
        i->sequence(d.be("seq", 2));
        return i;
    }
    if (n == "dns") {
        DNS* q = new DNS();
        q->id(d.be("id", 2));
        q->add_query(DNS::query("a.example", DNS::A, DNS::INTERNET));
        return q;
    }
    if (n == "bootp") {
        BootP* b = new BootP();
        b->xid(d.be("xid", 4));
        return b;
    }
    if (n == "dhcp") {
        DHCP* b = new DHCP();
        b->xid(d.be("xid", 4));
        b->type(DHCP::DISCOVER);
        b->end();
        return b;
    }
    if (n == "dhcpv6") {
        bytes h = d.hex("hdr", 4);
        DHCPv6* v = new DHCPv6();
        v->msg_type(DHCPv6::MessageType(h[0]));
        if (h[0] == 12 || h[0] == 13) {
            if (h[2] || h[3]) throw std::runtime_error("relay message: hdr[2..3] are not part of the object");
            v->hop_count(h[1]);
        }
        else v->transaction_id((uint32_t(h[1]) << 16) | (uint32_t(h[2]) << 8) | h[3]);
        return v;
    }
    if (n == "radiotap") return new RadioTap();
    if (n == "loopback") {
        bytes f = d.hex("family", 4);
        Loopback* l = new Loopback();
        l->family(uint32_t(f[0]) | (uint32_t(f[1]) << 8) | (uint32_t(f[2]) << 16) | (uint32_t(f[3]) << 24));
        return l;
    }
    if (n == "arp") return new ARP(ip4(d.hex("tpa", 4)), ip4(d.hex("spa", 4)));
    if (n == "raw") return new RawPDU(raw_payload(d.num("n", 4)));
    if (n == "other") return new LLC();
    if (n == "sll") return new SLL();                      // keeps PDU::matches_response: never matches
    throw std::runtime_error("unknown layer " + n);
}

template <typename T>
static PDU* wrap(PDU* cur) {
    PDU* w = new PDUCacher<T>(*static_cast<T*>(cur));     // copies `cur` together with its inner chain
    delete cur;
    return w;
}

static PDU* wrap_cacher(PDU* cur) {
    if (!cur) throw std::runtime_error("cacher without a wrapped pdu");
    if (dynamic_cast<PDUCacher<EthernetII>*>(cur) || dynamic_cast<PDUCacher<IP>*>(cur) || dynamic_cast<PDUCacher<UDP>*>(cur) ||
        dynamic_cast<PDUCacher<TCP>*>(cur) || dynamic_cast<PDUCacher<IPv6>*>(cur) || dynamic_cast<PDUCacher<ICMP>*>(cur))
        throw std::runtime_error("cacher of cacher");
    switch (cur->pdu_type()) {
        case PDU::ETHERNET_II: return wrap<EthernetII>(cur);
        case PDU::IP: return wrap<IP>(cur);
        case PDU::IPv6: return wrap<IPv6>(cur);
        case PDU::UDP: return wrap<UDP>(cur);
        case PDU::TCP: return wrap<TCP>(cur);
        case PDU::ICMP: return wrap<ICMP>(cur);
        case PDU::DOT1Q: return wrap<Dot1Q>(cur);
        case PDU::DNS: return wrap<DNS>(cur);
        default: throw std::runtime_error("cacher of this type not supported by the harness");
    }
}

static PDU* build(const std::vector<LayerDesc>& st, bool with_cachers) {
    PDU* cur = 0;
    try {
        for (size_t k = st.size(); k-- > 0;) {
            if (st[k].name == "cacher") {
                if (with_cachers) cur = wrap_cacher(cur);
                continue;
            }
            PDU* p = make_layer(st[k]);
            if (cur) p->inner_pdu(cur);
            cur = p;
        }
    } catch (...) {
        delete cur;
        throw;
    }
    if (!cur) throw std::runtime_error("empty stack");
    return cur;
}

// the state the matchers read that serialisation derives: IP header_ (tot_len, protocol, checksum, and the source
// address libtins fills in for an IP without a parent PDU — which includes an IP held by a PDUCacher), Loopback family_.
// Layer offsets come from the plain chain; the bytes from the serialisation of the real (cacher-wrapped) object.
static PDU::serialization_type normalise(std::vector<LayerDesc>& st) {
    std::unique_ptr<PDU> plain(build(st, false));
    std::unique_ptr<PDU> real(build(st, true));
    PDU::serialization_type ser = real->serialize();
    uint32_t off = 0;
    const PDU* p = plain.get();
    for (size_t k = 0; k < st.size(); ++k) {
        if (st[k].name == "cacher") continue;
        if (st[k].name == "ip") st[k].set("hdr", to_hex(&ser.at(off), 20));
        if (st[k].name == "loopback") st[k].set("family", to_hex(&ser.at(off), 4));
        off += p->header_size();
        p = p->inner_pdu();
    }
    return ser;
}

static PDU* make_mirror_layer(const LayerDesc& d) {
    const std::string& n = d.name;
    if (n == "eth") {
        bytes s = d.hex("src", 6), t = d.hex("dst", 6);
        return new EthernetII(HWAddress<6>(s.data()), HWAddress<6>(t.data()));
    }
    if (n == "dot3") {
        bytes s = d.hex("src", 6), t = d.hex("dst", 6);
        return new Dot3(HWAddress<6>(s.data()), HWAddress<6>(t.data()));
    }
    if (n == "ip") {
        IP* ip = new IP(ip4(d.hex("src", 4)), ip4(d.hex("dst", 4)));
        ip->id(uint16_t(d.be("id", 2) + 1));
        ip->ttl(57);
        ip->protocol(d.be("p", 1));
        return ip;
    }
    if (n == "ipv6") {
        bytes s = d.hex("src", 16), t = d.hex("dst", 16);
        IPv6* ip = new IPv6(IPv6Address(s.data()), IPv6Address(t.data()));
        ip->hop_limit(57);
        return ip;
    }
    if (n == "tcp") {
        TCP* t = new TCP(d.be("sp", 2), d.be("dp", 2));
        t->seq(0x0a0b0c0d);
        t->ack_seq(0x01020305);
        t->set_flag(TCP::SYN, 1);
        t->set_flag(TCP::ACK, 1);
        return t;
    }
    if (n == "udp") return new UDP(d.be("sp", 2), d.be("dp", 2));
    if (n == "icmp") {
        uint32_t t = d.be("type", 1);
        ICMP* i = new ICMP(ICMP::Flags(t == 8 ? 0 : t == 13 ? 14 : t == 17 ? 18 : t));
        i->id(d.be("id", 2));
        i->sequence(d.be("seq", 2));
        return i;
    }
    if (n == "icmpv6") {
        uint32_t t = d.be("type", 1);
        ICMPv6* i = new ICMPv6(ICMPv6::Types(t == 128 ? 129 : t == 133 ? 134 : t == 135 ? 136 : t));
        i->identifier(d.be("id", 2));
        i->sequence(d.be("seq", 2));
        return i;
    }
    if (n == "dns") {
        DNS* q = new DNS();
        q->id(d.be("id", 2));
        q->type(DNS::RESPONSE);
        q->add_query(DNS::query("a.example", DNS::A, DNS::INTERNET));
        q->add_answer(DNS::resource("a.example", "1.2.3.4", DNS::A, DNS::INTERNET, 60));
        return q;
    }
    if (n == "bootp") {
        BootP* b = new BootP();
        b->xid(d.be("xid", 4));
        b->opcode(BootP::BOOTREPLY);
        return b;
    }
    if (n == "dhcp") {
        DHCP* b = new DHCP();
        b->xid(d.be("xid", 4));
        b->opcode(BootP::BOOTREPLY);
        b->type(DHCP::OFFER);
        b->end();
        return b;
    }
    if (n == "dhcpv6") {
        bytes h = d.hex("hdr", 4);
        DHCPv6* v = new DHCPv6();
        if (h[0] == 12 || h[0] == 13) { v->msg_type(DHCPv6::MessageType(13)); v->hop_count(h[1]); }
        else { v->msg_type(DHCPv6::ADVERTISE); v->transaction_id((uint32_t(h[1]) << 16) | (uint32_t(h[2]) << 8) | h[3]); }
        return v;
    }
    if (n == "arp") {
        ARP* a = new ARP(ip4(d.hex("spa", 4)), ip4(d.hex("tpa", 4)));
        a->opcode(ARP::REPLY);
        return a;
    }
    return make_layer(d);      // dot1q, radiotap, loopback, raw, other: the same layer
}

static bytes mirror_of(const std::vector<LayerDesc>& st) {
    PDU* cur = 0;
    try {
        for (size_t k = st.size(); k-- > 0;) {
            if (st[k].name == "cacher") continue;
            PDU* p = make_mirror_layer(st[k]);
            if (cur) p->inner_pdu(cur);
            cur = p;
        }
    } catch (...) { delete cur; throw; }
    std::unique_ptr<PDU> top(cur);
    return top->serialize();
}

template <typename S> static size_t sz() { return sizeof(S); }

static std::string layout() {
    std::ostringstream o;
    o << "layout eth=" << sizeof(EthernetII::ethernet_header) << " dot3=" << sizeof(Dot3::dot3_header)
      << " dot1q=" << sizeof(Dot1Q::dot1q_header) << " ip=" << sizeof(IP::ip_header) << " ipv6=" << sizeof(IPv6::ipv6_header)
      << " tcp=" << sizeof(TCP::tcp_header) << " udp=" << sizeof(UDP::udp_header) << " icmp=" << sizeof(ICMP::icmp_header)
      << " icmpv6=" << sizeof(ICMPv6::icmp6_header) << " dns=" << sizeof(DNS::dns_header) << " bootp=" << sizeof(BootP::bootp_header)
      << " dhcpv6=" << sizeof(((DHCPv6*)0)->header_data_) << " radiotap=" << sizeof(RadioTap::radiotap_header)
      << " loopback=" << sizeof(((Loopback*)0)->family_) << " arp=" << sizeof(ARP::arp_header)
      << " icmp.echo=" << int(ICMP::ECHO_REQUEST) << "/" << int(ICMP::ECHO_REPLY)
      << " icmp.ts=" << int(ICMP::TIMESTAMP_REQUEST) << "/" << int(ICMP::TIMESTAMP_REPLY)
      << " icmp.mask=" << int(ICMP::ADDRESS_MASK_REQUEST) << "/" << int(ICMP::ADDRESS_MASK_REPLY)
      << " icmp.unreach=" << int(ICMP::DEST_UNREACHABLE)
      << " icmpv6.echo=" << int(ICMPv6::ECHO_REQUEST) << "/" << int(ICMPv6::ECHO_REPLY)
      << " icmpv6.rs=" << int(ICMPv6::ROUTER_SOLICIT) << "/" << int(ICMPv6::ROUTER_ADVERT)
      << " icmpv6.ns=" << int(ICMPv6::NEIGHBOUR_SOLICIT) << "/" << int(ICMPv6::NEIGHBOUR_ADVERT)
      << " ip.proto.icmp=" << int(Constants::IP::PROTO_ICMP) << " ext=";
    bool first = true;
    for (int h = 0; h < 256; ++h)
        if (IPv6::is_extension_header(uint8_t(h))) { o << (first ? "" : ",") << h; first = false; }
    return o.str();
}

int main() {
    return line_loop([&](const std::string& line) -> std::string {
        auto w = words(line);
        try {
            if (w.size() == 1 && w[0] == "layout") return layout();
            if (w.size() == 2 && w[0] == "gen") {
                std::vector<LayerDesc> st = parse_stack(w[1]);
                PDU::serialization_type req = normalise(st);
                return "gen state=" + show_stack(st) + " mirror=" + to_hex(mirror_of(st)) + " req=" + to_hex(req);
            }
            if (w.size() >= 3 && w[0] == "m") {
                std::vector<LayerDesc> st = parse_stack(w[1]);
                bytes reply;
                if (!parse_hex(w[2], reply)) return "bad-op";
                std::vector<LayerDesc> norm = st;
                normalise(norm);
                if (show_stack(norm) != w[1]) return "state-mismatch " + show_stack(norm);
                std::unique_ptr<PDU> req(build(st, true));
                req->serialize();                                 // what PacketSender::send does before receiving
                // the reply occupies the last bytes of a heap block (ASan red zone starts at buf + size, also for size 0:
                // malloc(0) itself would give a 1-byte region whose first byte is readable)
                uint8_t* block = static_cast<uint8_t*>(std::malloc(reply.size() + 16));
                uint8_t* buf = block + 16;
                if (!reply.empty()) std::memcpy(buf, reply.data(), reply.size());
                bool r = req->matches_response(buf, uint32_t(reply.size()));
                std::free(block);
                return r ? "r=1" : "r=0";
            }
        } catch (const std::runtime_error& e) {
            if (dynamic_cast<const exception_base*>(&e)) throw;
            return std::string("bad-op ") + e.what();
        }
        return "bad-op";
    });
}
