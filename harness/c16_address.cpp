// C16 correspondence harness: drives the real IPv4Address / IPv6Address / HWAddress<6> / AddressRange<> objects.
// Every op is one self-contained line (F = 4 | 6 | h, addresses as hex of their bytes in text order):
//   cmp F a b            -> lt= gt= le= ge= eq= ne= hash=<std::hash(a) or -> heq=<hash(a)==hash(b)>
//   bit F a b            -> and= or= not=
//   txt F <hex of text>  -> ok <addr> | throw invalid_address      (constructor from std::string AND from const char*;
//                           `ctor-differs …` when the two disagree)
//   fmt F a              -> s=<hex of to_string()> back=<addr parsed back from that text | throw ..>
//                           (`stream-differs` when operator<< prints something else than to_string())
//   pfx F a p [cap]      -> mask= first= last= it= n= ov= f= l= h=        (a / p)
//   msk F a m [cap]      -> first= last= it= n= ov= f= l= h=              (AddressRange::from_mask(a, m))
//   rng F first last oh [cap] -> it= n= ov= f= l= h=  | throw invalid_range    (AddressRange(first, last, oh))
//   has F first last x   -> c=                                            (contains)
//   inc F a | dec F a    -> a= r=                                         (Internals::increment / decrement)
// Iteration (begin()..end()) is only run when is_iterable() is true, is capped at `cap` (default CAP) steps (ov=1 when the cap was
// hit before reaching end()), and is summarised by count, first, last and FNV-1a of all visited address bytes.
#include "common.h"
#include <tins/ip_address.h>
#include <tins/ipv6_address.h>
#include <tins/hw_address.h>
#include <tins/address_range.h>
#include <tins/detail/address_helpers.h>
#include <functional>
#include <stdexcept>
using namespace Tins;
using namespace vh;

static const size_t CAP = 66000;
static size_t cap_arg(const std::vector<std::string>& w, size_t i) {
    return w.size() > i ? size_t(std::strtoull(w[i].c_str(), 0, 10)) : CAP;
}

struct bad_op {};

template <typename A> struct Fam;
template <> struct Fam<IPv4Address> {
    static const size_t N = 4;
    static IPv4Address make(const bytes& b) { uint32_t v; std::memcpy(&v, b.data(), 4); return IPv4Address(v); }
    static bytes get(const IPv4Address& a) { uint32_t v = a; bytes b(4); std::memcpy(b.data(), &v, 4); return b; }
    static std::string mask(int p) { return to_hex(get(IPv4Address::from_prefix_length(uint32_t(p)))); }
};
template <> struct Fam<IPv6Address> {
    static const size_t N = 16;
    static IPv6Address make(const bytes& b) { return IPv6Address(b.data()); }
    static bytes get(const IPv6Address& a) { return bytes(a.begin(), a.end()); }
    static std::string mask(int p) { return to_hex(get(IPv6Address::from_prefix_length(uint32_t(p)))); }
};
template <> struct Fam<HWAddress<6> > {
    static const size_t N = 6;
    static HWAddress<6> make(const bytes& b) { return HWAddress<6>(b.data()); }
    static bytes get(const HWAddress<6>& a) { return bytes(a.begin(), a.end()); }
    static std::string mask(int) { return "-"; }
};

template <typename A> A addr_of(const std::string& h) {
    bytes b;
    if (!parse_hex(h, b) || b.size() != Fam<A>::N) throw bad_op();
    return Fam<A>::make(b);
}
template <typename A> std::string hx(const A& a) { return to_hex(Fam<A>::get(a)); }

static std::string text_of(const std::string& h) {
    bytes b;
    if (!parse_hex(h, b)) throw bad_op();
    return std::string(b.begin(), b.end());
}

template <typename A> std::string iterate(const AddressRange<A>& r, size_t cap) {
    std::ostringstream o;
    bool itb = r.is_iterable();
    o << "it=" << itb;
    if (!itb) return o.str();
    size_t n = 0;
    bool ov = false;
    uint64_t h = 14695981039346656037ULL;
    std::string f = "-", l = "-";
    typename AddressRange<A>::const_iterator it = r.begin(), e = r.end();
    for (; it != e; ++it) {
        if (n == cap) { ov = true; break; }
        bytes b = Fam<A>::get(*it);
        for (size_t i = 0; i < b.size(); ++i) { h ^= b[i]; h *= 1099511628211ULL; }
        if (n == 0) f = to_hex(b);
        l = to_hex(b);
        ++n;
    }
    o << " n=" << n << " ov=" << ov << " f=" << f << " l=" << l << " h=" << h;
    return o.str();
}

template <typename A> std::string ends(const AddressRange<A>& r) {
    // harness is compiled with -fno-access-control: the stored ends themselves
    return "first=" + hx(r.first_) + " last=" + hx(r.last_);
}

template <typename A> std::string run(const std::vector<std::string>& w) {
    const std::string& op = w[0];
    std::ostringstream o;
    if (op == "cmp" && w.size() >= 4) {
        A a = addr_of<A>(w[2]), b = addr_of<A>(w[3]);
        size_t ha = std::hash<A>()(a), hb = std::hash<A>()(b);
        o << "lt=" << (a < b) << " gt=" << (a > b) << " le=" << (a <= b) << " ge=" << (a >= b)
          << " eq=" << (a == b) << " ne=" << (a != b) << " hash=";
        if (Fam<A>::N == 6) o << "-"; else o << ha;
        o << " heq=" << (ha == hb);
        return o.str();
    }
    if (op == "bit" && w.size() >= 4) {
        A a = addr_of<A>(w[2]), b = addr_of<A>(w[3]);
        return "and=" + hx(a & b) + " or=" + hx(a | b) + " not=" + hx(~a);
    }
    if (op == "txt" && w.size() >= 3) {
        std::string s = text_of(w[2]);
        std::string r1, r2;
        try { r1 = "ok " + hx(A(s)); } catch (const std::exception& e) { r1 = "throw " + exc_name(e); }
        try { r2 = "ok " + hx(A(s.c_str())); } catch (const std::exception& e) { r2 = "throw " + exc_name(e); }
        if (r1 != r2) return "ctor-differs string=" + r1.substr(r1.find(' ') + 1) + " cstr=" + r2.substr(r2.find(' ') + 1);
        return r1;
    }
    if (op == "fmt" && w.size() >= 3) {
        A a = addr_of<A>(w[2]);
        std::string s = a.to_string();
        std::ostringstream os;
        os << a;
        if (os.str() != s) return "stream-differs";
        std::string back;
        try { back = hx(A(s)); } catch (const std::exception& e) { back = "throw:" + exc_name(e); }
        return "s=" + to_hex(reinterpret_cast<const uint8_t*>(s.data()), s.size()) + " back=" + back;
    }
    if (op == "pfx" && w.size() >= 4) {
        A a = addr_of<A>(w[2]);
        int p = std::atoi(w[3].c_str());            // negative prefix lengths are passed on as they are
        AddressRange<A> r = a / p;
        if (p < 0) return "accepted-negative-prefix " + ends(r);
        return "mask=" + Fam<A>::mask(p) + " " + ends(r) + " " + iterate(r, cap_arg(w, 4));
    }
    if (op == "msk" && w.size() >= 4) {
        A a = addr_of<A>(w[2]), m = addr_of<A>(w[3]);
        AddressRange<A> r = AddressRange<A>::from_mask(a, m);
        return ends(r) + " " + iterate(r, cap_arg(w, 4));
    }
    if (op == "rng" && w.size() >= 5) {
        A a = addr_of<A>(w[2]), b = addr_of<A>(w[3]);
        AddressRange<A> r(a, b, w[4] == "1");
        return iterate(r, cap_arg(w, 5));
    }
    if (op == "has" && w.size() >= 5) {
        A a = addr_of<A>(w[2]), b = addr_of<A>(w[3]), x = addr_of<A>(w[4]);
        AddressRange<A> r(a, b);
        o << "c=" << r.contains(x);
        return o.str();
    }
    if ((op == "inc" || op == "dec") && w.size() >= 3) {
        A a = addr_of<A>(w[2]);
        bool r = op == "inc" ? Internals::increment(a) : Internals::decrement(a);
        o << "a=" << hx(a) << " r=" << r;
        return o.str();
    }
    throw bad_op();
}

int main() {
    return line_loop([&](const std::string& line) -> std::string {
        auto w = words(line);
        try {
            if (w.size() < 2) return "bad-op";
            if (w[1] == "4") return run<IPv4Address>(w);
            if (w[1] == "6") return run<IPv6Address>(w);
            if (w[1] == "h") return run<HWAddress<6> >(w);
            return "bad-op";
        } catch (const bad_op&) {
            return "bad-op";
        } catch (const std::logic_error&) {
            return "throw logic_error";
        } catch (const exception_base& e) {
            if (typeid(e) == typeid(exception_base)) return "throw invalid_range";
            throw;
        }
    });
}
