// C12 correspondence harness, storage level of PDUOption: runs construct / copy / move / assign / destroy / vector
// programs on REAL `PDUOption<uint8_t, IP>` objects (ASan+UBSan+LSan build) and prints, after every step, what every
// live option reports (option(), length_field(), data_size(), the data bytes read through data_ptr()) together with
// the number and total size of the heap blocks the options currently hold (ASan allocator hooks: every allocation
// made while an option operation runs is tracked until it is freed).
//
// Pool: `n` user slots (each object in its own raw storage block, constructed / destroyed in place, so ASan sees
// every object separately) followed by the elements of one `std::vector<Opt>` with reserved capacity `cap`
// (slot n+k = vec[k]).
//
//   sinit n cap | send
//   snull i code len            PDUOption(code, len)                       (no data pointer)
//   sdata i code len fill       PDUOption(code, len, ptr)                  data byte k = (fill + k) % 256
//   srange i code len fill      PDUOption(code, begin, end)
//   sadv i code adv len fill    PDUOption(code, uint16_t(adv), begin, end) advertised length != real length
//   scopy i j | smove i j       construct slot i from slot j (copy / move constructor)
//   sassign i j | smassign i j  slot i = slot j / = std::move(slot j)      (i == j allowed: through references)
//   sdel i | sread i
//   vpush j | vmove j | verase k | vpop
//
// Output: `<status> blocks=<n> bytes=<m> | <slot> | ...`; slot = `-` | `code:length_field:data_size:<hex | #fnv64>`
#include "common.h"
#include <tins/tins.h>
// <sanitizer/allocator_interface.h> (the header is not installed with every libasan package)
extern "C" int __sanitizer_install_malloc_and_free_hooks(void (*malloc_hook)(const volatile void*, size_t),
                                                         void (*free_hook)(const volatile void*));
#include <new>
using namespace Tins;
using namespace vh;

typedef PDUOption<uint8_t, IP> Opt;

// ---------------------------------------------------------------- heap census (no allocation inside the hooks)
static volatile bool g_window = false;
static const size_t MAXTRACK = 4096;
static const volatile void* g_ptr[MAXTRACK];
static size_t g_sz[MAXTRACK];
static size_t g_ntrack = 0;
static bool g_overflow = false;

static void on_malloc(const volatile void* p, size_t n) {
    if (!g_window || !p) return;
    if (g_ntrack == MAXTRACK) { g_overflow = true; return; }
    g_ptr[g_ntrack] = p; g_sz[g_ntrack] = n; ++g_ntrack;
}
static void on_free(const volatile void* p) {
    if (!p) return;
    for (size_t i = g_ntrack; i-- > 0;)
        if (g_ptr[i] == p) { g_ptr[i] = g_ptr[g_ntrack - 1]; g_sz[i] = g_sz[g_ntrack - 1]; --g_ntrack; return; }
}
struct Window {          // the option operation itself: everything it allocates is an option's heap block
    Window() { g_window = true; }
    ~Window() { g_window = false; }
};

// ---------------------------------------------------------------- pool
static std::vector<Opt*> g_user;         // 0 = empty slot
static std::vector<Opt> g_vec;
static size_t g_cap = 0;
static uint8_t g_dummy[1];

static size_t nslots() { return g_user.size() + g_cap; }
static bool live(size_t i) {
    if (i < g_user.size()) return g_user[i] != 0;
    return i - g_user.size() < g_vec.size();
}
static Opt& ref(size_t i) {
    if (i < g_user.size()) return *g_user[i];
    return g_vec[i - g_user.size()];
}
static void destroy_user(size_t i) {
    Opt* p = g_user[i];
    { Window w; p->~Opt(); }
    ::operator delete(static_cast<void*>(p));
    g_user[i] = 0;
}
static void destroy_all() {
    for (size_t i = 0; i < g_user.size(); ++i) if (g_user[i]) destroy_user(i);
    { Window w; g_vec.clear(); }
}

static std::string show_data(const Opt& o) {
    // every byte is read through data_ptr(): a dangling or short buffer is an ASan report on this line
    size_t n = o.data_size();
    bytes b(n);
    const uint8_t* p = o.data_ptr();
    for (size_t k = 0; k < n; ++k) b[k] = p[k];
    if (n <= 32) return to_hex(b);
    std::ostringstream s; s << "#" << fnv(b);
    return s.str();
}

static std::string show(const std::string& status) {
    std::ostringstream o;
    size_t total = 0;
    for (size_t i = 0; i < g_ntrack; ++i) total += g_sz[i];
    o << status << " blocks=" << g_ntrack << " bytes=" << total;
    if (g_overflow) o << " census-overflow";
    for (size_t i = 0; i < nslots(); ++i) {
        o << " | ";
        if (!live(i)) { o << "-"; continue; }
        const Opt& x = ref(i);
        o << unsigned(x.option()) << ":" << x.length_field() << ":" << x.data_size() << ":" << show_data(x);
    }
    return o.str();
}

static bytes fill_bytes(size_t len, size_t fill) {
    bytes b(len);
    for (size_t k = 0; k < len; ++k) b[k] = uint8_t((fill + k) % 256);
    bytes exact(b.begin(), b.end());
    exact.shrink_to_fit();
    return exact;
}

struct Ill {};

static size_t num(const std::string& w) { return size_t(std::stoull(w)); }
static size_t free_user_slot(const std::string& w) {
    size_t i = num(w);
    if (i >= g_user.size() || g_user[i]) throw Ill();
    return i;
}
static size_t live_slot(const std::string& w) {
    size_t i = num(w);
    if (i >= nslots() || !live(i)) throw Ill();
    return i;
}

static std::string step(const std::vector<std::string>& w) {
    const std::string& op = w[0];
    size_t n = w.size();
    std::string status = "ok";
    #define NEED(k) if (n != (k)) return "bad-op"
    try {
        if (op == "snull" || op == "sdata" || op == "srange" || op == "sadv") {
            if (op == "snull") NEED(4); else if (op == "sadv") NEED(6); else NEED(5);
            size_t i = free_user_slot(w[1]);
            uint8_t code = uint8_t(num(w[2]) % 256);
            size_t adv = (op == "sadv") ? num(w[3]) : 0;
            size_t len = (op == "snull") ? num(w[3]) : (op == "sadv") ? num(w[4]) : num(w[3]);
            bytes b = (op == "snull") ? bytes() : fill_bytes(len, num(w[n - 1]));
            void* raw = ::operator new(sizeof(Opt));
            Opt* p = 0;
            try {
                Window win;
                if (op == "snull") p = new (raw) Opt(code, len);
                else if (op == "sdata") p = new (raw) Opt(code, b.size(), b.empty() ? g_dummy : b.data());
                else if (op == "srange") p = new (raw) Opt(code, b.begin(), b.end());
                else p = new (raw) Opt(code, uint16_t(adv), b.begin(), b.end());
            } catch (const option_payload_too_large&) {
                status = "throw:option_payload_too_large";
            }
            if (p) g_user[i] = p; else ::operator delete(raw);
        } else if (op == "scopy" || op == "smove") {
            NEED(3);
            size_t i = free_user_slot(w[1]);
            size_t j = live_slot(w[2]);
            void* raw = ::operator new(sizeof(Opt));
            Opt& src = ref(j);
            Window win;
            g_user[i] = (op == "scopy") ? new (raw) Opt(src) : new (raw) Opt(std::move(src));
        } else if (op == "sassign" || op == "smassign") {
            NEED(3);
            size_t i = live_slot(w[1]);
            size_t j = live_slot(w[2]);
            Opt& a = ref(i);
            Opt& b = ref(j);          // i == j: the same object through two references
            Window win;
            if (op == "sassign") a = b; else a = std::move(b);
        } else if (op == "sdel") {
            NEED(2);
            size_t i = num(w[1]);
            if (i >= g_user.size() || !g_user[i]) throw Ill();
            destroy_user(i);
        } else if (op == "sread") {
            NEED(2);
            size_t i = live_slot(w[1]);
            volatile size_t sink = ref(i).option() + ref(i).length_field() + show_data(ref(i)).size();
            (void) sink;
        } else if (op == "vpush" || op == "vmove") {
            NEED(2);
            size_t j = live_slot(w[1]);
            if (g_vec.size() >= g_cap) throw Ill();
            Opt& src = ref(j);
            Window win;
            if (op == "vpush") g_vec.push_back(src); else g_vec.push_back(std::move(src));
        } else if (op == "verase") {
            NEED(2);
            size_t k = num(w[1]);
            if (k >= g_vec.size()) throw Ill();
            Window win;
            g_vec.erase(g_vec.begin() + k);
        } else if (op == "vpop") {
            NEED(1);
            if (g_vec.empty()) throw Ill();
            Window win;
            g_vec.pop_back();
        } else {
            return "bad-op";
        }
    } catch (const Ill&) {
        return show("illformed");
    } catch (const std::invalid_argument&) {
        return "bad-op";
    } catch (const std::out_of_range&) {
        return "bad-op";
    }
    return show(status);
}

int main() {
    if (__sanitizer_install_malloc_and_free_hooks(&on_malloc, &on_free) <= 0) {
        std::fprintf(stderr, "cannot install the allocator hooks\n");
        return 3;
    }
    int rc = line_loop([&](const std::string& line) -> std::string {
        std::vector<std::string> w = words(line);
        if (w.empty()) return "bad-op";
        if (w[0] == "sinit") {
            if (w.size() != 3) return "bad-op";
            destroy_all();
            g_ntrack = 0; g_overflow = false;      // a leak is reported by the `send` of its own case, not inherited
            size_t n = num(w[1]);
            g_cap = num(w[2]);
            if (n > 64 || g_cap > 64) return "bad-op";
            g_user.assign(n, static_cast<Opt*>(0));
            std::vector<Opt>().swap(g_vec);
            g_vec.reserve(g_cap);
            return show("init");
        }
        if (w[0] == "send") {
            if (w.size() != 1) return "bad-op";
            destroy_all();
            return show("end");
        }
        return step(w);
    });
    destroy_all();
    std::vector<Opt>().swap(g_vec);
    return rc;
}
