// canonical rendering of a buffered chunk, shared by the three C06 harnesses and mirrored by lean/Driver/C06.lean:
//   <key>:<hex>            for chunks of at most 32 bytes
//   <key>:#<len>.<fnv64>   for longer chunks (keeps the output of 64 KiB streams with hundreds of segments small)
#pragma once
#include "common.h"
namespace vh {
inline std::string show_chunk(uint32_t key, const bytes& d) {
    std::ostringstream o;
    o << key << ":";
    if (d.size() <= 32) o << to_hex(d);
    else o << "#" << d.size() << "." << fnv(d);
    return o.str();
}
}
