// C09 correspondence harness: drives the real WEPDecrypter / WPA2Decrypter / RSNHandshakeCapturer.
//
//   c09_crypto            decrypt mode, one result line per op:
//     case                                   fresh decrypters
//     weppw <addr> <keyhex>                  WEPDecrypter::add_password
//     weprm <addr>                           WEPDecrypter::remove_password
//     wep <framehex> [@ ...]                 Dot11::from_bytes + WEPDecrypter::decrypt
//     ptk <addr> <addr> <ptkhex> <0|1>       WPA2Decrypter::add_decryption_keys(SessionKeys(ptk, is_ccmp))
//     apdata <pskhex> <ssidhex> [...]        WPA2Decrypter::add_ap_data(psk, ssid)
//     apaddr <pskhex> <ssidhex> <addr> [...] WPA2Decrypter::add_ap_data(psk, ssid, addr)
//     wpa <framehex> [@ ...]                 Dot11::from_bytes + WPA2Decrypter::decrypt (+ a stand-alone capturer);
//                                            lk= lists the key-table entries announced by handshake callbacks
//   c09_crypto gen        reference encryptor mode (independent of libtins, see c09_ref.h):
//     wepenc <keyhex> <iv3hex> <keyid> <pthex>                               -> protected body
//     tkipenc <tk16> <mickey8> <ta> <da> <sa> <prio> <tsc> <keyid> <pthex>   -> protected body
//     ccmpenc <tk16> <hdrhex> <pn> <keyid> <pthex>                           -> protected body
//     aes <key16> <block16>                                                  -> AES-128 encryption of the block
// Everything after a token "@" on an op line is an annotation for the spec oracle and is ignored here.
#include "common.h"
#include "c09_ref.h"
#include <tins/crypto.h>
#include <tins/dot11.h>
#include <tins/snap.h>
#include <tins/rawpdu.h>
#include <tins/eapol.h>
#include <tins/handshake_capturer.h>
#include <algorithm>
#include <memory>
using namespace Tins;
using namespace vh;

typedef HWAddress<6> addr_t;

static bool parse_addr(const std::string& s, addr_t& a) {
    bytes b;
    if (!parse_hex(s, b) || b.size() != 6) return false;
    a = addr_t(b.data());
    return true;
}
static std::string addr_hex(const addr_t& a) { return to_hex(a.begin(), 6); }

// canonical description of what hangs below the Dot11Data after a decrypt call
static std::string show_inner(const PDU* p) {
    if (!p) return "none";
    if (const RawPDU* r = dynamic_cast<const RawPDU*>(p)) return "raw:" + to_hex(r->payload());
    if (const SNAP* s = dynamic_cast<const SNAP*>(p)) {
        std::ostringstream o;
        o << "snap:" << int(s->dsap()) << "," << int(s->ssap()) << "," << int(s->control()) << ","
          << uint32_t(s->org_code()) << "," << s->eth_type() << ":";
        const PDU* q = s->inner_pdu();
        if (!q) o << "none";
        else if (const RawPDU* r = dynamic_cast<const RawPDU*>(q)) o << "raw:" << to_hex(r->payload());
        else o << "pdu" << int(q->pdu_type());
        return o.str();
    }
    return "pdu" + std::to_string(int(p->pdu_type()));
}

struct State {
    Crypto::WEPDecrypter wep;
    Crypto::WPA2Decrypter wpa;
    RSNHandshakeCapturer cap;
    std::vector<std::string> events;
    std::vector<std::pair<addr_t, addr_t> > learned;     // (bssid, client) of the handshake callbacks since the last line
    State() {
        wpa.handshake_captured_callback([this](const std::string& ssid, const addr_t& bssid, const addr_t& client) {
            events.push_back("hs:" + to_hex((const uint8_t*)ssid.data(), ssid.size()) + ":" + addr_hex(bssid) + ":" + addr_hex(client));
            learned.push_back(std::make_pair(bssid, client));
        });
        wpa.ap_found_callback([this](const std::string& ssid, const addr_t& bssid) {
            events.push_back("ap:" + to_hex((const uint8_t*)ssid.data(), ssid.size()) + ":" + addr_hex(bssid));
        });
    }
};

static std::string show_keys(const Crypto::WPA2Decrypter& w) {
    std::ostringstream o;
    bool first = true;
    for (auto& kv : w.get_keys()) {      // std::map ordered by (addr, addr)
        if (!first) o << ",";
        first = false;
        o << addr_hex(kv.first.first) << addr_hex(kv.first.second) << ":" << (kv.second.uses_ccmp() ? 1 : 0) << ":"
          << to_hex(kv.second.get_ptk());
    }
    return first ? "-" : o.str();
}

// the key-table entries the handshake callbacks of this line announced: "<lo><hi>:<ccmp>:<ptk>" (the map key is sorted)
static std::string show_learned(State& st) {
    std::string s;
    for (auto& p : st.learned) {
        addr_t lo = p.first < p.second ? p.first : p.second, hi = p.first < p.second ? p.second : p.first;
        auto it = st.wpa.get_keys().find(std::make_pair(lo, hi));
        if (!s.empty()) s += ",";
        if (it == st.wpa.get_keys().end()) s += addr_hex(lo) + addr_hex(hi) + ":none";
        else s += addr_hex(lo) + addr_hex(hi) + ":" + (it->second.uses_ccmp() ? "1" : "0") + ":" + to_hex(it->second.get_ptk());
    }
    st.learned.clear();
    return s.empty() ? "-" : s;
}

static std::string show_events(State& st) {
    if (st.events.empty()) return "-";
    std::string s;
    for (size_t i = 0; i < st.events.size(); ++i) s += (i ? "," : "") + st.events[i];
    st.events.clear();
    return s;
}

static std::string show_handshakes(RSNHandshakeCapturer& c) {
    std::ostringstream o;
    bool first = true;
    for (auto& hs : c.handshakes()) {
        if (!first) o << ",";
        first = false;
        o << addr_hex(hs.client_address()) << addr_hex(hs.supplicant_address()) << "/" << hs.handshake().size();
        for (auto& e : hs.handshake()) {
            RSNEAPOL& m = const_cast<RSNEAPOL&>(e);
            PDU::serialization_type ser = m.serialize();
            o << "/" << fnv(ser.data(), ser.size());
        }
    }
    c.clear_handshakes();
    return first ? "-" : o.str();
}

static int gen_mode() {
    return line_loop([&](const std::string& line) -> std::string {
        auto w = words(line);
        if (w.size() == 5 && w[0] == "wepenc") {
            bytes key, iv, pt;
            if (!parse_hex(w[1], key) || !parse_hex(w[2], iv) || iv.size() != 3 || !parse_hex(w[4], pt)) return "bad-op";
            return to_hex(ref::wep_encap(key, iv.data(), unsigned(std::stoul(w[3])), pt));
        }
        if (w.size() == 10 && w[0] == "tkipenc") {
            bytes tk, mk, ta, da, sa, pt;
            if (!parse_hex(w[1], tk) || tk.size() != 16 || !parse_hex(w[2], mk) || mk.size() != 8 ||
                !parse_hex(w[3], ta) || ta.size() != 6 || !parse_hex(w[4], da) || da.size() != 6 ||
                !parse_hex(w[5], sa) || sa.size() != 6 || !parse_hex(w[9], pt)) return "bad-op";
            return to_hex(ref::tkip_encap(tk.data(), mk.data(), ta.data(), da.data(), sa.data(), uint8_t(std::stoul(w[6])),
                                          std::stoull(w[7]), unsigned(std::stoul(w[8])), pt));
        }
        if (w.size() == 6 && w[0] == "ccmpenc") {
            bytes tk, h, pt;
            if (!parse_hex(w[1], tk) || tk.size() != 16 || !parse_hex(w[2], h) || h.size() < 24 || !parse_hex(w[5], pt)) return "bad-op";
            size_t need = 24 + ((h[1] & 3) == 3 ? 6 : 0) + ((h[0] & 0x80) ? 2 : 0) + (((h[0] & 0x80) && (h[1] & 0x80)) ? 4 : 0);
            if (h.size() < need) return "bad-op";
            return to_hex(ref::ccmp_encap(tk.data(), h, std::stoull(w[3]), unsigned(std::stoul(w[4])), pt));
        }
        if (w.size() == 3 && w[0] == "aes") {
            bytes k, b;
            if (!parse_hex(w[1], k) || k.size() != 16 || !parse_hex(w[2], b) || b.size() != 16) return "bad-op";
            AES_KEY ks; AES_set_encrypt_key(k.data(), 128, &ks);
            uint8_t o[16]; AES_encrypt(b.data(), o, &ks);
            return to_hex(o, 16);
        }
        return "bad-op";
    });
}

int main(int argc, char** argv) {
    if (argc > 1 && std::string(argv[1]) == "gen") return gen_mode();
    std::unique_ptr<State> st(new State());
    return line_loop([&](const std::string& line) -> std::string {
        auto w = words(line);
        if (w.empty()) return "bad-op";
        if (w[0] == "case") { st.reset(new State()); return "case"; }
        if (w[0] == "weppw" && w.size() >= 3) {
            addr_t a; bytes k;
            if (!parse_addr(w[1], a) || !parse_hex(w[2], k)) return "bad-op";
            st->wep.add_password(a, std::string(k.begin(), k.end()));
            return "ok";
        }
        if (w[0] == "weprm" && w.size() >= 2) {
            addr_t a;
            if (!parse_addr(w[1], a)) return "bad-op";
            st->wep.remove_password(a);
            return "ok";
        }
        if (w[0] == "ptk" && w.size() >= 5) {
            addr_t a, b; bytes k;
            if (!parse_addr(w[1], a) || !parse_addr(w[2], b) || !parse_hex(w[3], k)) return "bad-op";
            try {
                Crypto::WPA2::SessionKeys sk(k, w[4] == "1");
                st->wpa.add_decryption_keys(std::make_pair(a, b), sk);
            } catch (const Crypto::WPA2::invalid_handshake&) {
                return "throw invalid_handshake keys=" + show_keys(st->wpa);
            }
            return "ok keys=" + show_keys(st->wpa);
        }
        if ((w[0] == "apdata" && w.size() >= 3) || (w[0] == "apaddr" && w.size() >= 4)) {
            bytes psk, ssid; addr_t a;
            if (!parse_hex(w[1], psk) || !parse_hex(w[2], ssid)) return "bad-op";
            std::string p(psk.begin(), psk.end()), s(ssid.begin(), ssid.end());
            if (w[0] == "apaddr") {
                if (!parse_addr(w[3], a)) return "bad-op";
                st->wpa.add_ap_data(p, s, a);
            } else {
                st->wpa.add_ap_data(p, s);
            }
            return "ok ev=" + show_events(*st);
        }
        if ((w[0] == "wep" || w[0] == "wpa") && w.size() >= 2) {
            bytes f;
            if (!parse_hex(w[1], f)) return "bad-op";
            std::unique_ptr<PDU> pdu;
            try {
                pdu.reset(Dot11::from_bytes(f.data(), uint32_t(f.size())));
            } catch (const std::exception& e) {
                return "parse-throw " + exc_name(e);
            }
            std::string r;
            std::string hs = "";
            try {
                if (w[0] == "wep") {
                    r = st->wep.decrypt(*pdu) ? "1" : "0";
                } else {
                    // the stand-alone capturer sees the frame first (it does not modify it)
                    bool c = st->cap.process_packet(*pdu);
                    hs = std::string(" cap=") + (c ? "1" : "0") + " hs=" + show_handshakes(st->cap);
                    r = st->wpa.decrypt(*pdu) ? "1" : "0";
                }
            } catch (const std::exception& e) {
                r = "throw:" + exc_name(e);
            }
            const Dot11Data* d = pdu->find_pdu<Dot11Data>();
            std::ostringstream o;
            o << "r=" << r;
            if (!d) o << " nodata";
            else o << " prot=" << int(d->wep()) << " inner=" << show_inner(d->inner_pdu());
            if (w[0] == "wpa") {
                o << hs << " ev=" << show_events(*st) << " nk=" << st->wpa.get_keys().size() << " lk=" << show_learned(*st);
                // what the parsers made of the frame: the RSNEAPOL (key length / serialization) or the beacon (BSSID / SSID)
                if (const RSNEAPOL* e = pdu->find_pdu<RSNEAPOL>()) {
                    PDU::serialization_type ser = const_cast<RSNEAPOL*>(e)->serialize();
                    o << " e=" << e->key().size() << "/" << ser.size() << "/" << fnv(ser.data(), ser.size());
                }
                if (const Dot11Beacon* b = pdu->find_pdu<Dot11Beacon>()) {
                    o << " b=" << addr_hex(b->addr3()) << "/";
                    try { std::string s = b->ssid(); o << "s" << to_hex((const uint8_t*)s.data(), s.size()); }
                    catch (const option_not_found&) { o << "none"; }
                }
            }
            return o.str();
        }
        if (w[0] == "keys") return "keys=" + show_keys(st->wpa);
        if (w[0] == "aes" && w.size() == 3) {       // OpenSSL AES-128 (validates the Lean AES used to run the CCMP model)
            bytes k, b;
            if (!parse_hex(w[1], k) || k.size() != 16 || !parse_hex(w[2], b) || b.size() != 16) return "bad-op";
            AES_KEY ks; AES_set_encrypt_key(k.data(), 128, &ks);
            uint8_t o[16]; AES_encrypt(b.data(), o, &ks);
            return "aes " + to_hex(o, 16);
        }
        return "bad-op";
    });
}
