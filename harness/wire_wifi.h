// Wifi family: RadioTap (parse/serialize; setters are property C11's), the Dot11 class family, RC4EAPOL, RSNEAPOL.
// Field names, order and values mirror lean/TinsModel/Wire/Wifi/{Dot11,Tagged,Eapol,RadioTap}.lean.
#pragma once
#include "wire_iface.h"
#include <tins/rsn_information.h>
#include <stdexcept>
#include <initializer_list>
namespace wire {

inline bool wifi_hex(const std::string& s, size_t n, bytes& out) {
    return vh::parse_hex(s, out) && out.size() == n;
}

inline unsigned long wifi_num(const std::string& s) { return std::stoul(s); }

inline std::vector<std::string> wifi_split(const std::string& s, char sep) {
    std::vector<std::string> out;
    if (s == "-") return out;
    std::string cur;
    for (size_t i = 0; i < s.size(); ++i) {
        if (s[i] == sep) { out.push_back(cur); cur.clear(); }
        else cur.push_back(s[i]);
    }
    out.push_back(cur);
    return out;
}

inline unsigned wifi_caps(const Dot11ManagementFrame::capability_information& c) {
    return unsigned(c.ess()) | unsigned(c.ibss()) << 1 | unsigned(c.cf_poll()) << 2 | unsigned(c.cf_poll_req()) << 3 |
           unsigned(c.privacy()) << 4 | unsigned(c.short_preamble()) << 5 | unsigned(c.pbcc()) << 6 |
           unsigned(c.channel_agility()) << 7 | unsigned(c.spectrum_mgmt()) << 8 | unsigned(c.qos()) << 9 |
           unsigned(c.sst()) << 10 | unsigned(c.apsd()) << 11 | unsigned(c.radio_measurement()) << 12 |
           unsigned(c.dsss_ofdm()) << 13 | unsigned(c.delayed_block_ack()) << 14 | unsigned(c.immediate_block_ack()) << 15;
}

inline void wifi_set_cap(Dot11ManagementFrame::capability_information& c, unsigned bit, bool v) {
    switch (bit) {
        case 0: c.ess(v); break; case 1: c.ibss(v); break; case 2: c.cf_poll(v); break; case 3: c.cf_poll_req(v); break;
        case 4: c.privacy(v); break; case 5: c.short_preamble(v); break; case 6: c.pbcc(v); break;
        case 7: c.channel_agility(v); break; case 8: c.spectrum_mgmt(v); break; case 9: c.qos(v); break;
        case 10: c.sst(v); break; case 11: c.apsd(v); break; case 12: c.radio_measurement(v); break;
        case 13: c.dsss_ofdm(v); break; case 14: c.delayed_block_ack(v); break; case 15: c.immediate_block_ack(v); break;
    }
}

inline void dot11_base_dump(FieldDump& f, const Dot11& d) {
    f.num("protocol", d.protocol()).num("type", d.type()).num("subtype", d.subtype()).num("to_ds", d.to_ds())
     .num("from_ds", d.from_ds()).num("more_frag", d.more_frag()).num("retry", d.retry()).num("power_mgmt", d.power_mgmt())
     .num("more_data", d.more_data()).num("wep", d.wep()).num("order", d.order()).num("duration_id", d.duration_id())
     .str("addr1", hex_of(d.addr1()));
}

template <typename T>
inline void dot11_ext_dump(FieldDump& f, const T& m) {
    f.str("addr2", hex_of(m.addr2())).str("addr3", hex_of(m.addr3())).num("frag_num", m.frag_num())
     .num("seq_num", m.seq_num()).str("addr4", (m.to_ds() && m.from_ds()) ? hex_of(m.addr4()) : std::string("-"));
}

inline std::string dot11_opts(const Dot11& d) {
    std::ostringstream o;
    bool first = true;
    for (Dot11::options_type::const_iterator it = d.options().begin(); it != d.options().end(); ++it) {
        if (!first) o << ",";
        first = false;
        o << unsigned(it->option()) << ":" << it->length_field() << ":" << vh::to_hex(it->data_ptr(), it->data_size());
    }
    return first ? "-" : o.str();
}

template <typename T>
inline void dot11_bar_dump(FieldDump& f, const T& b) {
    f.num("bar_control", b.bar_control()).num("start_sequence", b.start_sequence()).num("fragment_number", b.fragment_number());
}

// ---- typed getters of Dot11ManagementFrame as canonical text (mirrors Tagged.typedStr in the Lean model) ----
inline std::string wifi_us(std::initializer_list<unsigned long long> xs) {
    std::ostringstream o; bool f = true;
    for (unsigned long long x : xs) { if (!f) o << "_"; f = false; o << x; }
    return o.str();
}
inline std::string wifi_pairs_str(const std::vector<std::pair<uint8_t, uint8_t> >& ps) {
    if (ps.empty()) return "-";
    std::ostringstream o;
    for (size_t i = 0; i < ps.size(); ++i) { if (i) o << ","; o << unsigned(ps[i].first) << "." << unsigned(ps[i].second); }
    return o.str();
}
template <typename V>
inline std::string wifi_list_str(const V& xs, const char* sep) {
    if (xs.empty()) return "-";
    std::ostringstream o;
    for (size_t i = 0; i < xs.size(); ++i) { if (i) o << sep; o << (unsigned long long)xs[i]; }
    return o.str();
}
inline std::string wifi_rates_str(const Dot11ManagementFrame::rates_type& r) {
    std::vector<unsigned> v;
    for (size_t i = 0; i < r.size(); ++i) v.push_back(unsigned(r[i] * 2));
    return wifi_list_str(v, ",");
}
template <typename F>
inline void wifi_typed_item(std::string& out, const char* name, F f) {
    std::string v;
    try { v = f(); }
    catch (const option_not_found&) { return; }
    catch (const std::exception& e) { v = "!" + vh::exc_name(e); }
    if (!out.empty()) out += "|";
    out += std::string(name) + ":" + v;
}
inline std::string wifi_typed(const Dot11ManagementFrame& m) {
    typedef Dot11ManagementFrame M;
    std::string out;
    wifi_typed_item(out, "rsn_information", [&] {
        RSNInformation r = m.rsn_information();
        std::vector<uint32_t> pw(r.pairwise_cyphers().begin(), r.pairwise_cyphers().end()), ak(r.akm_cyphers().begin(), r.akm_cyphers().end());
        return wifi_us({r.version(), uint32_t(r.group_suite())}) + "_" + wifi_list_str(pw, "+") + "_" + wifi_list_str(ak, "+") + "_" + wifi_us({r.capabilities()});
    });
    wifi_typed_item(out, "ssid", [&] { std::string s = m.ssid(); return vh::to_hex((const uint8_t*)s.data(), s.size()); });
    wifi_typed_item(out, "supported_rates", [&] { return wifi_rates_str(m.supported_rates()); });
    wifi_typed_item(out, "extended_supported_rates", [&] { return wifi_rates_str(m.extended_supported_rates()); });
    wifi_typed_item(out, "qos_capability", [&] { return wifi_us({m.qos_capability()}); });
    wifi_typed_item(out, "power_capability", [&] { std::pair<uint8_t, uint8_t> p = m.power_capability(); return wifi_us({p.first, p.second}); });
    wifi_typed_item(out, "supported_channels", [&] { return wifi_pairs_str(m.supported_channels()); });
    wifi_typed_item(out, "request_information", [&] { M::request_info_type v = m.request_information(); return vh::to_hex(v); });
    wifi_typed_item(out, "fh_parameter_set", [&] { M::fh_params_set v = m.fh_parameter_set(); return wifi_us({v.dwell_time, v.hop_set, v.hop_pattern, v.hop_index}); });
    wifi_typed_item(out, "ds_parameter_set", [&] { return wifi_us({m.ds_parameter_set()}); });
    wifi_typed_item(out, "cf_parameter_set", [&] { M::cf_params_set v = m.cf_parameter_set(); return wifi_us({v.cfp_count, v.cfp_period, v.cfp_max_duration, v.cfp_dur_remaining}); });
    wifi_typed_item(out, "ibss_parameter_set", [&] { return wifi_us({m.ibss_parameter_set()}); });
    wifi_typed_item(out, "ibss_dfs", [&] { M::ibss_dfs_params v = m.ibss_dfs(); return hex_of(v.dfs_owner) + "_" + wifi_us({v.recovery_interval}) + "_" + wifi_pairs_str(v.channel_map); });
    wifi_typed_item(out, "country", [&] {
        M::country_params v = m.country();
        std::ostringstream o;
        o << vh::to_hex((const uint8_t*)v.country.data(), v.country.size()) << "_";
        if (v.first_channel.empty()) o << "-";
        for (size_t i = 0; i < v.first_channel.size(); ++i) {
            if (i) o << ",";
            o << unsigned(v.first_channel[i]) << "." << unsigned(v.number_channels.at(i)) << "." << unsigned(v.max_transmit_power.at(i));
        }
        return o.str();
    });
    wifi_typed_item(out, "fh_parameters", [&] { std::pair<uint8_t, uint8_t> p = m.fh_parameters(); return wifi_us({p.first, p.second}); });
    wifi_typed_item(out, "fh_pattern_table", [&] { M::fh_pattern_type v = m.fh_pattern_table(); return wifi_us({v.flag, v.number_of_sets, v.modulus, v.offset}) + "_" + vh::to_hex(v.random_table); });
    wifi_typed_item(out, "power_constraint", [&] { return wifi_us({m.power_constraint()}); });
    wifi_typed_item(out, "channel_switch", [&] { M::channel_switch_type v = m.channel_switch(); return wifi_us({v.switch_mode, v.new_channel, v.switch_count}); });
    wifi_typed_item(out, "quiet", [&] { M::quiet_type v = m.quiet(); return wifi_us({v.quiet_count, v.quiet_period, v.quiet_duration, v.quiet_offset}); });
    wifi_typed_item(out, "tpc_report", [&] { std::pair<uint8_t, uint8_t> p = m.tpc_report(); return wifi_us({p.first, p.second}); });
    wifi_typed_item(out, "erp_information", [&] { return wifi_us({m.erp_information()}); });
    wifi_typed_item(out, "bss_load", [&] { M::bss_load_type v = m.bss_load(); return wifi_us({v.station_count, v.channel_utilization, v.available_capacity}); });
    wifi_typed_item(out, "tim", [&] { M::tim_type v = m.tim(); return wifi_us({v.dtim_count, v.dtim_period, v.bitmap_control}) + "_" + vh::to_hex(v.partial_virtual_bitmap); });
    wifi_typed_item(out, "challenge_text", [&] { std::string s = m.challenge_text(); return vh::to_hex((const uint8_t*)s.data(), s.size()); });
    wifi_typed_item(out, "vendor_specific", [&] { M::vendor_specific_type v = m.vendor_specific(); return vh::to_hex(v.oui.begin(), 3) + "_" + vh::to_hex(v.data); });
    return out.empty() ? "-" : out;
}

inline bool wifi_dump(const PDU& p, std::string& out) {
    FieldDump f;
    switch (p.pdu_type()) {
        case PDU::DOT11: case PDU::DOT11_CONTROL: case PDU::DOT11_ACK:
            dot11_base_dump(f, static_cast<const Dot11&>(p));
            break;
        case PDU::DOT11_RTS: case PDU::DOT11_PS_POLL: case PDU::DOT11_CF_END: case PDU::DOT11_END_CF_ACK: {
            const Dot11ControlTA& t = static_cast<const Dot11ControlTA&>(p);
            dot11_base_dump(f, t);
            f.str("target_addr", hex_of(t.target_addr()));
            break;
        }
        case PDU::DOT11_BLOCK_ACK_REQ: {
            const Dot11BlockAckRequest& t = static_cast<const Dot11BlockAckRequest&>(p);
            dot11_base_dump(f, t);
            f.str("target_addr", hex_of(t.target_addr()));
            dot11_bar_dump(f, t);
            break;
        }
        case PDU::DOT11_BLOCK_ACK: {
            const Dot11BlockAck& t = static_cast<const Dot11BlockAck&>(p);
            dot11_base_dump(f, t);
            f.str("target_addr", hex_of(t.target_addr()));
            dot11_bar_dump(f, t);
            f.hex("bitmap", t.bitmap(), Dot11BlockAck::bitmap_size);
            break;
        }
        case PDU::DOT11_DATA: {
            const Dot11Data& t = static_cast<const Dot11Data&>(p);
            dot11_base_dump(f, t);
            dot11_ext_dump(f, t);
            break;
        }
        case PDU::DOT11_QOS_DATA: {
            const Dot11QoSData& t = static_cast<const Dot11QoSData&>(p);
            dot11_base_dump(f, t);
            dot11_ext_dump(f, t);
            f.num("qos_control", t.qos_control());
            break;
        }
        case PDU::DOT11_BEACON: {
            const Dot11Beacon& t = static_cast<const Dot11Beacon&>(p);
            dot11_base_dump(f, t); dot11_ext_dump(f, t);
            f.num("timestamp", t.timestamp()).num("interval", t.interval()).num("capabilities", wifi_caps(t.capabilities()));
            f.str("opts", dot11_opts(t)).str("typed", wifi_typed(t));
            break;
        }
        case PDU::DOT11_PROBE_RESP: {
            const Dot11ProbeResponse& t = static_cast<const Dot11ProbeResponse&>(p);
            dot11_base_dump(f, t); dot11_ext_dump(f, t);
            f.num("timestamp", t.timestamp()).num("interval", t.interval()).num("capabilities", wifi_caps(t.capabilities()));
            f.str("opts", dot11_opts(t)).str("typed", wifi_typed(t));
            break;
        }
        case PDU::DOT11_PROBE_REQ: {
            const Dot11ProbeRequest& t = static_cast<const Dot11ProbeRequest&>(p);
            dot11_base_dump(f, t); dot11_ext_dump(f, t);
            f.str("opts", dot11_opts(t)).str("typed", wifi_typed(t));
            break;
        }
        case PDU::DOT11_DIASSOC: {
            const Dot11Disassoc& t = static_cast<const Dot11Disassoc&>(p);
            dot11_base_dump(f, t); dot11_ext_dump(f, t);
            f.num("reason_code", t.reason_code()).str("opts", dot11_opts(t)).str("typed", wifi_typed(t));
            break;
        }
        case PDU::DOT11_DEAUTH: {
            const Dot11Deauthentication& t = static_cast<const Dot11Deauthentication&>(p);
            dot11_base_dump(f, t); dot11_ext_dump(f, t);
            f.num("reason_code", t.reason_code()).str("opts", dot11_opts(t)).str("typed", wifi_typed(t));
            break;
        }
        case PDU::DOT11_ASSOC_REQ: {
            const Dot11AssocRequest& t = static_cast<const Dot11AssocRequest&>(p);
            dot11_base_dump(f, t); dot11_ext_dump(f, t);
            f.num("capabilities", wifi_caps(t.capabilities())).num("listen_interval", t.listen_interval()).str("opts", dot11_opts(t)).str("typed", wifi_typed(t));
            break;
        }
        case PDU::DOT11_ASSOC_RESP: {
            const Dot11AssocResponse& t = static_cast<const Dot11AssocResponse&>(p);
            dot11_base_dump(f, t); dot11_ext_dump(f, t);
            f.num("capabilities", wifi_caps(t.capabilities())).num("status_code", t.status_code()).num("aid", t.aid())
             .str("opts", dot11_opts(t)).str("typed", wifi_typed(t));
            break;
        }
        case PDU::DOT11_REASSOC_RESP: {
            const Dot11ReAssocResponse& t = static_cast<const Dot11ReAssocResponse&>(p);
            dot11_base_dump(f, t); dot11_ext_dump(f, t);
            f.num("capabilities", wifi_caps(t.capabilities())).num("status_code", t.status_code()).num("aid", t.aid())
             .str("opts", dot11_opts(t)).str("typed", wifi_typed(t));
            break;
        }
        case PDU::DOT11_REASSOC_REQ: {
            const Dot11ReAssocRequest& t = static_cast<const Dot11ReAssocRequest&>(p);
            dot11_base_dump(f, t); dot11_ext_dump(f, t);
            f.num("capabilities", wifi_caps(t.capabilities())).num("listen_interval", t.listen_interval())
             .str("current_ap", hex_of(t.current_ap())).str("opts", dot11_opts(t)).str("typed", wifi_typed(t));
            break;
        }
        case PDU::DOT11_AUTH: {
            const Dot11Authentication& t = static_cast<const Dot11Authentication&>(p);
            dot11_base_dump(f, t); dot11_ext_dump(f, t);
            f.num("auth_algorithm", t.auth_algorithm()).num("auth_seq_number", t.auth_seq_number())
             .num("status_code", t.status_code()).str("opts", dot11_opts(t)).str("typed", wifi_typed(t));
            break;
        }
        case PDU::RC4EAPOL: {
            const RC4EAPOL& e = static_cast<const RC4EAPOL&>(p);
            f.num("version", e.version()).num("packet_type", e.packet_type()).num("~length", e.length()).num("type", e.type())
             .num("~key_length", e.key_length()).num("replay_counter", e.replay_counter())
             .hex("key_iv", e.key_iv(), RC4EAPOL::key_iv_size).num("key_flag", e.key_flag()).num("key_index", e.key_index())
             .hex("key_sign", e.key_sign(), RC4EAPOL::key_sign_size).str("key", vh::to_hex(e.key()));
            break;
        }
        case PDU::RSNEAPOL: {
            const RSNEAPOL& e = static_cast<const RSNEAPOL&>(p);
            f.num("version", e.version()).num("packet_type", e.packet_type()).num("~length", e.length()).num("type", e.type())
             .num("key_mic", e.key_mic()).num("secure", e.secure()).num("error", e.error()).num("request", e.request())
             .num("encrypted", e.encrypted()).num("key_descriptor", e.key_descriptor()).num("key_t", e.key_t())
             .num("key_index", e.key_index()).num("install", e.install()).num("key_ack", e.key_ack())
             .num("key_length", e.key_length()).num("replay_counter", e.replay_counter())
             .hex("nonce", e.nonce(), RSNEAPOL::nonce_size).hex("key_iv", e.key_iv(), RSNEAPOL::key_iv_size)
             .hex("rsc", e.rsc(), RSNEAPOL::rsc_size).hex("id", e.id(), RSNEAPOL::id_size).hex("mic", e.mic(), RSNEAPOL::mic_size)
             .num("~wpa_length", e.wpa_length()).str("key", vh::to_hex(e.key()));
            break;
        }
        case PDU::RADIOTAP: {
            const RadioTap& r = static_cast<const RadioTap&>(p);
            f.num("version", r.version()).num("padding", r.padding()).num("~length", r.length())
             .str("options", vh::to_hex(r.options_payload()));
            break;
        }
        default:
            return false;
    }
    out = f.done();
    return true;
}

inline bool wifi_mac(const std::vector<std::string>& a, size_t i, HWAddress<6>& out) {
    bytes b;
    if (i >= a.size()) { out = HWAddress<6>(); return true; }
    if (!wifi_hex(a[i], 6, b)) return false;
    out = HWAddress<6>(b.data());
    return true;
}

inline PDU* wifi_mk(const std::string& cls, const std::vector<std::string>& a) {
    HWAddress<6> x, y;
    if (cls == "RC4EAPOL") return new RC4EAPOL();
    if (cls == "RSNEAPOL") return new RSNEAPOL();
    if (cls.compare(0, 5, "Dot11") != 0) return 0;
    if (!wifi_mac(a, 0, x) || !wifi_mac(a, 1, y)) return 0;
    if (cls == "Dot11") return new Dot11(x);
    if (cls == "Dot11Control") return new Dot11Control(x);
    if (cls == "Dot11Ack") return new Dot11Ack(x);
#define W(C) if (cls == #C) return new C(x, y);
    W(Dot11RTS) W(Dot11PSPoll) W(Dot11CFEnd) W(Dot11EndCFAck) W(Dot11BlockAckRequest) W(Dot11BlockAck) W(Dot11Data)
    W(Dot11QoSData) W(Dot11Beacon) W(Dot11ProbeResponse) W(Dot11ProbeRequest) W(Dot11Disassoc) W(Dot11Deauthentication)
    W(Dot11AssocRequest) W(Dot11AssocResponse) W(Dot11ReAssocResponse) W(Dot11Authentication) W(Dot11ReAssocRequest)
#undef W
    return 0;
}

template <typename T>
inline bool dot11_ext_apply(T& m, const std::vector<std::string>& op) {
    bytes b;
    if (op.size() != 2) return false;
    if (op[0] == "addr2" && wifi_hex(op[1], 6, b)) { m.addr2(HWAddress<6>(b.data())); return true; }
    if (op[0] == "addr3" && wifi_hex(op[1], 6, b)) { m.addr3(HWAddress<6>(b.data())); return true; }
    if (op[0] == "addr4" && wifi_hex(op[1], 6, b)) { m.addr4(HWAddress<6>(b.data())); return true; }
    if (op[0] == "frag_num") { m.frag_num(small_uint<4>(uint8_t(wifi_num(op[1])))); return true; }
    if (op[0] == "seq_num") { m.seq_num(small_uint<12>(uint16_t(wifi_num(op[1])))); return true; }
    return false;
}

template <typename T>
inline bool dot11_bar_apply(T& m, const std::vector<std::string>& op) {
    if (op.size() != 2) return false;
    if (op[0] == "bar_control") { m.bar_control(small_uint<4>(uint8_t(wifi_num(op[1])))); return true; }
    if (op[0] == "start_sequence") { m.start_sequence(small_uint<12>(uint16_t(wifi_num(op[1])))); return true; }
    if (op[0] == "fragment_number") { m.fragment_number(small_uint<4>(uint8_t(wifi_num(op[1])))); return true; }
    return false;
}

inline std::vector<std::pair<uint8_t, uint8_t> > wifi_pairs(const std::string& s) {
    std::vector<std::pair<uint8_t, uint8_t> > out;
    std::vector<std::string> items = wifi_split(s, ',');
    for (size_t i = 0; i < items.size(); ++i) {
        std::vector<std::string> ab = wifi_split(items[i], ':');
        out.push_back(std::make_pair(uint8_t(wifi_num(ab.at(0))), uint8_t(wifi_num(ab.at(1)))));
    }
    return out;
}

inline Dot11ManagementFrame::rates_type wifi_rates(const std::string& s) {
    Dot11ManagementFrame::rates_type out;
    std::vector<std::string> items = wifi_split(s, ',');
    for (size_t i = 0; i < items.size(); ++i) out.push_back(float(wifi_num(items[i])) / 2);
    return out;
}

// typed tagged-option setters of Dot11ManagementFrame
inline bool dot11_typed_apply(Dot11ManagementFrame& m, const std::vector<std::string>& op) {
    const std::string& n = op[0];
    bytes b, c;
    size_t k = op.size();
    if (n == "ssid" && k == 2 && vh::parse_hex(op[1], b)) { m.ssid(std::string(b.begin(), b.end())); return true; }
    if (n == "supported_rates" && k == 2) { m.supported_rates(wifi_rates(op[1])); return true; }
    if (n == "extended_supported_rates" && k == 2) { m.extended_supported_rates(wifi_rates(op[1])); return true; }
    if (n == "qos_capability" && k == 2) { m.qos_capability(uint8_t(wifi_num(op[1]))); return true; }
    if (n == "power_capability" && k == 3) { m.power_capability(uint8_t(wifi_num(op[1])), uint8_t(wifi_num(op[2]))); return true; }
    if (n == "supported_channels" && k == 2) { m.supported_channels(wifi_pairs(op[1])); return true; }
    if (n == "edca_parameter_set" && k == 5) {
        m.edca_parameter_set(uint32_t(wifi_num(op[1])), uint32_t(wifi_num(op[2])), uint32_t(wifi_num(op[3])), uint32_t(wifi_num(op[4])));
        return true;
    }
    if (n == "request_information" && k == 2 && vh::parse_hex(op[1], b)) { m.request_information(b); return true; }
    if (n == "fh_parameter_set" && k == 5) {
        m.fh_parameter_set(Dot11ManagementFrame::fh_params_set(uint16_t(wifi_num(op[1])), uint8_t(wifi_num(op[2])),
                                                                uint8_t(wifi_num(op[3])), uint8_t(wifi_num(op[4]))));
        return true;
    }
    if (n == "ds_parameter_set" && k == 2) { m.ds_parameter_set(uint8_t(wifi_num(op[1]))); return true; }
    if (n == "cf_parameter_set" && k == 5) {
        m.cf_parameter_set(Dot11ManagementFrame::cf_params_set(uint8_t(wifi_num(op[1])), uint8_t(wifi_num(op[2])),
                                                                uint16_t(wifi_num(op[3])), uint16_t(wifi_num(op[4]))));
        return true;
    }
    if (n == "ibss_parameter_set" && k == 2) { m.ibss_parameter_set(uint16_t(wifi_num(op[1]))); return true; }
    if (n == "ibss_dfs" && k == 4 && wifi_hex(op[1], 6, b)) {
        m.ibss_dfs(Dot11ManagementFrame::ibss_dfs_params(HWAddress<6>(b.data()), uint8_t(wifi_num(op[2])), wifi_pairs(op[3])));
        return true;
    }
    if (n == "country" && k == 3 && wifi_hex(op[1], 3, b)) {
        std::vector<uint8_t> f, nc, mp;
        std::vector<std::string> items = wifi_split(op[2], ',');
        for (size_t i = 0; i < items.size(); ++i) {
            std::vector<std::string> t = wifi_split(items[i], ':');
            f.push_back(uint8_t(wifi_num(t.at(0)))); nc.push_back(uint8_t(wifi_num(t.at(1)))); mp.push_back(uint8_t(wifi_num(t.at(2))));
        }
        m.country(Dot11ManagementFrame::country_params(std::string(b.begin(), b.end()), f, nc, mp));
        return true;
    }
    if (n == "fh_parameters" && k == 3) { m.fh_parameters(uint8_t(wifi_num(op[1])), uint8_t(wifi_num(op[2]))); return true; }
    if (n == "fh_pattern_table" && k == 6 && vh::parse_hex(op[5], b)) {
        m.fh_pattern_table(Dot11ManagementFrame::fh_pattern_type(uint8_t(wifi_num(op[1])), uint8_t(wifi_num(op[2])),
                                                                  uint8_t(wifi_num(op[3])), uint8_t(wifi_num(op[4])), b));
        return true;
    }
    if (n == "power_constraint" && k == 2) { m.power_constraint(uint8_t(wifi_num(op[1]))); return true; }
    if (n == "channel_switch" && k == 4) {
        m.channel_switch(Dot11ManagementFrame::channel_switch_type(uint8_t(wifi_num(op[1])), uint8_t(wifi_num(op[2])), uint8_t(wifi_num(op[3]))));
        return true;
    }
    if (n == "quiet" && k == 5) {
        m.quiet(Dot11ManagementFrame::quiet_type(uint8_t(wifi_num(op[1])), uint8_t(wifi_num(op[2])), uint16_t(wifi_num(op[3])),
                                                  uint16_t(wifi_num(op[4]))));
        return true;
    }
    if (n == "tpc_report" && k == 3) { m.tpc_report(uint8_t(wifi_num(op[1])), uint8_t(wifi_num(op[2]))); return true; }
    if (n == "erp_information" && k == 2) { m.erp_information(uint8_t(wifi_num(op[1]))); return true; }
    if (n == "bss_load" && k == 4) {
        m.bss_load(Dot11ManagementFrame::bss_load_type(uint16_t(wifi_num(op[1])), uint8_t(wifi_num(op[2])), uint16_t(wifi_num(op[3]))));
        return true;
    }
    if (n == "tim" && k == 5 && vh::parse_hex(op[4], b)) {
        m.tim(Dot11ManagementFrame::tim_type(uint8_t(wifi_num(op[1])), uint8_t(wifi_num(op[2])), uint8_t(wifi_num(op[3])), b));
        return true;
    }
    if (n == "challenge_text" && k == 2 && vh::parse_hex(op[1], b)) { m.challenge_text(std::string(b.begin(), b.end())); return true; }
    if (n == "vendor_specific" && k == 3 && wifi_hex(op[1], 3, b) && vh::parse_hex(op[2], c)) {
        m.vendor_specific(Dot11ManagementFrame::vendor_specific_type(HWAddress<3>(b.data()), c));
        return true;
    }
    if (n == "rsn_information" && k == 6) {
        RSNInformation info;
        info.version(uint16_t(wifi_num(op[1])));
        info.group_suite(RSNInformation::CypherSuites(uint32_t(wifi_num(op[2]))));
        std::vector<std::string> pw = wifi_split(op[3], ','), ak = wifi_split(op[4], ',');
        for (size_t i = 0; i < pw.size(); ++i) info.add_pairwise_cypher(RSNInformation::CypherSuites(uint32_t(wifi_num(pw[i]))));
        for (size_t i = 0; i < ak.size(); ++i) info.add_akm_cypher(RSNInformation::AKMSuites(uint32_t(wifi_num(ak[i]))));
        info.capabilities(uint16_t(wifi_num(op[5])));
        m.rsn_information(info);
        return true;
    }
    return false;
}

template <typename T>
inline bool dot11_cap_apply(T& t, const std::vector<std::string>& op) {
    if (op.size() == 3 && op[0] == "cap" && wifi_num(op[1]) < 16) {
        wifi_set_cap(t.capabilities(), unsigned(wifi_num(op[1])), wifi_num(op[2]) != 0);
        return true;
    }
    return false;
}

inline bool dot11_body_apply(Dot11& d, const std::vector<std::string>& op) {
    bytes b;
    const std::string& n = op[0];
    bool two = op.size() == 2;
    switch (d.pdu_type()) {
        case PDU::DOT11_QOS_DATA:
            if (two && n == "qos_control") { static_cast<Dot11QoSData&>(d).qos_control(uint16_t(wifi_num(op[1]))); return true; }
            return false;
        case PDU::DOT11_BEACON: {
            Dot11Beacon& t = static_cast<Dot11Beacon&>(d);
            if (two && n == "timestamp") { t.timestamp(std::stoull(op[1])); return true; }
            if (two && n == "interval") { t.interval(uint16_t(wifi_num(op[1]))); return true; }
            return dot11_cap_apply(t, op);
        }
        case PDU::DOT11_PROBE_RESP: {
            Dot11ProbeResponse& t = static_cast<Dot11ProbeResponse&>(d);
            if (two && n == "timestamp") { t.timestamp(std::stoull(op[1])); return true; }
            if (two && n == "interval") { t.interval(uint16_t(wifi_num(op[1]))); return true; }
            return dot11_cap_apply(t, op);
        }
        case PDU::DOT11_DIASSOC:
            if (two && n == "reason_code") { static_cast<Dot11Disassoc&>(d).reason_code(uint16_t(wifi_num(op[1]))); return true; }
            return false;
        case PDU::DOT11_DEAUTH:
            if (two && n == "reason_code") { static_cast<Dot11Deauthentication&>(d).reason_code(uint16_t(wifi_num(op[1]))); return true; }
            return false;
        case PDU::DOT11_ASSOC_REQ: {
            Dot11AssocRequest& t = static_cast<Dot11AssocRequest&>(d);
            if (two && n == "listen_interval") { t.listen_interval(uint16_t(wifi_num(op[1]))); return true; }
            return dot11_cap_apply(t, op);
        }
        case PDU::DOT11_REASSOC_REQ: {
            Dot11ReAssocRequest& t = static_cast<Dot11ReAssocRequest&>(d);
            if (two && n == "listen_interval") { t.listen_interval(uint16_t(wifi_num(op[1]))); return true; }
            if (two && n == "current_ap" && wifi_hex(op[1], 6, b)) { t.current_ap(HWAddress<6>(b.data())); return true; }
            return dot11_cap_apply(t, op);
        }
        case PDU::DOT11_ASSOC_RESP: {
            Dot11AssocResponse& t = static_cast<Dot11AssocResponse&>(d);
            if (two && n == "status_code") { t.status_code(uint16_t(wifi_num(op[1]))); return true; }
            if (two && n == "aid") { t.aid(uint16_t(wifi_num(op[1]))); return true; }
            return dot11_cap_apply(t, op);
        }
        case PDU::DOT11_REASSOC_RESP: {
            Dot11ReAssocResponse& t = static_cast<Dot11ReAssocResponse&>(d);
            if (two && n == "status_code") { t.status_code(uint16_t(wifi_num(op[1]))); return true; }
            if (two && n == "aid") { t.aid(uint16_t(wifi_num(op[1]))); return true; }
            return dot11_cap_apply(t, op);
        }
        case PDU::DOT11_AUTH: {
            Dot11Authentication& t = static_cast<Dot11Authentication&>(d);
            if (two && n == "auth_algorithm") { t.auth_algorithm(uint16_t(wifi_num(op[1]))); return true; }
            if (two && n == "auth_seq_number") { t.auth_seq_number(uint16_t(wifi_num(op[1]))); return true; }
            if (two && n == "status_code") { t.status_code(uint16_t(wifi_num(op[1]))); return true; }
            return false;
        }
        case PDU::DOT11_BLOCK_ACK_REQ:
            return dot11_bar_apply(static_cast<Dot11BlockAckRequest&>(d), op);
        case PDU::DOT11_BLOCK_ACK: {
            Dot11BlockAck& t = static_cast<Dot11BlockAck&>(d);
            if (two && n == "bitmap" && wifi_hex(op[1], 8, b)) { t.bitmap(b.data()); return true; }
            return dot11_bar_apply(t, op);
        }
        default:
            return false;
    }
}

inline bool wifi_is_dot11(const PDU& p) {
    return p.matches_flag(PDU::DOT11);
}

inline bool wifi_apply(PDU& p, const std::vector<std::string>& op) {
    if (op.empty()) return false;
    bytes b;
    const std::string& n = op[0];
    if (p.pdu_type() == PDU::RC4EAPOL || p.pdu_type() == PDU::RSNEAPOL) {
        if (op.size() != 2) return false;
        EAPOL& e = static_cast<EAPOL&>(p);
        if (n == "version") { e.version(uint8_t(wifi_num(op[1]))); return true; }
        if (n == "packet_type") { e.packet_type(uint8_t(wifi_num(op[1]))); return true; }
        if (n == "length") { e.length(uint16_t(wifi_num(op[1]))); return true; }
        if (n == "type") { e.type(uint8_t(wifi_num(op[1]))); return true; }
        if (p.pdu_type() == PDU::RC4EAPOL) {
            RC4EAPOL& r = static_cast<RC4EAPOL&>(p);
            if (n == "key" && vh::parse_hex(op[1], b)) { r.key(b); return true; }
            if (n == "key_length") { r.key_length(uint16_t(wifi_num(op[1]))); return true; }
            if (n == "replay_counter") { r.replay_counter(std::stoull(op[1])); return true; }
            if (n == "key_iv" && wifi_hex(op[1], 16, b)) { r.key_iv(b.data()); return true; }
            if (n == "key_flag") { r.key_flag(small_uint<1>(uint8_t(wifi_num(op[1])))); return true; }
            if (n == "key_index") { r.key_index(small_uint<7>(uint8_t(wifi_num(op[1])))); return true; }
            if (n == "key_sign" && wifi_hex(op[1], 16, b)) { r.key_sign(b.data()); return true; }
            return false;
        }
        RSNEAPOL& r = static_cast<RSNEAPOL&>(p);
        if (n == "key" && vh::parse_hex(op[1], b)) { r.key(b); return true; }
#define BIT(NAME, W) if (n == #NAME) { r.NAME(small_uint<W>(uint8_t(wifi_num(op[1])))); return true; }
        BIT(key_mic, 1) BIT(secure, 1) BIT(error, 1) BIT(request, 1) BIT(encrypted, 1) BIT(key_descriptor, 3) BIT(key_t, 1)
        BIT(key_index, 2) BIT(install, 1) BIT(key_ack, 1)
#undef BIT
        if (n == "key_length") { r.key_length(uint16_t(wifi_num(op[1]))); return true; }
        if (n == "replay_counter") { r.replay_counter(std::stoull(op[1])); return true; }
        if (n == "nonce" && wifi_hex(op[1], 32, b)) { r.nonce(b.data()); return true; }
        if (n == "key_iv" && wifi_hex(op[1], 16, b)) { r.key_iv(b.data()); return true; }
        if (n == "rsc" && wifi_hex(op[1], 8, b)) { r.rsc(b.data()); return true; }
        if (n == "id" && wifi_hex(op[1], 8, b)) { r.id(b.data()); return true; }
        if (n == "mic" && wifi_hex(op[1], 16, b)) { r.mic(b.data()); return true; }
        if (n == "wpa_length") { r.wpa_length(uint16_t(wifi_num(op[1]))); return true; }
        return false;
    }
    if (!wifi_is_dot11(p)) return false;
    Dot11& d = static_cast<Dot11&>(p);
    if (op.size() == 2) {
#define FLAG(NAME, W) if (n == #NAME) { d.NAME(small_uint<W>(uint8_t(wifi_num(op[1])))); return true; }
        FLAG(protocol, 2) FLAG(type, 2) FLAG(subtype, 4) FLAG(to_ds, 1) FLAG(from_ds, 1) FLAG(more_frag, 1) FLAG(retry, 1)
        FLAG(power_mgmt, 1) FLAG(more_data, 1) FLAG(wep, 1) FLAG(order, 1)
#undef FLAG
        if (n == "duration_id") { d.duration_id(uint16_t(wifi_num(op[1]))); return true; }
        if (n == "addr1" && wifi_hex(op[1], 6, b)) { d.addr1(HWAddress<6>(b.data())); return true; }
        if (n == "target_addr" && wifi_hex(op[1], 6, b)) {
            Dot11ControlTA* t = dynamic_cast<Dot11ControlTA*>(&d);
            if (!t) return false;
            t->target_addr(HWAddress<6>(b.data()));
            return true;
        }
        if (n == "remove_option") { d.remove_option(Dot11::OptionTypes(uint8_t(wifi_num(op[1])))); return true; }
    }
    if (Dot11ManagementFrame* m = dynamic_cast<Dot11ManagementFrame*>(&d)) {
        if (dot11_ext_apply(*m, op)) return true;
    }
    else if (Dot11Data* t = dynamic_cast<Dot11Data*>(&d)) {
        if (dot11_ext_apply(*t, op)) return true;
    }
    if (dot11_body_apply(d, op)) return true;
    if (n == "add_option" && op.size() == 4 && vh::parse_hex(op[3], b)) {
        d.add_option(Dot11::option(uint8_t(wifi_num(op[1])), uint16_t(wifi_num(op[2])), b.begin(), b.end()));
        return true;
    }
    if (Dot11ManagementFrame* m = dynamic_cast<Dot11ManagementFrame*>(&d)) {
        // the value oracle ("a typed setter called with a representable argument is read back by its getter as exactly that
        // argument") is the clause typed-getter-returns-set-value of Driver/WireSpec.lean (typedExpectDot11), evaluated on
        // the dump of the next `show` (live object and re-parse); an earlier C++-side copy of it threw std::runtime_error
        // here, which made the `set` line a model/implementation difference instead of a named oracle violation
        if (!dot11_typed_apply(*m, op)) return false;
        return true;
    }
    return false;
}

// read-only accessor sweep (C01): every typed getter / decoder that can fail
inline bool wifi_sweep(const PDU& p, std::string& out) {
    if (p.pdu_type() == PDU::RADIOTAP) {
        const RadioTap& r = static_cast<const RadioTap&>(p);
        sweep_item(out, "rt.present", [&] { r.present(); });
        sweep_item(out, "rt.tsft", [&] { r.tsft(); });
        sweep_item(out, "rt.flags", [&] { r.flags(); });
        sweep_item(out, "rt.rate", [&] { r.rate(); });
        sweep_item(out, "rt.channel_freq", [&] { r.channel_freq(); });
        sweep_item(out, "rt.channel_type", [&] { r.channel_type(); });
        sweep_item(out, "rt.dbm_signal", [&] { r.dbm_signal(); });
        sweep_item(out, "rt.dbm_noise", [&] { r.dbm_noise(); });
        sweep_item(out, "rt.signal_quality", [&] { r.signal_quality(); });
        sweep_item(out, "rt.antenna", [&] { r.antenna(); });
        sweep_item(out, "rt.db_signal", [&] { r.db_signal(); });
        sweep_item(out, "rt.xchannel", [&] { r.xchannel(); });
        sweep_item(out, "rt.data_retries", [&] { r.data_retries(); });
        sweep_item(out, "rt.rx_flags", [&] { r.rx_flags(); });
        sweep_item(out, "rt.tx_flags", [&] { r.tx_flags(); });
        sweep_item(out, "rt.mcs", [&] { r.mcs(); });
        return true;
    }
    if (!wifi_is_dot11(p)) return false;
    const Dot11ManagementFrame* m = dynamic_cast<const Dot11ManagementFrame*>(&p);
    if (!m) return false;
    sweep_item(out, "rsn_information", [&] { m->rsn_information(); });
    sweep_item(out, "ssid", [&] { m->ssid(); });
    sweep_item(out, "supported_rates", [&] { m->supported_rates(); });
    sweep_item(out, "extended_supported_rates", [&] { m->extended_supported_rates(); });
    sweep_item(out, "qos_capability", [&] { m->qos_capability(); });
    sweep_item(out, "power_capability", [&] { m->power_capability(); });
    sweep_item(out, "supported_channels", [&] { m->supported_channels(); });
    sweep_item(out, "request_information", [&] { m->request_information(); });
    sweep_item(out, "fh_parameter_set", [&] { m->fh_parameter_set(); });
    sweep_item(out, "ds_parameter_set", [&] { m->ds_parameter_set(); });
    sweep_item(out, "cf_parameter_set", [&] { m->cf_parameter_set(); });
    sweep_item(out, "ibss_parameter_set", [&] { m->ibss_parameter_set(); });
    sweep_item(out, "ibss_dfs", [&] { m->ibss_dfs(); });
    sweep_item(out, "country", [&] { m->country(); });
    sweep_item(out, "fh_parameters", [&] { m->fh_parameters(); });
    sweep_item(out, "fh_pattern_table", [&] { m->fh_pattern_table(); });
    sweep_item(out, "power_constraint", [&] { m->power_constraint(); });
    sweep_item(out, "channel_switch", [&] { m->channel_switch(); });
    sweep_item(out, "quiet", [&] { m->quiet(); });
    sweep_item(out, "tpc_report", [&] { m->tpc_report(); });
    sweep_item(out, "erp_information", [&] { m->erp_information(); });
    sweep_item(out, "bss_load", [&] { m->bss_load(); });
    sweep_item(out, "tim", [&] { m->tim(); });
    sweep_item(out, "challenge_text", [&] { m->challenge_text(); });
    sweep_item(out, "vendor_specific", [&] { m->vendor_specific(); });
    // every decoder on every option present (a decoder applied to an option of another type must still be safe)
    size_t idx = 0;
    for (Dot11::options_type::const_iterator it = m->options().begin(); it != m->options().end() && idx < 4; ++it, ++idx) {
        const Dot11::option& o = *it;
        sweep_item(out, "opt.rsn", [&] { RSNInformation::from_option(o); });
        sweep_item(out, "opt.u8", [&] { o.to<uint8_t>(); });
        sweep_item(out, "opt.u16", [&] { o.to<uint16_t>(); });
        sweep_item(out, "opt.pair", [&] { o.to<std::pair<uint8_t, uint8_t> >(); });
        sweep_item(out, "opt.pairs", [&] { o.to<std::vector<std::pair<uint8_t, uint8_t> > >(); });
        sweep_item(out, "opt.rates", [&] { o.to<std::vector<float> >(); });
        sweep_item(out, "opt.fh", [&] { o.to<Dot11ManagementFrame::fh_params_set>(); });
        sweep_item(out, "opt.cf", [&] { o.to<Dot11ManagementFrame::cf_params_set>(); });
        sweep_item(out, "opt.dfs", [&] { o.to<Dot11ManagementFrame::ibss_dfs_params>(); });
        sweep_item(out, "opt.country", [&] { o.to<Dot11ManagementFrame::country_params>(); });
        sweep_item(out, "opt.fhp", [&] { o.to<Dot11ManagementFrame::fh_pattern_type>(); });
        sweep_item(out, "opt.cs", [&] { o.to<Dot11ManagementFrame::channel_switch_type>(); });
        sweep_item(out, "opt.quiet", [&] { o.to<Dot11ManagementFrame::quiet_type>(); });
        sweep_item(out, "opt.bss", [&] { o.to<Dot11ManagementFrame::bss_load_type>(); });
        sweep_item(out, "opt.tim", [&] { o.to<Dot11ManagementFrame::tim_type>(); });
    }
    return true;
}

} // namespace wire
