// wifi family — nothing modelled yet (stub)
#pragma once
#include "wire_iface.h"
namespace wire {
inline bool wifi_dump(const PDU&, std::string&) { return false; }
inline PDU* wifi_mk(const std::string&, const std::vector<std::string>&) { return 0; }
inline bool wifi_apply(PDU&, const std::vector<std::string>&) { return false; }
inline bool wifi_sweep(const PDU&, std::string&) { return false; }
} // namespace wire
