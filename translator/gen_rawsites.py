#!/usr/bin/env python3
"""gen_rawsites.py — regenerates lean/TinsModel/Gen/RawSites.lean (property C01): one row per *raw memory access site*
on the parse path of the CURRENT source of the repo.

Why.  The C01 theorems are about hand-written Lean models in which every raw access of the C++ is a fault-explicit read
(`rd` / `rdN` / `peek`) and every access through `InputMemoryStream` is a `Cursor` operation.  A raw access ADDED to a parser
does not change the model; this table does change, `Wire.RawCoverage.rawSites_covered` stops checking, and the check reports
the new site (and searches for an input that faults on it).

Source of truth: the clang-14 JSON AST (`-Xclang -ast-dump=json -Xclang -ast-dump-filter=Tins`, never regexes over the
source) of every translation unit src/**/*.cpp, compiled like the library (`-DTINS_VERIF_HOOKS`), and of one extra unit that
includes every header below include/tins (inline code that no .cpp instantiates).  Function templates and members of class
templates are read from the pattern AND from every instantiation the units contain (the types in a pattern are dependent,
in an instantiation they are concrete); all of them are merged under the pattern's name, because a declaration and its
instantiations share their source location.

A **raw site** is one of (kind, what is recorded as the normalised expression):

  deref          `*e`           with `e` of pointer type, `e` not `this`
  subscript      `e[i]`         with `e` of pointer type (a decayed array member is `arraySubscript`)
  arraySubscript `a[i]`         with `a` an array (member, local or static) -- the index may come from the wire
  arrow          `e->m`         with `e` a pointer that is not `this` (data members; a member FUNCTION call is followed as a call)
  memcpy / memcmp / memset      a call of memcpy, memmove / memcmp / memset (also `std::` and `__builtin_` spellings)
  stdCopy        a call of std::copy / copy_n / copy_backward with a raw pointer operand
  externCall     any other call of a function, member function or constructor declared OUTSIDE namespace Tins (libc,
                 libstdc++: std::equal, std::find, vector::assign / insert / vector(first, last), string(ptr, n), pcap …)
                 that is handed a raw pointer (pointer to a non-class, non-function type; `char*` = C strings, string literals,
                 null and default arguments excepted)
  ptrPass        a call of a function / constructor of namespace Tins that is handed a raw pointer: the hand-over of (part of)
                 the buffer to another parser, stream, option, address …  Three shapes the scan can establish syntactically get
                 their own kind, because they are safe whoever the callee is:
  forward          … the raw pointer is a parameter of the enclosing function and the next argument is the parameter that
                   follows it, and the function never modifies either (every use is a plain load)
  streamRest       … the arguments are `S.pointer(), S.size()` of one local `InputMemoryStream S`
  optionData       … the arguments are `O.data_ptr(), O.data_size()` of one `PDUOption O`
  castToStruct   a C-style / reinterpret / static cast whose result is a pointer to a class type and whose operand is a
                 pointer to something else (or an integer)
  castPtr        the same with a non-class pointee (`(const uint16_t*)ptr`)
  ptrArith       `p + n`, `p - n`, `p += n`, `p -= n`, `++p`, `p++`, `--p`, `p--` with `p` any pointer -- this is what follows
                 `stream.pointer()`; differences and comparisons of pointers are no sites
  Casts and pointer arithmetic that are a sub-expression of another recorded site (`*(ptr + 1)`, `f(ptr, ptr + n)`) are not listed on
  their own: the outer site's text contains them.  Pointees are resolved through the typedefs of namespace Tins (`data_type`,
  `storage_type`, `const_iterator` …); an unknown name counts as a raw (non-class) pointee.

Besides the sites the table lists, per function that holds a site, every **guard**: the source text of every `if` / `while` / `for` /
`do` / `?:` condition (a macro such as TINS_UNLIKELY(...) as written at the call).  A disposition cites the guards it relies on;
`guards_present` fails when a cited guard is no longer in the source.

The **normalised expression** is the source text of the expression with white space collapsed -- not a line number, so
moving code around changes nothing while editing the expression (or adding a second occurrence: the count is part of the key)
does.

The **parse path** is every function reachable, by name and conservatively, from the roots:
  * every row of Gen/EntryPoints (constructors / static members / free functions taking `const uint8_t*` + size:
    the parsing constructors, `from_bytes`, `extract_metadata`, `Converters::convert`, the dispatchers) EXCEPT the rows
    listed in EXCLUDED_ROOTS below with the property that owns them (`matches_response`: C14; the two writers: C02);
  * every function named `from_option` / `from_extension_header` (the typed option and IPv6 extension header decoders)
    and `PDUOption::to`.
Edges: a resolved call goes to the function it names; a call of a virtual member goes to every virtual member of that name;
a construction goes to the constructor of that signature (to every constructor of the class when none matches; an implicit
default / copy / move constructor has no code of its own); a name the AST leaves unresolved (dependent code in a template
pattern) goes to every function of that unqualified name, unless some unit instantiates the template (the instantiation's
calls are resolved).  Destructors and `operator delete` are not followed.  For every function with a site the result also
records the roots that reach it (`reached_from`): the directed search of checks/C01.py starts there.

Not on the parse path, therefore not in the table (their properties own them): the serializers (C02), `matches_response`
(C14), the DNS record getters and `compose_name` (C10), the crypto code (C09), the RadioTap writer (C11), the sniffer loop
(C17).  `--all` prints the sites of every function for inspection.

Deterministic: rows are sorted by key; the file is written only when its content changed.  Caching under
.work/c01_rawsites: one file per translation unit keyed by the content of that unit, of include/tins/** and of this script,
and one file for the merged result, so an unchanged tree costs one hash of the sources.
"""
import argparse, collections, glob, hashlib, json, os, re, subprocess, sys
from concurrent.futures import ProcessPoolExecutor

HERE = os.path.dirname(os.path.abspath(__file__))
VERIF = os.path.dirname(HERE)
sys.path.insert(0, VERIF)
from translator import gen_pdu_classes as G   # Ast (file names filled in), src_text, children, header_list, write_if_changed

CLANG = os.environ.get("VERIF_CLANG", "clang++-14")
GUARD = "TINS_VERIF_HOOKS"
FUNC_KINDS = {"FunctionDecl", "CXXMethodDecl", "CXXConstructorDecl", "CXXDestructorDecl", "CXXConversionDecl"}
CTX_KINDS = {"NamespaceDecl", "CXXRecordDecl", "ClassTemplateSpecializationDecl", "ClassTemplatePartialSpecializationDecl"}

# rows of Gen/EntryPoints that are no roots of the parse path, with the property that owns them
EXCLUDED_ROOTS = [
    ("name", "matches_response", "response matching is property C14's (harness/c14_match.cpp, TinsModel/Matching)"),
    ("key", "Memory::OutputMemoryStream::write(const uint8_t *, size_t)", "writer: the bytes are the caller's own (C02)"),
    ("key", "Memory::write_data(uint8_t *, const uint8_t *, size_t)", "writer: memcpy wrapper of the serializers (C02)"),
]
EXTRA_ROOT_NAMES = ["from_option", "from_extension_header"]           # every function of this name
EXTRA_ROOT_QNAMES = ["PDUOption::to"]        # every overload / instantiation of this qualified name

MEM_KIND = {"memcpy": "memcpy", "memmove": "memcpy", "memcmp": "memcmp", "memset": "memset"}
STD_COPY = {"copy", "copy_n", "copy_backward"}


def norm(s):
    return re.sub(r"\s+", " ", (s or "").strip())


def qt(n):
    t = n.get("type", {}) if isinstance(n, dict) else {}
    return norm(t.get("desugaredQualType") or t.get("qualType") or "")


def qt_sugar(n):
    return norm(n.get("type", {}).get("qualType") or "")


PTR_TAIL = re.compile(r"\*\s*(const|volatile|restrict|__restrict)?\s*$")


def is_ptr(t):
    return bool(PTR_TAIL.search(t)) and "(*)" not in t and not t.endswith(")")


def pointee(t):
    return norm(PTR_TAIL.sub("", t))


def base_type(t):
    """the type without cv-qualifiers and the words class/struct"""
    t = re.sub(r"\b(const|volatile|struct|class)\b", "", t)
    return norm(t)


SCALARS = {"unsigned char", "char", "signed char", "unsigned short", "short", "unsigned int", "int", "unsigned long", "long",
           "unsigned long long", "long long", "void", "float", "double", "bool", "uint8_t", "uint16_t", "uint32_t", "uint64_t",
           "int8_t", "int16_t", "int32_t", "int64_t", "size_t", "wchar_t", "char16_t", "char32_t"}


def is_scalar_name(t):
    t = base_type(t)
    return t in SCALARS or t.startswith("enum ") or is_ptr(t)


class TU:
    """walk of one translation unit"""

    def __init__(self, repo, docs):
        self.repo = os.path.realpath(repo)
        self.ast = G.Ast(docs)          # fills in the elided file names, by_id, lexical parents
        self.docs = docs
        self.qual = {}                  # decl id -> qualified name of a context (namespace / class)
        self.pdu_like = set()           # qualified names of classes (every record inside Tins)
        self.records = {}               # qualified record name -> [ctor loc keys]
        self.funcs = {}                 # loc key -> dict
        self.id2loc = {}                # function decl id -> loc key
        self.typedefs = {}              # qualified typedef / alias name -> underlying type
        self.record_names = set()       # qualified names of the classes of namespace Tins
        self.record_short = set()       # their last components (a local class is named without qualification)
        self.fn_names = set()           # names of the functions declared in namespace Tins

    # ---- names
    def rel(self, f):
        if not f:
            return "?"
        f = os.path.realpath(f if os.path.isabs(f) else os.path.join(self.repo, f))
        return os.path.relpath(f, self.repo) if f.startswith(self.repo + os.sep) else f

    def ctx_name(self, n):
        """qualified name of the semantic context of declaration n (without a leading Tins::)"""
        pid = n.get("parentDeclContextId")
        if pid and pid in self.qual:
            return self.qual[pid]
        p = self.ast.parent.get(n.get("id"))
        while p is not None and p.get("kind") not in CTX_KINDS:
            p = self.ast.parent.get(p.get("id"))
        return self.qual.get(p.get("id"), "") if p is not None else ""

    def pass_ctx(self, n, qual):
        k = n.get("kind")
        q = qual
        if k in FUNC_KINDS and n.get("name"):
            self.fn_names.add(n["name"])
        if k in ("TypedefDecl", "TypeAliasDecl") and n.get("name"):
            t = n.get("type", {})
            base = qual
            pid = n.get("parentDeclContextId")
            if pid and pid in self.qual:
                base = self.qual[pid]
            full = (base + "::" if base else "") + n["name"]
            under = norm(t.get("desugaredQualType") or t.get("qualType") or "")
            if under and "type-parameter" not in under:
                self.typedefs.setdefault(full, under)
                self.typedefs.setdefault(re.sub(r"^Tins::", "", full), under)
        if k in CTX_KINDS:
            name = n.get("name") or ("(anonymous)" if k == "NamespaceDecl" else "(unnamed)")
            base = qual
            pid = n.get("parentDeclContextId")
            if pid and pid in self.qual:
                base = self.qual[pid]
            q = (base + "::" if base else "") + name
            if k != "NamespaceDecl":
                self.record_names.add(q)
                self.record_names.add(re.sub(r"^Tins::", "", q))
                self.record_short.add(name)
            self.qual.setdefault(n["id"], q)
            if n.get("previousDecl"):
                self.qual.setdefault(n["previousDecl"], q)
        for c in n.get("inner", []) or []:
            if isinstance(c, dict):
                self.pass_ctx(c, q)

    @staticmethod
    def strip_tins(q):
        q = re.sub(r"^Tins::", "", q)
        q = q.replace("::Tins::", "::")
        return q if q and q != "Tins" else "Tins"

    def loc_key(self, n):
        """(file, offset) of the FIRST declaration: shared by a definition, its in-class declaration, the template
        pattern and every instantiation"""
        seen = 0
        while n.get("previousDecl") and n["previousDecl"] in self.ast.by_id and seen < 8:
            n = self.ast.by_id[n["previousDecl"]]
            seen += 1
        loc = n.get("loc", {})
        loc = loc.get("expansionLoc", loc)
        if "offset" not in loc:
            return None
        return f"{self.rel(loc.get('file'))}:{loc['offset']}"

    # ---- pass 2: functions
    def is_pattern_ctx(self, n):
        """is declaration n NOT (inside) an instantiation: no ClassTemplateSpecializationDecl above it and not a
        non-first function below a FunctionTemplateDecl"""
        p = self.ast.parent.get(n.get("id"))
        child = n
        while p is not None:
            k = p.get("kind")
            if k == "ClassTemplateSpecializationDecl":
                return False
            if k == "FunctionTemplateDecl":
                fs = [c for c in G.children(p) if c.get("kind") in FUNC_KINDS]
                if fs and fs[0] is not child:
                    return False
            child, p = p, self.ast.parent.get(p.get("id"))
        pid = n.get("parentDeclContextId")
        if pid and pid in self.ast.by_id and self.ast.by_id[pid].get("kind") == "ClassTemplateSpecializationDecl":
            return False
        return True

    @staticmethod
    def fn_type(t):
        return norm(re.sub(r"\s*noexcept(\(.*\))?\s*$", "", t or ""))

    def pass_funcs(self, n, in_func):
        k = n.get("kind")
        if k in FUNC_KINDS and not n.get("isImplicit"):
            lk = self.loc_key(n)
            if lk is not None:
                self.id2loc[n["id"]] = lk
                params = [p for p in G.children(n) if p.get("kind") == "ParmVarDecl"]
                owner = self.strip_tins(self.ctx_name(n)) if self.ctx_name(n) else "?"
                pattern = self.is_pattern_ctx(n)
                name = n.get("name", "?")
                if k == "CXXConstructorDecl":
                    name = re.sub(r"<.*>$", "", name)
                f = self.funcs.get(lk)
                if f is None or (pattern and not f["pattern"]):
                    g = dict(owner=owner, name=name, sig=", ".join(qt_sugar(p) for p in params),
                             kind=k, virtual=bool(n.get("virtual")), defined=False, file=None, pattern=pattern,
                             walks=[], static=n.get("storageClass") == "static")
                    if f is not None:
                        g["walks"], g["defined"], g["file"], g["virtual"] = f["walks"], f["defined"], f["file"], f["virtual"]
                    f = self.funcs[lk] = g
                f["virtual"] = f["virtual"] or bool(n.get("virtual"))
                if k == "CXXConstructorDecl":
                    self.records.setdefault(owner, {}).setdefault(self.fn_type(n.get("type", {}).get("qualType")), set()).add(lk)
                body = any(c.get("kind") in ("CompoundStmt", "CXXTryStmt") for c in G.children(n))
                if body and in_func is None and k != "CXXDestructorDecl":
                    loc = n.get("loc", {})
                    loc = loc.get("expansionLoc", loc)
                    f["defined"] = True
                    f["file"] = f["file"] or self.rel(loc.get("file"))
                    w = dict(sites=[], calls=[], guards=[], params=[p.get("id") for p in params], written=set())
                    for c in G.children(n):
                        if c.get("kind") != "ParmVarDecl":
                            self.find_written(c, None, w)
                    for c in G.children(n):
                        if c.get("kind") != "ParmVarDecl":
                            self.walk_body(c, [n], w)
                    f["walks"].append(w)
                    return
        for c in n.get("inner", []) or []:
            if isinstance(c, dict):
                self.pass_funcs(c, in_func)

    # ---- expression helpers
    @staticmethod
    def strip_implicit(e):
        while e.get("kind") in ("ImplicitCastExpr", "ParenExpr", "ConstantExpr", "ExprWithCleanups", "MaterializeTemporaryExpr",
                                "CXXBindTemporaryExpr") and G.children(e):
            e = G.children(e)[0]
        return e

    def text(self, e):
        """source text of the expression.  Spelled in one file (plain code, or an argument of a macro such as
        TINS_UNLIKELY(...)): that text.  Produced by a macro body (`TINS_UNLIKELY(x)` = `__builtin_expect((x), 0)`): the
        macro invocation as written at the expansion site, name and parenthesised arguments."""
        rng = e.get("range", {})
        b, en = rng.get("begin", {}), rng.get("end", {})
        if not isinstance(b, dict) or not isinstance(en, dict):
            return "<" + e.get("kind", "?") + ">"
        body_macro = "expansionLoc" in b and not b.get("spellingLoc", {}).get("isMacroArgExpansion") and \
            not b.get("expansionLoc", {}).get("isMacroArgExpansion")
        if body_macro:
            x = b["expansionLoc"]
            try:
                f = x["file"]
                if f not in G._SRC:
                    G._SRC[f] = open(f, "rb").read()
                src = G._SRC[f].decode("utf-8", "replace") if isinstance(G._SRC[f], bytes) else G._SRC[f]
                raw = G._SRC[f]
                i = x["offset"]
                j = i + x.get("tokLen", 0)
                k = j
                while k < len(raw) and raw[k:k + 1] in (b" ", b"\t", b"\n", b"\r"):
                    k += 1
                if raw[k:k + 1] == b"(":
                    depth = 0
                    while k < len(raw):
                        c = raw[k:k + 1]
                        if c == b"(":
                            depth += 1
                        elif c == b")":
                            depth -= 1
                            if depth == 0:
                                j = k + 1
                                break
                        k += 1
                return norm(raw[i:j].decode("utf-8", "replace"))
            except (KeyError, OSError):
                pass
        for pick in ("spellingLoc", "expansionLoc"):
            try:
                bb, ee = b.get(pick, b), en.get(pick, en)
                if bb.get("file") and bb.get("file") == ee.get("file") and ee["offset"] >= bb["offset"]:
                    t = G.src_text({"begin": {k: v for k, v in bb.items() if k not in ("spellingLoc", "expansionLoc")},
                                    "end": {k: v for k, v in ee.items() if k not in ("spellingLoc", "expansionLoc")}})
                    if t:
                        return norm(t)
            except (KeyError, TypeError):
                pass
        return "<" + e.get("kind", "?") + ">"

    def resolve(self, t):
        """the type behind typedefs declared in namespace Tins (clang does not desugar the pointee of `const data_type *`)"""
        t = base_type(t)
        for _ in range(6):
            u = self.typedefs.get(t) or self.typedefs.get(re.sub(r"^Tins::", "", t))
            if u is None:
                break
            t = base_type(u)
        return t

    def is_class_name(self, t):
        """is the type certainly a class / struct type?  Unknown names count as NOT a class (the conservative direction:
        a pointer to them is then a raw pointer)"""
        if re.search(r"\b(struct|class|union)\b", t):
            return True
        t = self.resolve(t)
        if not t or t in SCALARS or is_ptr(t) or t.startswith("enum ") or t.startswith("<"):
            return False
        if re.search(r"\[[0-9]*\]$", t):
            return False
        b = re.sub(r"<.*>", "", t)
        if b in self.record_names or ("Tins::" + b) in self.record_names or ("::" not in b and b in self.record_short):
            return True
        if b.startswith("std::") or b.startswith("__gnu_cxx::") or b.startswith("boost::"):
            return True
        if "<" in t:                     # an instantiated template that is no typedef of a scalar
            return True
        return b in ("pcap_t", "FILE", "bpf_program", "pcap_pkthdr", "timeval", "sockaddr", "sockaddr_in", "sockaddr_in6",
                     "sockaddr_ll", "ifaddrs", "EVP_MD", "HMAC_CTX", "AES_KEY", "RC4_KEY", "pcap_dumper_t", "pcap_if_t")

    def raw_ptr(self, t):
        """pointer to a non-class, non-function object type (bytes, integers, void, dependent T)"""
        return is_ptr(t) and not self.is_class_name(pointee(t))

    def callee_of(self, call):
        """(decl id or None, name, is member) of a CallExpr / CXXMemberCallExpr / CXXOperatorCallExpr"""
        ch = G.children(call)
        if not ch:
            return None, "?", False
        c = self.strip_implicit(ch[0])
        if c.get("kind") == "DeclRefExpr":
            r = c.get("referencedDecl", {})
            return r.get("id"), r.get("name", "?"), False
        if c.get("kind") == "MemberExpr":
            return c.get("referencedMemberDecl"), c.get("name", "?"), True
        if c.get("kind") in ("UnresolvedLookupExpr", "UnresolvedMemberExpr", "CXXDependentScopeMemberExpr", "DependentScopeDeclRefExpr"):
            return None, c.get("name") or c.get("member") or "?", c.get("kind") != "UnresolvedLookupExpr"
        return None, "?", False

    def tins_callee(self, call, name, member):
        ch = G.children(call)
        c = self.strip_implicit(ch[0]) if ch else {}
        if member and c.get("kind") == "MemberExpr" and G.children(c):
            t = qt(G.children(c)[0])
            if is_ptr(t):
                t = pointee(t)
            return self.is_tins_record(t)
        return False          # a free function whose declaration is not in the dump is foreign (std::copy, memcpy, …)

    def is_tins_record(self, t):
        t = self.resolve(t)
        b = re.sub(r"<.*>", "", t)
        return b in self.record_names or ("Tins::" + b) in self.record_names or t.startswith("Tins::")

    def add_site(self, f, kind, e):
        f["sites"].append((kind, self.text(e)))

    def ptr_operand(self, a):
        """is argument expression `a` a raw pointer handed to foreign code"""
        t = qt(a)
        if not self.raw_ptr(t):
            return False
        if self.resolve(pointee(t)) == "char":
            return False          # a C string (exception texts, inet_pton, HWAddress("..")): not bytes from the wire
        if a.get("kind") == "CXXDefaultArgExpr":
            return False          # a default argument (`const data_type* data = 0`)
        s = self.strip_implicit(a)
        if s.get("kind") in ("StringLiteral", "CXXNullPtrLiteralExpr", "GNUNullExpr", "CXXThisExpr", "PredefinedExpr", "CXXDefaultArgExpr"):
            return False
        if s.get("kind") == "IntegerLiteral":
            return False
        return True

    # ---- which parameters does the function (possibly) modify: every use that is not a plain load
    def find_written(self, n, parent, w):
        if n.get("kind") == "DeclRefExpr":
            r = n.get("referencedDecl", {})
            if r.get("id") in w["params"]:
                load = parent is not None and parent.get("kind") == "ImplicitCastExpr" and parent.get("castKind") == "LValueToRValue"
                if not load:
                    w["written"].add(r["id"])
        for c in G.children(n):
            self.find_written(c, n, w)

    def param_of(self, a, w):
        """the ParmVarDecl id when expression `a` is a plain load of a parameter the function never modifies"""
        a = self.strip_implicit(a)
        if a.get("kind") == "DeclRefExpr":
            i = a.get("referencedDecl", {}).get("id")
            if i in w["params"] and i not in w["written"]:
                return i
        return None

    def stream_call(self, a, member):
        """the variable id S when `a` is `S.member()` on a local InputMemoryStream S"""
        a = self.strip_implicit(a)
        while a.get("kind") in ("CXXStaticCastExpr", "CStyleCastExpr") and a.get("castKind") in ("NoOp", "IntegralCast") and G.children(a):
            a = self.strip_implicit(G.children(a)[0])
        if a.get("kind") != "CXXMemberCallExpr":
            return None
        ch = G.children(a)
        if len(ch) != 1 or ch[0].get("kind") != "MemberExpr" or ch[0].get("name") != member:
            return None
        b = self.strip_implicit(G.children(ch[0])[0]) if G.children(ch[0]) else {}
        if b.get("kind") == "DeclRefExpr" and "InputMemoryStream" in qt(b) and b.get("referencedDecl", {}).get("kind") == "VarDecl":
            return b["referencedDecl"].get("id")
        return None

    def option_call(self, a, member):
        """the declaration id O when `a` is `O.member()` on a (reference to a) PDUOption O"""
        a = self.strip_implicit(a)
        while a.get("kind") in ("CXXStaticCastExpr", "CStyleCastExpr") and a.get("castKind") in ("NoOp", "IntegralCast") and G.children(a):
            a = self.strip_implicit(G.children(a)[0])
        if a.get("kind") != "CXXMemberCallExpr":
            return None
        ch = G.children(a)
        if len(ch) != 1 or ch[0].get("kind") != "MemberExpr" or ch[0].get("name") != member:
            return None
        b = self.strip_implicit(G.children(ch[0])[0]) if G.children(ch[0]) else {}
        if b.get("kind") == "DeclRefExpr" and "PDUOption" in qt(b):
            return b.get("referencedDecl", {}).get("id")
        return None

    def pass_kind(self, args, w):
        """how a call hands raw pointers on: `forward` (the function's own unmodified (pointer, size) parameter pair),
        `streamRest` ((S.pointer(), S.size()) of one stream S), `optionData` ((O.data_ptr(), O.data_size()) of one PDUOption O),
        else `ptrPass`"""
        kinds = set()
        for i, a in enumerate(args):
            if not self.ptr_operand(a):
                continue
            nxt = args[i + 1] if i + 1 < len(args) else None
            p = self.param_of(a, w)
            if p is not None and nxt is not None:
                q = self.param_of(nxt, w)
                j = w["params"].index(p)
                if q is not None and j + 1 < len(w["params"]) and w["params"][j + 1] == q and not is_ptr(qt(nxt)):
                    kinds.add("forward")
                    continue
            sv = self.stream_call(a, "pointer")
            if sv is not None and nxt is not None and self.stream_call(nxt, "size") == sv:
                kinds.add("streamRest")
                continue
            ov = self.option_call(a, "data_ptr")
            if ov is not None and nxt is not None and self.option_call(nxt, "data_size") == ov:
                kinds.add("optionData")
                continue
            kinds.add("ptrPass")
        return kinds.pop() if len(kinds) == 1 else "ptrPass"

    # ---- the body walk
    NESTED_QUIET = {"ptrArith", "castPtr", "castToStruct"}     # not recorded on their own inside a recorded site: the outer
                                                               # site's text contains them

    def walk_body(self, n, path, f, inside=False):
        k = n.get("kind")
        ch = G.children(n)
        rec = []                     # sites this node is

        def site(kind):
            if kind in self.NESTED_QUIET and inside:
                return
            rec.append(kind)
            self.add_site(f, kind, n)

        if k in ("IfStmt", "WhileStmt", "DoStmt", "ForStmt", "ConditionalOperator"):
            cond = None
            if k == "IfStmt":
                cs = [c for c in ch if c.get("kind") != "DeclStmt"]
                cond = cs[0] if cs else None
            elif k == "WhileStmt":
                cond = ch[-2] if len(ch) >= 2 else None
            elif k == "DoStmt":
                cond = ch[-1] if ch else None
            elif k == "ConditionalOperator":
                cond = ch[0] if ch else None
            elif k == "ForStmt":
                inner = n.get("inner") or []          # init, condvar, cond, inc, body -- empty slots are `{}`
                cond = inner[2] if len(inner) >= 5 and isinstance(inner[2], dict) and inner[2].get("kind") else None
            if cond is not None and cond.get("kind"):
                f["guards"].append(self.text(cond))
        if k == "UnaryOperator":
            op = n.get("opcode")
            if op == "*" and ch:
                t = qt(ch[0])
                if is_ptr(t) and self.strip_implicit(ch[0]).get("kind") != "CXXThisExpr":
                    site("deref")
            elif op in ("++", "--") and ch and is_ptr(qt(ch[0])):
                site("ptrArith")
        elif k == "ArraySubscriptExpr" and ch:
            b = ch[0]
            decayed = b.get("kind") == "ImplicitCastExpr" and b.get("castKind") == "ArrayToPointerDecay"
            if not decayed and len(ch) > 1:     # `i[a]`
                b2 = ch[1]
                decayed = b2.get("kind") == "ImplicitCastExpr" and b2.get("castKind") == "ArrayToPointerDecay" and not is_ptr(qt(ch[0]))
            if decayed:
                site("arraySubscript")
            elif is_ptr(qt(ch[0])) or (len(ch) > 1 and is_ptr(qt(ch[1]))):
                site("subscript")
        elif k == "MemberExpr" and n.get("isArrow") and ch:
            b = self.strip_implicit(ch[0])
            if b.get("kind") != "CXXThisExpr":
                t = qt(ch[0])
                mt = n.get("type", {}).get("qualType", "")
                if is_ptr(t) and "bound member function" not in mt:
                    site("arrow")
        elif k in ("BinaryOperator", "CompoundAssignOperator"):
            op = n.get("opcode", "")
            if op in ("+", "-", "+=", "-=") and is_ptr(qt(n)):
                site("ptrArith")
        elif k in ("CStyleCastExpr", "CXXReinterpretCastExpr", "CXXStaticCastExpr", "CXXFunctionalCastExpr"):
            ck = n.get("castKind")
            t = qt(n)
            if ck in ("BitCast", "IntegralToPointer", "Dependent") and (is_ptr(t) or ck != "Dependent") and ch:
                src = qt(ch[0])
                if is_ptr(t):
                    same = base_type(pointee(src)) == base_type(pointee(t)) if is_ptr(src) else False
                    if not same:
                        site("castToStruct" if self.is_class_name(pointee(t)) else "castPtr")
            elif ck == "NoOp" and k != "CXXStaticCastExpr" and is_ptr(t) and ch and is_ptr(qt(ch[0])) and \
                    base_type(pointee(qt(ch[0]))) != base_type(pointee(t)):
                site("castToStruct" if self.is_class_name(pointee(t)) else "castPtr")
        if k in ("CallExpr", "CXXMemberCallExpr", "CXXOperatorCallExpr"):
            did, name, member = self.callee_of(n)
            args = ch[1:]
            if k == "CXXMemberCallExpr" and ch:
                args = ch[1:]
            has_ptr = any(self.ptr_operand(a) for a in args)
            if did is not None and did in self.ast.by_id and self.ast.by_id[did].get("kind") in FUNC_KINDS:
                f["calls"].append(("id", did))
                if has_ptr:
                    site(self.pass_kind(args, f))
            elif did is None and name != "?":
                f["calls"].append(("name", name))
                if has_ptr:
                    site(self.pass_kind(args, f))
            elif self.tins_callee(n, name, member):
                # the declaration is not in the (filtered) dump -- an instantiation clang printed by reference only -- but the
                # object is a class of namespace Tins / the name is a function of namespace Tins: followed by name
                f["calls"].append(("name", name))
                if has_ptr:
                    site(self.pass_kind(args, f))
            else:
                # declared outside namespace Tins (the dump is filtered): libc / libstdc++ / pcap / OpenSSL
                bare = re.sub(r"^__builtin_", "", name)
                if has_ptr:
                    if bare in MEM_KIND and not member:
                        site(MEM_KIND[bare])
                    elif bare in STD_COPY and not member:
                        site("stdCopy")
                    elif not bare.startswith("operator") or member:
                        site("externCall")
        elif k in ("CXXConstructExpr", "CXXTemporaryObjectExpr", "CXXUnresolvedConstructExpr"):
            t = base_type(qt(n))
            cls = self.strip_tins(re.sub(r"<.*>", "", t))
            has_ptr = any(self.ptr_operand(a) for a in ch)
            in_tins = t.startswith("Tins::") or cls in self.records or ("Tins::" + cls) in self.qual.values()
            if in_tins:
                f["calls"].append(("ctor", cls + "|" + self.fn_type(n.get("ctorType", {}).get("qualType", "?"))))
                if has_ptr:
                    site(self.pass_kind(ch, f))
            elif has_ptr:
                site("externCall")
        elif k in ("UnresolvedLookupExpr", "UnresolvedMemberExpr", "CXXDependentScopeMemberExpr", "DependentScopeDeclRefExpr"):
            nm = n.get("name") or n.get("member")
            if nm:
                f["calls"].append(("name", nm))
        elif k == "DeclRefExpr":
            r = n.get("referencedDecl", {})
            if r.get("kind") in FUNC_KINDS and r.get("id") in self.ast.by_id:
                f["calls"].append(("id", r["id"]))       # also a function whose address is taken
        for c in ch:
            self.walk_body(c, path + [n], f, inside or bool(rec))

    def result(self):
        out = {}
        for lk, f in self.funcs.items():
            walks = []
            for w in f["walks"]:
                calls = set()
                for kind, v in w["calls"]:
                    if kind == "id":
                        tgt = self.id2loc.get(v)
                        if tgt is None:
                            d = self.ast.by_id.get(v)
                            tgt = self.loc_key(d) if d else None
                        if tgt:
                            calls.add("loc:" + tgt)
                            d = self.ast.by_id.get(v, {})
                            if d.get("virtual"):
                                calls.add("virt:" + d.get("name", "?"))
                    else:
                        calls.add(kind + ":" + v)
                walks.append(dict(sites=w["sites"], calls=sorted(calls), guards=w["guards"]))
            g = {k: v for k, v in f.items() if k != "walks"}
            g["walks"] = walks
            out[lk] = g
        return dict(funcs=out, records={c: {t: sorted(v) for t, v in d.items()} for c, d in self.records.items()})


def clang_docs(repo, src, extra=()):
    cmd = [CLANG, "-std=gnu++11", f"-D{GUARD}", "-I" + os.path.join(repo, "include"), "-w", "-fsyntax-only",
           "-Xclang", "-ast-dump=json", "-Xclang", "-ast-dump-filter=Tins", *extra, src]
    r = subprocess.run(cmd, stdout=subprocess.PIPE, stderr=subprocess.PIPE, text=True, cwd=repo)
    if r.returncode != 0:
        raise RuntimeError(f"clang failed on {src}:\n" + r.stderr[-3000:])
    dec = json.JSONDecoder()
    txt, i, docs, n = r.stdout, 0, [], len(r.stdout)
    while True:
        while i < n and txt[i] in " \r\n\t":
            i += 1
        if i >= n:
            break
        o, i = dec.raw_decode(txt, i)
        docs.append(o)
    return docs


def scan_tu(args):
    repo, src, cache = args
    if cache and os.path.exists(cache):
        try:
            return json.load(open(cache))
        except ValueError:
            pass
    try:
        docs = clang_docs(repo, src)
    except RuntimeError as e:
        return dict(error=str(e), src=src)
    tu = TU(repo, docs)
    for d in docs:
        tu.pass_ctx(d, "")
    for d in docs:
        tu.pass_funcs(d, None)
    res = tu.result()
    res["src"] = os.path.relpath(src, repo) if src.startswith(os.path.realpath(repo)) or src.startswith(repo) else os.path.basename(src)
    if cache:
        with open(cache + f".{os.getpid()}.tmp", "w") as f:
            json.dump(res, f)
        os.replace(cache + f".{os.getpid()}.tmp", cache)
    return res


def sha(*parts):
    h = hashlib.sha256()
    for p in parts:
        h.update(p if isinstance(p, bytes) else p.encode())
    return h.hexdigest()[:16]


def include_hash(repo):
    h = hashlib.sha256()
    for f in sorted(glob.glob(os.path.join(repo, "include", "tins", "**", "*"), recursive=True)):
        if os.path.isfile(f):
            h.update(os.path.relpath(f, repo).encode())
            h.update(open(f, "rb").read())
    return h.hexdigest()[:16]


def fkey(f):
    return f"{f['owner']}::{f['name']}({f['sig']})"


def merge(results, entry_rows):
    funcs, records, errors = {}, {}, []
    for r in results:
        if "error" in r:
            errors.append(f"clang could not parse {r.get('src')}: {r['error'].strip().splitlines()[-1][:200]}")
            continue
        for cls, d in r["records"].items():
            for t, ks in d.items():
                records.setdefault(cls, {}).setdefault(t, set()).update(ks)
        for lk, f in r["funcs"].items():
            g = funcs.get(lk)
            if g is None or (f["pattern"] and not g["pattern"]):
                h = dict(owner=f["owner"], name=f["name"], sig=f["sig"], kind=f["kind"], virtual=f["virtual"], pattern=f["pattern"],
                         defined=False, file=None, sites={}, guards={}, calls=set(), name_calls=set(), concrete=False)
                if g is not None:
                    for k in ("defined", "file", "sites", "guards", "calls", "name_calls", "concrete"):
                        h[k] = g[k]
                    h["virtual"] = h["virtual"] or g["virtual"]
                g = funcs[lk] = h
            g["virtual"] = g["virtual"] or f["virtual"]
            if f["defined"]:
                g["defined"] = True
                g["file"] = g["file"] or f["file"]
            for w in f["walks"]:
                names = {c for c in w["calls"] if c.startswith("name:")}
                g["calls"].update(c for c in w["calls"] if not c.startswith("name:"))
                g["name_calls"].update(names)
                if not names:
                    g["concrete"] = True      # a walk without unresolved names: a non-template or an instantiation
                # the same function is walked once per unit and per instantiation: a site counts once per distinct
                # (kind, text); its multiplicity is the LARGEST seen in one walk
                c = collections.Counter(tuple(x) for x in w["sites"])
                for x, m in c.items():
                    g["sites"][x] = max(g["sites"].get(x, 0), m)
                for x, m in collections.Counter(w.get("guards", [])).items():
                    g["guards"][x] = max(g["guards"].get(x, 0), m)
    for g in funcs.values():
        # unresolved names of a template pattern are followed by name only when no unit instantiates the template
        if not g["concrete"]:
            g["calls"].update(g["name_calls"])
    # the pattern's spelling names a function; instantiations seen first in some unit may have left a substituted signature:
    # prefer, per location, the spelling of the header-TU / first unit in sorted order (results are in sorted order)
    by_name, by_qname, virt = {}, {}, {}
    for lk, f in funcs.items():
        by_name.setdefault(f["name"], set()).add(lk)
        by_qname.setdefault(f["owner"] + "::" + f["name"], set()).add(lk)
        if f["virtual"]:
            virt.setdefault(f["name"], set()).add(lk)
    keys = {}
    for lk, f in funcs.items():
        keys.setdefault(fkey(f), []).append(lk)
    # roots
    roots, excluded = set(), []
    ekeys = {}
    for r in entry_rows:
        reason = None
        for how, what, why in EXCLUDED_ROOTS:
            if (how == "name" and r["name"] == what) or (how == "key" and r["key"] == what):
                reason = why
        if reason:
            excluded.append((r["key"], reason))
            continue
        ekeys[r["owner"] + "::" + r["name"]] = r["key"]
    for q in ekeys:
        for lk in by_qname.get(q, ()):
            if "uint8_t" in funcs[lk]["sig"] or "unsigned char" in funcs[lk]["sig"]:
                roots.add(lk)
    missing_roots = sorted(k for q, k in ekeys.items() if not any(lk in roots for lk in by_qname.get(q, ())))
    for nm in EXTRA_ROOT_NAMES:
        roots |= by_name.get(nm, set())
    for q in EXTRA_ROOT_QNAMES:
        roots |= by_qname.get(q, set())
    # reachability
    reach, why = set(roots), {lk: None for lk in roots}
    todo = sorted(roots)
    while todo:
        lk = todo.pop()
        f = funcs[lk]
        if f["kind"] == "CXXDestructorDecl":
            continue
        for c in sorted(f["calls"]):
            kind, v = c.split(":", 1)
            if kind == "loc":
                tg = {v} if v in funcs else set()
            elif kind == "virt":
                tg = virt.get(v, set())
            elif kind == "ctor":
                cls, _, ty = v.partition("|")
                d = records.get(cls, {})
                if ty in d:
                    tg = set(d[ty])
                elif re.fullmatch(r"void \((const )?[\w:<>, ]*&&?\)|void \(\)", ty):
                    tg = set()             # implicit default / copy / move constructor: member-wise, no code of its own
                else:
                    tg = set().union(*d.values()) if d else set()
            else:
                tg = by_name.get(v, set())
            for t in tg:
                if t not in reach and funcs[t]["kind"] != "CXXDestructorDecl" and funcs[t]["name"] not in ("operator delete",):
                    excl = any(how == "name" and funcs[t]["name"] == what for how, what, _ in EXCLUDED_ROOTS)
                    if excl:
                        continue
                    reach.add(t)
                    why[t] = lk
                    todo.append(t)
    def targets(lk):
        f = funcs[lk]
        out = set()
        if f["kind"] == "CXXDestructorDecl":
            return out
        for c in f["calls"]:
            kind, v = c.split(":", 1)
            if kind == "loc":
                tg = {v} if v in funcs else set()
            elif kind == "virt":
                tg = virt.get(v, set())
            elif kind == "ctor":
                cls, _, ty = v.partition("|")
                d = records.get(cls, {})
                if ty in d:
                    tg = set(d[ty])
                elif re.fullmatch(r"void \((const )?[\w:<>, ]*&&?\)|void \(\)", ty):
                    tg = set()
                else:
                    tg = set().union(*d.values()) if d else set()
            else:
                tg = by_name.get(v, set())
            out |= {t for t in tg if t in reach}
        return out
    # which roots reach which function (for the directed search of checks/C01.py)
    succ = {lk: targets(lk) for lk in reach}
    roots_of = {}
    for r0 in sorted(roots):
        seen, todo = {r0}, [r0]
        while todo:
            x = todo.pop()
            for t in succ.get(x, ()):
                if t not in seen:
                    seen.add(t)
                    todo.append(t)
        for x in seen:
            roots_of.setdefault(x, set()).add(r0)
    return dict(funcs=funcs, keys=keys, roots=roots, reach=reach, why=why, errors=errors, excluded=excluded,
                missing_roots=missing_roots, roots_of=roots_of)


def rows_of(m, all_funcs=False):
    rows = []
    dup = {k for k, v in m["keys"].items() if len([lk for lk in v if m["funcs"][lk]["defined"]]) > 1}
    for lk, f in m["funcs"].items():
        if not f["defined"] or not f["sites"]:
            continue
        if not all_funcs and lk not in m["reach"]:
            continue
        name = fkey(f)
        if name in dup:
            name += " @" + (f["file"] or "?")
        for (kind, expr), cnt in f["sites"].items():
            key = f"{name} | {kind} | {expr}" + (f" | x{cnt}" if cnt > 1 else "")
            rows.append(dict(key=key, function=name, kind=kind, expr=expr, count=cnt, file=f["file"] or "?"))
        # the conditions of the function: what a disposition may cite as the guard of a site
        for expr, cnt in f["guards"].items():
            key = f"{name} | guard | {expr}" + (f" | x{cnt}" if cnt > 1 else "")
            rows.append(dict(key=key, function=name, kind="guard", expr=expr, count=cnt, file=f["file"] or "?"))
    rows.sort(key=lambda r: r["key"])
    return rows


def via_chain(m, lk, limit=12):
    out = []
    while lk is not None and len(out) < limit:
        out.append(fkey(m["funcs"][lk]))
        lk = m["why"].get(lk)
    return out


def generate(repo, work, jobs=8, use_cache=True):
    import translator.gen_entrypoints as E
    entry = E.generate_cached(repo, VERIF, use_cache=use_cache)
    repo = os.path.realpath(repo)
    inc = include_hash(repo)
    me = sha(open(os.path.abspath(__file__), "rb").read())
    srcs = sorted(glob.glob(os.path.join(repo, "src", "**", "*.cpp"), recursive=True))
    hdr_tu = os.path.join(work, "all_headers.cpp")
    text = G.tu_text(G.header_list(repo), [])
    if not os.path.exists(hdr_tu) or open(hdr_tu).read() != text:
        with open(hdr_tu, "w") as f:
            f.write(text)
    jobs_l = []
    for s in srcs + [hdr_tu]:
        h = sha(open(s, "rb").read(), inc, me, os.path.relpath(s, repo) if s.startswith(repo) else "hdr")
        jobs_l.append((repo, s, os.path.join(work, "tu-" + h + ".json") if use_cache else None))
    total = sha(*[j[2] or j[1] for j in jobs_l], json.dumps(entry["rows"], sort_keys=True))
    merged_cache = os.path.join(work, "merged-" + total + ".json")
    if use_cache and os.path.exists(merged_cache):
        try:
            return json.load(open(merged_cache))
        except ValueError:
            pass
    if all(j[2] and os.path.exists(j[2]) for j in jobs_l):
        results = [scan_tu(j) for j in jobs_l]
    else:
        with ProcessPoolExecutor(jobs) as ex:
            results = list(ex.map(scan_tu, jobs_l))
    m = merge(results, entry["rows"])
    rows = rows_of(m)
    by_fn = {}
    for lk in m["reach"]:
        f = m["funcs"][lk]
        if f["defined"] and f["sites"]:
            by_fn[fkey(f)] = via_chain(m, lk)
    reached_from = {}
    for lk in m["reach"]:
        f = m["funcs"][lk]
        if f["defined"] and (f["sites"] or f["guards"]):
            reached_from[fkey(f)] = sorted(fkey(m["funcs"][r]) for r in m["roots_of"].get(lk, ()))
    out = dict(rows=rows, all_rows=rows_of(m, True), errors=m["errors"], excluded=m["excluded"], missing_roots=m["missing_roots"],
               reach=len(m["reach"]), functions=len(m["funcs"]), via=by_fn, reached_from=reached_from,
               roots=sorted(fkey(m["funcs"][lk]) for lk in m["roots"]))
    if use_cache:
        keep = {os.path.basename(j[2]) for j in jobs_l} | {os.path.basename(merged_cache)}
        for old in glob.glob(os.path.join(work, "*.json")):
            if os.path.basename(old) not in keep:
                try:
                    os.remove(old)
                except OSError:
                    pass
        with open(merged_cache + ".tmp", "w") as f:
            json.dump(out, f)
        os.replace(merged_cache + ".tmp", merged_cache)
    return out


# ----------------------------------------------------------------------------------------------- rendering

def lstr(s):
    return '"' + s.replace("\\", "\\\\").replace('"', '\\"').replace("\n", " ") + '"'


def key_nat(s):
    return int.from_bytes(s.encode("utf-8"), "big")


KINDS = ["deref", "subscript", "arraySubscript", "arrow", "memcpy", "memcmp", "memset", "stdCopy", "externCall", "ptrPass",
         "forward", "streamRest", "optionData", "castToStruct", "castPtr", "ptrArith"]


def render_lean(g):
    L = ["/- GENERATED by translator/gen_rawsites.py from the clang-14 AST of every src/**/*.cpp and of every header in include/tins.",
         "   Do not edit: the check regenerates this file on every run.",
         "   One row per raw memory access site (pointer dereference, subscript, member access through a pointer, memcpy / memcmp /",
         "   memset / std::copy / foreign call with raw pointer operands, pointer cast, pointer arithmetic) in a function on the",
         "   parse path = reachable by name from the construct-from-buffer entry points of Gen/EntryPoints (without",
         "   matches_response: C14, and the writers: C02) and from the option decoders (`from_option`, `PDUOption::to`). -/",
         "namespace Tins.Gen.RawSites",
         "",
         "inductive Kind",
         "  | " + " | ".join(KINDS),
         "deriving DecidableEq, Repr",
         "",
         "structure RawSite where",
         "  key : String        -- function | kind | normalised expression [| xN when it occurs N > 1 times], unique",
         "  keyNat : Nat        -- the UTF-8 bytes of `key` as one base-256 number (what `Wire.RawCoverage.disposition` looks up)",
         "  function : String   -- owner::name(parameter types as spelled), without the leading Tins::",
         "  kind : Kind",
         "  expr : String       -- source text of the expression, white space collapsed",
         "  count : Nat         -- occurrences of this expression in the function",
         "  file : String       -- where the function is defined",
         "deriving Repr",
         "",
         "/-- translation units clang could not parse / entry points whose definition the scan did not find (must be empty) -/",
         "def unparsed : List String := [" + ", ".join(lstr(u) for u in g["errors"] + ["no definition found for entry point " + k for k in g["missing_roots"]]) + "]",
         "",
         "/-- entry points that are NOT roots of the parse path, and who owns them -/",
         "def excludedRoots : List (String × String) := [" + ", ".join(f"({lstr(k)}, {lstr(w)})" for k, w in sorted(set(map(tuple, g["excluded"])))) + "]",
         "",
         "/-- the conditions (`if` / `while` / `for` / `do` / `?:`) of every function that holds a raw site: what a disposition may",
         "    cite as the guard of a site.  `Wire.RawCoverage.guards_present` demands that every cited guard is still here. -/",
         "structure Guard where",
         "  key : String        -- function | guard | normalised condition [| xN]",
         "  keyNat : Nat",
         "  function : String",
         "  expr : String",
         "  count : Nat",
         "deriving Repr",
         "",
         "def guards : List Guard := ["]
    L.append(",\n".join(f"  {{ key := {lstr(r['key'])},\n    keyNat := {key_nat(r['key'])},\n    function := {lstr(r['function'])}, "
                        f"expr := {lstr(r['expr'])}, count := {r['count']} }}" for r in g["rows"] if r["kind"] == "guard"))
    L += ["]", "", "def all : List RawSite := ["]
    items = []
    for r in g["rows"]:
        if r["kind"] == "guard":
            continue
        items.append(f"  {{ key := {lstr(r['key'])},\n    keyNat := {key_nat(r['key'])},\n"
                     f"    function := {lstr(r['function'])}, kind := .{r['kind']}, expr := {lstr(r['expr'])}, "
                     f"count := {r['count']}, file := {lstr(r['file'])} }}")
    L.append(",\n".join(items))
    L.append("]")
    L.append("")
    L.append("end Tins.Gen.RawSites")
    return "\n".join(L) + "\n"


def main(argv=None):
    """Regenerate lean/TinsModel/Gen/RawSites.lean.  Returns the generated dict (+ `changed`)."""
    ap = argparse.ArgumentParser()
    ap.add_argument("--repo", default=os.environ.get("VERIF_REPO", "/repo"))
    ap.add_argument("--no-cache", action="store_true")
    ap.add_argument("--quiet", action="store_true")
    ap.add_argument("--all", action="store_true", help="print the sites of every function, on the parse path or not")
    ap.add_argument("--list", action="store_true", help="print the rows")
    ap.add_argument("--skeleton", action="store_true",
                    help="print, in the syntax of lean/TinsModel/Wire/RawCoverage.lean, a row for every site that has none there")
    ap.add_argument("--jobs", type=int, default=8)
    a = ap.parse_args(argv or [])
    work = os.path.join(VERIF, ".work", "c01_rawsites")
    os.makedirs(work, exist_ok=True)
    g = generate(a.repo, work, jobs=a.jobs, use_cache=not a.no_cache)
    changed = []
    if G.write_if_changed(os.path.join(VERIF, "lean", "TinsModel", "Gen", "RawSites.lean"), render_lean(g)):
        changed.append("lean/TinsModel/Gen/RawSites.lean")
    g["changed"] = changed
    if __name__ == "__main__" and not a.quiet:
        c = collections.Counter(r["kind"] for r in g["rows"])
        print(f"{len([r for r in g['rows'] if r['kind'] != 'guard'])} raw sites in {len({r['function'] for r in g['rows']})} functions on the parse path "
              f"({g['reach']} of {g['functions']} functions reachable from {len(g['roots'])} roots); {dict(c)}; "
              f"changed: {changed or 'nothing'}")
        for u in g["errors"]:
            print("  unparsed:", u)
        for u in g["missing_roots"]:
            print("  entry point without a definition in the scan:", u)
        if a.skeleton:
            try:
                have = set(re.findall(r'rk% "((?:[^"\\]|\\.)*)"', open(os.path.join(VERIF, "lean", "TinsModel", "Wire", "RawCoverage.lean")).read()))
            except OSError:
                have = set()
            have = {h.replace('\\"', '"').replace("\\\\", "\\") for h in have}
            for r in g["rows"]:
                if r["kind"] not in ("guard", "forward", "streamRest", "optionData") and r["key"] not in have:
                    print(f"  (rk% {lstr(r['key'])}, .unmodelled \"?\"),")
        if a.list or a.all:
            for r in (g["all_rows"] if a.all else g["rows"]):
                print(f"  {r['key']}    [{r['file']}]")
    return g


if __name__ == "__main__":
    main(sys.argv[1:])
