#!/usr/bin/env python3
"""gen_entrypoints.py — regenerates, from the CURRENT headers of the repo (property C01),

  * lean/TinsModel/Gen/EntryPoints.lean  -- one row per *construct-from-buffer form* of libtins' public interface;
  * harness/c01_entry_gen.h              -- the rows a caller can invoke with just (buffer, size) as X-macros, so that
                                            harness/c01_entry.cpp drives every one of them (also one added tomorrow).

A construct-from-buffer form is a function a user of the library can call with a pointer to bytes it does not control
and their count:  every PUBLIC constructor, PUBLIC static member function, PUBLIC non-static member function, or free
function, declared in a header below include/tins inside namespace Tins (any nesting), whose parameter list contains a
`const uint8_t*` (`const unsigned char*`) parameter immediately followed by an integer size parameter (`uint32_t`,
`size_t`, ...).  Functions that take a non-const `uint8_t*` are writers and do not match.

Source of truth is the clang-14 JSON AST (never regexes over the source) of a translation unit that includes EVERY
header below include/tins (the loading helpers are those of gen_pdu_classes.py).  Nothing is guessed:

  * access is followed through nested classes (a public member of a private nested class is not an entry point);
  * class templates and function templates are read from their pattern (`isTemplate`); instantiations are skipped;
  * redeclarations / out-of-line definitions are skipped (the first declaration is the row);
  * a declaration the scan cannot classify (a matching function in a context it does not understand) is emitted into
    `unparsed`, and the theorem `Wire.Coverage.scan_complete : unparsed = []` fails.

Deterministic: rows are sorted by key; files are written only when their content changed; the result is cached in
.work/ keyed by the content of include/tins/** and of this file.
"""
import argparse, glob, json, os, re, sys

HERE = os.path.dirname(os.path.abspath(__file__))
VERIF = os.path.dirname(HERE)
sys.path.insert(0, VERIF)
from translator import gen_pdu_classes as G   # AST loading helpers (run_clang, Ast, children, header_list, …)

BYTE_PTR = {"const unsigned char *", "const uint8_t *", "const unsigned char *const", "const uint8_t *const",
            "const Tins::uint8_t *"}
SIZE_TYPES = {"unsigned int", "unsigned long", "unsigned long long", "unsigned short", "int", "long", "long long", "short",
              "uint32_t", "uint16_t", "uint64_t", "size_t", "std::size_t", "const unsigned int", "const unsigned long",
              "const uint32_t", "const size_t", "const uint16_t"}
FUNC_KINDS = {"FunctionDecl": "free", "CXXMethodDecl": "method", "CXXConstructorDecl": "ctor"}
RECORD_KINDS = {"CXXRecordDecl", "ClassTemplatePartialSpecializationDecl"}


def norm_type(t):
    return re.sub(r"\s+", " ", (t or "").strip())


def ptype(p):
    t = p.get("type", {})
    return norm_type(t.get("qualType")), norm_type(t.get("desugaredQualType") or t.get("qualType"))


def buffer_arg(params):
    """index of the first `const uint8_t*` parameter that is directly followed by an integer size, or None"""
    ts = [ptype(p) for p in params]
    for i in range(len(ts) - 1):
        if (ts[i][0] in BYTE_PTR or ts[i][1] in BYTE_PTR) and (ts[i + 1][0] in SIZE_TYPES or ts[i + 1][1] in SIZE_TYPES):
            return i
    return None


def strip_tins(q):
    q = q.replace("Tins::", "")
    return q if q and q != "Tins" else "Tins"


class Scan:
    def __init__(self, ast, repo, pdu_keys, abstract_keys):
        self.ast, self.repo = ast, repo
        self.pdu_keys, self.abstract_keys = pdu_keys, abstract_keys
        self.rows = {}
        self.unparsed = []
        self.inc = os.path.join(os.path.realpath(repo), "include") + os.sep

    def header_of(self, n):
        loc = n.get("loc", {})
        loc = loc.get("expansionLoc", loc)
        f = loc.get("file")
        if not f:
            return None
        f = os.path.realpath(f)
        if not f.startswith(self.inc + "tins" + os.sep):
            return None
        return "include/" + f[len(self.inc):]

    def func(self, n, owner, owner_is_class, public, is_template):
        kind = FUNC_KINDS[n["kind"]]
        if n.get("isImplicit") or n.get("previousDecl"):
            return
        params = [p for p in G.children(n) if p.get("kind") == "ParmVarDecl"]
        i = buffer_arg(params)
        if i is None:
            return
        hdr = self.header_of(n)
        if hdr is None:
            return                                   # declared outside include/tins (system headers)
        if n.get("explicitlyDeleted"):
            return
        if owner_is_class:
            if not public:
                return
            if kind == "method" and n.get("storageClass") == "static":
                kind = "static"
        elif kind != "free":
            # a member function whose lexical parent is not its class: an out-of-line definition without previousDecl
            self.unparsed.append(f"{owner}::{n.get('name')} ({n['kind']} outside its class, {hdr})")
            return
        o = strip_tins(owner)
        sig = ", ".join(ptype(p)[0] for p in params)
        key = f"{o}::{n.get('name')}({sig})"
        # callable with just (buffer, size): the pair comes first and every later parameter has a default argument
        plain = (i == 0) and all("init" in p for p in params[2:])
        base = o.split("<")[0]
        abstract = base in self.abstract_keys
        # `auto`: listed in C01_ENTRY_CTORS / C01_ENTRY_FUNCS of harness/c01_entry_gen.h, which harness/c01_entry.cpp expands
        # into a call -- such a row is driven by construction, also one that did not exist yesterday
        auto = plain and not is_template and ((kind == "ctor" and not abstract) or kind in ("static", "free"))
        row = dict(key=key, owner=o, name=n.get("name", "?"), kind=kind, params=sig, bufArg=i, plain=plain, auto=auto,
                   isPdu=base in self.pdu_keys, isAbstract=abstract, isTemplate=is_template, header=hdr)
        self.rows.setdefault(key, row)

    def record(self, n, public, is_template):
        """members of a class definition; `public` = the class itself is reachable through public names only"""
        if not n.get("completeDefinition"):
            return
        owner = self.ast.qualname(n)
        access = "private" if n.get("tagUsed") == "class" else "public"
        for m in G.children(n):
            k = m.get("kind")
            if k == "AccessSpecDecl":
                access = m.get("access", access)
                continue
            pub = public and access == "public"
            if k in FUNC_KINDS:
                self.func(m, owner, True, pub, is_template)
            elif k == "FunctionTemplateDecl":
                pat = [c for c in G.children(m) if c.get("kind") in FUNC_KINDS]
                if pat:
                    self.func(pat[0], owner, True, pub, True)
            elif k in RECORD_KINDS:
                self.record(m, pub, is_template)
            elif k == "ClassTemplateDecl":
                for c in G.children(m):
                    if c.get("kind") == "CXXRecordDecl":
                        self.record(c, pub, True)
            elif k == "FriendDecl":
                # a friend function DEFINED inside the class is a free function of the enclosing namespace
                for c in G.children(m):
                    if c.get("kind") == "FunctionDecl" and buffer_arg([p for p in G.children(c) if p.get("kind") == "ParmVarDecl"]) is not None \
                            and any(x.get("kind") == "CompoundStmt" for x in G.children(c)):
                        self.unparsed.append(f"{owner}: friend function {c.get('name')} defined in the class")

    def namespace(self, n):
        owner = self.ast.qualname(n)
        for m in G.children(n):
            self.top(m, owner)

    def top(self, m, owner):
        k = m.get("kind")
        if k == "NamespaceDecl":
            self.namespace(m)
        elif k == "FunctionDecl":
            self.func(m, owner, False, True, False)
        elif k in ("CXXMethodDecl", "CXXConstructorDecl"):
            if not m.get("previousDecl") and not m.get("isImplicit"):
                self.func(m, owner, False, True, False)          # -> unparsed when it matches
        elif k == "FunctionTemplateDecl":
            pat = [c for c in G.children(m) if c.get("kind") in FUNC_KINDS]
            if pat and pat[0]["kind"] == "FunctionDecl":
                self.func(pat[0], owner, False, True, True)
        elif k in RECORD_KINDS:
            self.record(m, True, k != "CXXRecordDecl")
        elif k == "ClassTemplateDecl":
            for c in G.children(m):
                if c.get("kind") == "CXXRecordDecl":
                    self.record(c, True, True)
        # ClassTemplateSpecializationDecl (instantiations), variables, typedefs, enums: no entry points of their own


def generate(repo, workdir):
    headers = G.header_list(repo)
    ast = G.Ast(G.run_clang(repo, G.tu_text(headers, []), workdir, "entrypoints"))
    classes = G.pdu_classes(ast)
    recs = G.collect_records(ast)
    abstract = {q[len("Tins::"):].replace("Tins::", "") for q, n in recs.items()
                if n.get("definitionData", {}).get("isAbstract")}
    sc = Scan(ast, repo, set(classes.keys()), abstract)
    for d in ast.docs:
        # the dump is filtered by name: top-level documents are the namespace Tins blocks (and, for out-of-line
        # members, bare declarations, which `top` sends to `unparsed` when they match)
        if d.get("kind") == "NamespaceDecl":
            if sc.ast.qualname(d).split("::")[0] == "Tins":
                sc.namespace(d)
        else:
            sc.top(d, sc.ast.qualname(d) or "?")
    rows = [sc.rows[k] for k in sorted(sc.rows)]
    return dict(rows=rows, unparsed=sorted(set(sc.unparsed)), headers=headers)


# ----------------------------------------------------------------------------------------------- rendering

LEAN_KIND = {"ctor": ".constructor", "static": ".staticMember", "free": ".freeFunction", "method": ".method"}


def lb(b):
    return "true" if b else "false"


def render_lean(g):
    L = ["/- GENERATED by translator/gen_entrypoints.py from the clang-14 AST of every header in include/tins.",
         "   Do not edit: the check regenerates this file on every run.",
         "   One row per construct-from-buffer form: a public constructor / static member / member function, or a free",
         "   function of namespace Tins, with a `const uint8_t*` parameter directly followed by an integer size. -/",
         "namespace Tins.Gen.EntryPoints",
         "",
         "inductive Kind",
         "  | constructor | staticMember | freeFunction | method",
         "deriving DecidableEq, Repr",
         "",
         "structure EntryPoint where",
         "  key : String          -- owner::name(parameter types), unique",
         "  keyNat : Nat          -- the UTF-8 bytes of `key` read as one big-endian base-256 number (injective; the kernel",
         "                        -- compares numbers instantly, strings slowly) -- what `Wire.Coverage.disposition` looks up",
         "  owner : String        -- class or namespace, without the leading Tins::",
         "  name : String",
         "  kind : Kind",
         "  params : String       -- parameter types as spelled in the header",
         "  bufArg : Nat          -- position of the `const uint8_t*` parameter (its size follows)",
         "  plain : Bool          -- callable with just (buffer, size)",
         "  auto : Bool           -- expanded into a call by harness/c01_entry.cpp through the generated harness/c01_entry_gen.h",
         "  isPdu : Bool          -- the owner derives from Tins::PDU",
         "  isAbstract : Bool     -- the owner is an abstract class",
         "  isTemplate : Bool     -- read from a class / function template pattern",
         "  header : String",
         "deriving Repr, DecidableEq",
         "",
         "/-- declarations that match the pattern but that the scan could not classify (must be empty) -/",
         "def unparsed : List String := [" + ", ".join('"' + G.lean_str(u) + '"' for u in g["unparsed"]) + "]",
         "",
         "def all : List EntryPoint := ["]
    items = []
    for r in g["rows"]:
        items.append(
            f'  {{ key := "{G.lean_str(r["key"])}",\n'
            f'    keyNat := {int.from_bytes(r["key"].encode("utf-8"), "big")},\n'
            f'    owner := "{G.lean_str(r["owner"])}", name := "{G.lean_str(r["name"])}", kind := {LEAN_KIND[r["kind"]]},\n'
            f'    params := "{G.lean_str(r["params"])}", bufArg := {r["bufArg"]}, plain := {lb(r["plain"])}, auto := {lb(r["auto"])},\n'
            f'    isPdu := {lb(r["isPdu"])}, isAbstract := {lb(r["isAbstract"])}, isTemplate := {lb(r["isTemplate"])}, '
            f'header := "{r["header"]}" }}')
    L.append(",\n".join(items))
    L.append("]")
    L.append("")
    L.append("end Tins.Gen.EntryPoints")
    return "\n".join(L) + "\n"


def cxx_owner(r):
    return "Tins" if r["owner"] == "Tins" else "Tins::" + r["owner"]


def render_header(g):
    """X-macros of the rows harness/c01_entry.cpp can call generically: (buffer, size) is the whole argument list,
    the owner is not a template and (constructors) not abstract."""
    L = ["// GENERATED by translator/gen_entrypoints.py -- do not edit (regenerated on every run of checks/C01.py)",
         "#ifndef C01_ENTRY_GEN_H", "#define C01_ENTRY_GEN_H"]
    for h in g["headers"]:
        L.append(f"#include <{h}>")
    ctors = [r for r in g["rows"] if r["auto"] and r["kind"] == "ctor"]
    funcs = [r for r in g["rows"] if r["auto"] and r["kind"] != "ctor"]
    L.append("// X(key, C++ class): public constructors callable as  Class(buffer, size)")
    L.append("#define C01_ENTRY_CTORS(X) \\")
    L.append(" \\\n".join(f'  X("{r["key"]}", {cxx_owner(r)})' for r in ctors))
    L.append("// X(key, C++ function): public static members and free functions callable as  f(buffer, size)")
    L.append("#define C01_ENTRY_FUNCS(X) \\")
    L.append(" \\\n".join(f'  X("{r["key"]}", {cxx_owner(r)}::{r["name"]})' for r in funcs))
    L.append("// every other row (extra arguments, templates, member functions): driven by hand-written glue or not at all")
    L.append("#define C01_ENTRY_OTHER(X) \\")
    other = [r for r in g["rows"] if r not in ctors and r not in funcs]
    L.append(" \\\n".join(f'  X("{r["key"]}")' for r in other))
    L.append(f"#define C01_ENTRY_COUNT {len(g['rows'])}")
    L.append("#endif")
    return "\n".join(L) + "\n"


def generate_cached(repo, verif=VERIF, use_cache=True):
    work = os.path.join(verif, ".work", "c01_entrypoints")
    os.makedirs(work, exist_ok=True)
    h = G.include_hash(repo)
    import hashlib
    h = hashlib.sha256((h + open(os.path.abspath(__file__), "rb").read().decode("utf-8", "replace")).encode()).hexdigest()[:16]
    cache = os.path.join(work, h + ".json")
    g = None
    if use_cache and os.path.exists(cache):
        try:
            g = json.load(open(cache))
        except ValueError:
            g = None
    if g is None:
        g = generate(repo, work)
        for old in glob.glob(os.path.join(work, "*.json")):
            os.remove(old)
        with open(cache + ".tmp", "w") as f:
            json.dump(g, f)
        os.replace(cache + ".tmp", cache)
    return g


def main(argv=None):
    """Regenerate both files.  Returns dict(rows=…, unparsed=…, changed=[paths])."""
    ap = argparse.ArgumentParser()
    ap.add_argument("--repo", default=os.environ.get("VERIF_REPO", "/repo"))
    ap.add_argument("--no-cache", action="store_true")
    ap.add_argument("--quiet", action="store_true")
    a = ap.parse_args(argv or [])
    g = generate_cached(a.repo, use_cache=not a.no_cache)
    changed = []
    if G.write_if_changed(os.path.join(VERIF, "lean", "TinsModel", "Gen", "EntryPoints.lean"), render_lean(g)):
        changed.append("lean/TinsModel/Gen/EntryPoints.lean")
    if G.write_if_changed(os.path.join(VERIF, "harness", "c01_entry_gen.h"), render_header(g)):
        changed.append("harness/c01_entry_gen.h")
    g["changed"] = changed
    if not a.quiet and __name__ == "__main__":
        import collections
        c = collections.Counter(r["kind"] for r in g["rows"])
        print(f"{len(g['rows'])} entry points ({dict(c)}), {len(g['unparsed'])} unparsed; changed: {changed or 'nothing'}")
        for u in g["unparsed"]:
            print("  unparsed:", u)
    return g


if __name__ == "__main__":
    main(sys.argv[1:])
