#!/usr/bin/env python3
"""gen_members.py — regenerates, from the CURRENT source of the repo (property C12),

  * lean/TinsModel/Gen/Members.lean   -- one row per class of the ownership scope: every class derived from Tins::PDU
    (plus one PDUCacher instantiation), Packet, the PacketWrapper instantiations (PtrPacket / RefPacket), every
    PDUOption instantiation, IPv4Reassembler / IPv4Stream / IPv4Fragment, TCPStream(+Follower), the tcp_ip classes.
    Per row: bases, abstract?, every non-static data member with its type and a CLASSIFICATION of what a member-wise
    copy of it does (value / nested object of the table / container of those / owned raw pointer / non-owning raw
    pointer / smart pointer / reference / container of raw pointers / other), the status of the five special member
    functions and the destructor (implicit / defaulted / deleted / user-provided with the members the body mentions /
    private and never defined / not declared), and the clone() override (absent / pure / `return new X(*this)` with X
    / anything else).

Source of truth is the clang-14 JSON AST (helpers of gen_pdu_classes.py): one TU with every header below include/tins
plus probe functions that instantiate the special members of the class templates, and one TU per src/*.cpp that
defines a special member or clone() of a class of the scope out of line (PDU, TCPStream, ...).  The verification hooks
(-DTINS_VERIF_HOOKS) are OFF: the table describes the library as shipped.

Nothing is guessed: a type the classifier does not know, a user-declared special member whose definition is not
found, a clone() body outside the canonical shape are emitted as `unparsed` / `.other`, and the `decide` theorems of
lean/TinsModel/Props/Members/C12.lean fail.

Deterministic (rows sorted: bases first, then by name); written only when the content changed; cached in .work/
keyed by the content of include/tins/**, src/**/*.cpp and this file.
"""
import concurrent.futures, glob, hashlib, json, os, re, sys

HERE = os.path.dirname(os.path.abspath(__file__))
VERIF = os.path.dirname(HERE)
sys.path.insert(0, VERIF)
from translator import gen_pdu_classes as G

# classes of the scope that do not derive from PDU (normalised names; a trailing `<` = every instantiation)
EXTRA_SCOPE = ["Packet", "PacketWrapper<", "PDUOption<", "IPv4Reassembler", "Internals::IPv4Stream", "Internals::IPv4Fragment",
               "TCPStream", "TCPStreamFollower", "TCPIP::DataTracker", "TCPIP::AckTracker", "TCPIP::Flow", "TCPIP::Stream",
               "TCPIP::StreamFollower", "TCPIP::StreamIdentifier"]
CACHER_PROBE = "IP"              # PDUCacher<IP>: the instantiation the harnesses use

ARITH = {"bool", "char", "signed char", "unsigned char", "short", "unsigned short", "int", "unsigned int", "long", "unsigned long",
         "long long", "unsigned long long", "float", "double", "long double", "wchar_t", "char16_t", "char32_t", "__int128",
         "unsigned __int128", "unsigned", "signed"}
CONTAINERS = {"std::vector", "std::list", "std::deque", "std::map", "std::multimap", "std::set", "std::multiset",
              "std::basic_string", "std::unordered_map", "std::unordered_set", "std::forward_list", "std::queue", "std::stack",
              "boost::icl::interval_set"}
AGGREGATES = {"std::pair", "std::tuple", "std::array"}
VALUE_TEMPLATES = {"std::chrono::duration", "std::chrono::time_point", "std::ratio", "std::bitset", "std::less", "std::allocator",
                   "std::char_traits", "std::equal_to", "std::hash"}
SMART = {"std::shared_ptr", "std::unique_ptr", "std::weak_ptr", "std::auto_ptr", "boost::shared_ptr", "boost::scoped_ptr"}
ERASED = {"std::function", "boost::any", "boost::function"}

STDINT = {"uint8_t", "uint16_t", "uint32_t", "uint64_t", "int8_t", "int16_t", "int32_t", "int64_t", "size_t", "std::size_t",
          "ssize_t", "ptrdiff_t", "std::ptrdiff_t", "uintptr_t", "intptr_t", "time_t", "suseconds_t", "__time_t", "__suseconds_t"}

RANK = {"value": 0, "nested": 1, "container": 2, "smartPtr": 3, "ptr": 4, "ptrContainer": 5, "reference": 6, "other": 7, "unparsed": 8}


def norm(q):
    """normalised spelling of a class / type name: no blanks, no Tins:: qualifiers, no elaborated-type keywords"""
    q = re.sub(r"\b(class|struct|union|enum)\s+", "", q or "")
    q = q.replace("Tins::", "")
    return re.sub(r"\s+", "", q)


# ----------------------------------------------------------------------------- records of one AST

class Tu:
    def __init__(self, ast):
        self.ast = ast
        self.recs = {}           # normalised name -> record node (complete definitions)
        self.enums = set()       # normalised names of enums
        self.typedefs = {}       # normalised qualified name, template arguments stripped -> underlying type spelling
        self.outofline = []      # function definitions whose lexical parent is not their class
        for d in ast.docs:
            self._visit(d, None)

    def rec_name(self, n):
        q = self.ast.qualname(n)
        if n.get("kind") == "ClassTemplateSpecializationDecl":
            args = []
            for a in n.get("inner", []) or []:
                if isinstance(a, dict) and a.get("kind") == "TemplateArgument":
                    if "type" in a:
                        args.append(a["type"].get("desugaredQualType") or a["type"].get("qualType", "?"))
                    elif "value" in a:
                        args.append(str(a["value"]))
                    else:
                        args.append("?")
            q += "<" + ",".join(args) + ">"
        return norm(q)

    def _visit(self, n, lexical_class):
        k = n.get("kind")
        if k == "ClassTemplateDecl":
            for c in G.children(n):
                if c.get("kind") == "ClassTemplateSpecializationDecl":
                    self._visit(c, None)
            return
        if k in ("ClassTemplatePartialSpecializationDecl", "FunctionTemplateDecl"):
            return
        if k in ("TypedefDecl", "TypeAliasDecl") and n.get("name"):
            q = self.ast.qualname(self.ast.parent.get(n["id"]) or {})
            ty = n.get("type", {})
            self.typedefs.setdefault(strip_targs(norm(q + "::" + n["name"])), ty.get("desugaredQualType") or ty.get("qualType", "?"))
            return
        if k == "EnumDecl" and n.get("name"):
            self.enums.add(norm(self.ast.qualname(self.ast.parent.get(n["id"]) or {}) + "::" + n["name"]))
            return
        if k in ("CXXRecordDecl", "ClassTemplateSpecializationDecl"):
            if n.get("completeDefinition") and n.get("name"):
                self.recs.setdefault(self.rec_name(n), n)
            for c in G.children(n):
                self._visit(c, n)
            return
        if k == "NamespaceDecl":
            for c in G.children(n):
                self._visit(c, None)
            return
        if k in ("CXXConstructorDecl", "CXXDestructorDecl", "CXXMethodDecl") and lexical_class is None:
            if any(c.get("kind") == "CompoundStmt" for c in G.children(n)):
                self.outofline.append(n)

    def owner_of(self, fn):
        """normalised name of the class an out-of-line member definition belongs to"""
        pid = fn.get("parentDeclContextId")
        p = self.ast.by_id.get(pid)
        if p is None:
            return None
        return self.rec_name(p)


def strip_targs(s):
    out, depth = "", 0
    for ch in s:
        if ch == "<":
            depth += 1
        elif ch == ">":
            depth -= 1
        elif depth == 0:
            out += ch
    return out


def base_names(n):
    return [norm(b["type"].get("desugaredQualType", b["type"]["qualType"])) for b in n.get("bases", [])]


# ----------------------------------------------------------------------------- type classification

def split_args(s):
    out, depth, cur = [], 0, ""
    for ch in s:
        if ch in "<([":
            depth += 1
        elif ch in ">)]":
            depth -= 1
        if ch == "," and depth == 0:
            out.append(cur.strip()); cur = ""
        else:
            cur += ch
    if cur.strip():
        out.append(cur.strip())
    return out


class Classifier:
    def __init__(self, tu, scope):
        self.tu, self.scope = tu, scope
        self.memo = {}

    def worst(self, rs):
        kind, holds, why = "value", [], ""
        for k, h, w in rs:
            holds += [x for x in h if x not in holds]
            if RANK[k] > RANK[kind]:
                kind, why = k, w
        return kind, holds, why

    def classify(self, t, anon=None, depth=0):
        """(kind, [scope classes held by value], reason) for a desugared type spelling"""
        t = re.sub(r"\s+", " ", t.strip())
        if depth > 12:
            return "unparsed", [], "type nesting too deep: " + t
        # cv-qualifiers
        t = re.sub(r"^(const|volatile|mutable) ", "", t)
        t = re.sub(r" (const|volatile)$", "", t)
        if t.endswith("&"):
            return "reference", [], t
        if t.endswith("*") or re.search(r"\*\s*const$", t) or re.search(r"\(\*\)\s*\(", t):
            return "ptr", [], t
        m = re.match(r"^(.*?)\s*\[\d*\]$", t)
        if m:
            return self.classify(m.group(1), anon, depth + 1)
        if t in ARITH or t in STDINT:
            return "value", [], ""
        if t in VALUE_TEMPLATES or (t.startswith("boost::icl::") and "<" not in t):
            return "value", [], ""
        if t in ERASED:
            return "other", [], "type-erased holder " + t
        m = re.match(r"^([A-Za-z_][A-Za-z_0-9:]*)\s*<(.*)>$", t)
        if m:
            head, args = m.group(1), split_args(m.group(2))
            if head in ERASED:
                return "other", [], "type-erased holder " + head
            if head in SMART:
                return "smartPtr", [], head
            if head in VALUE_TEMPLATES or (head.startswith("boost::icl::") and head not in CONTAINERS):
                return "value", [], ""
            if head in AGGREGATES or head in CONTAINERS:
                rs = []
                for a in args:
                    if re.match(r"^\d+$", a):
                        continue
                    rs.append(self.classify(a, None, depth + 1))
                k, h, w = self.worst(rs)
                if head in AGGREGATES:
                    return k, h, w
                if RANK[k] <= RANK["container"]:
                    return "container", h, ""
                if k == "ptr":
                    return "ptrContainer", h, "container of raw pointers: " + t
                return k, h, w
        key = norm(t)
        if key in self.tu.enums:
            return "value", [], ""
        if key in self.scope:
            return "nested", [key], ""
        rec = anon if anon is not None else self.tu.recs.get(key)
        if rec is None:
            td = self.tu.typedefs.get(strip_targs(key))
            if td is not None and norm(td) != key:
                return self.classify(td, None, depth + 1)
            return "unparsed", [], "unknown type: " + t
        if key in self.memo and anon is None:
            return self.memo[key]
        self.memo[key] = ("unparsed", [], "recursive type " + t)
        r = self.record_kind(rec, t, depth)
        if anon is None:
            self.memo[key] = r
        return r

    def record_kind(self, rec, t, depth):
        """a class outside the table held by value: the worst of its bases and members; a user-declared copy
        operation or destructor makes it `other` (its copy is not member-wise)"""
        dd = rec.get("definitionData", {})
        for sp in ("copyCtor", "copyAssign", "dtor"):
            if dd.get(sp, {}).get("userDeclared"):
                return "other", [], f"{t} user-declares its {sp}"
        rs = []
        for b in rec.get("bases", []):
            rs.append(self.classify(b["type"].get("desugaredQualType", b["type"]["qualType"]), None, depth + 1))
        for name, ty, an in fields_of(rec):
            rs.append(self.classify(ty, an, depth + 1))
        return self.worst(rs)


def fields_of(rec):
    """[(name, desugared type spelling, anonymous record node or None)] of the non-static data members"""
    out, last_anon = [], None
    for m in G.children(rec):
        k = m.get("kind")
        if k == "CXXRecordDecl" and not m.get("name") and m.get("completeDefinition"):
            last_anon = m
        elif k == "FieldDecl":
            ty = m["type"].get("desugaredQualType") or m["type"].get("qualType", "?")
            an = last_anon if re.search(r"\((unnamed|anonymous)", ty) else None
            out.append((m.get("name") or "(anonymous)", ty, an, m))
    return [(a, b, c) for a, b, c, _ in out]


def field_type_text(rec, name):
    for m in G.children(rec):
        if m.get("kind") == "FieldDecl" and m.get("name") == name:
            return re.sub(r"\((unnamed|anonymous) (\w+) at [^)]*\)", r"(unnamed \2)", re.sub(r"\s+", " ", m["type"].get("qualType", "?")))
    return "?"


# ----------------------------------------------------------------------------- bodies: mentions, deletes, clone

def walk(n):
    yield n
    for c in n.get("inner", []) or []:
        if isinstance(c, dict):
            yield from walk(c)


def root_field(e):
    """the data member a member-access chain starts from (this->f, f.x.y, rhs.f), or None"""
    e = G.strip_casts(e)
    while e.get("kind") in ("MemberExpr", "ArraySubscriptExpr", "UnaryOperator") and G.children(e):
        if e.get("kind") == "MemberExpr":
            inner = G.strip_casts(G.children(e)[0])
            if inner.get("kind") != "MemberExpr":
                return e
        e = G.strip_casts(G.children(e)[0])
    return None


class Bodies:
    """all function definitions of the classes of the scope, from every parsed TU, by (class, name, type)"""

    def __init__(self):
        self.defs = {}           # (class, name, type) -> (tu, node)
        self.by_class = {}       # class -> [(tu, node)]

    def add(self, tu, cls, node):
        key = (cls, node.get("name"), norm(node.get("type", {}).get("qualType", "")))
        if key not in self.defs:
            self.defs[key] = (tu, node)
            self.by_class.setdefault(cls, []).append((tu, node))

    def find(self, cls, node):
        return self.defs.get((cls, node.get("name"), norm(node.get("type", {}).get("qualType", ""))))


def has_body(n):
    return any(c.get("kind") == "CompoundStmt" for c in G.children(n))


def own_field_names(tu, cls):
    rec = tu.recs.get(cls)
    return [a for a, _, _ in fields_of(rec)] if rec else []


def mentions(bodies, tu, cls, fn, depth=0, seen=None):
    """(data members of `cls` the definition mentions, base classes it initialises / assigns) — through constructor
    initialisers, member accesses, and (transitively) calls of member functions of the same class"""
    seen = seen if seen is not None else set()
    if fn.get("id") in seen or depth > 4:
        return set(), set()
    seen.add(fn.get("id"))
    names = set(own_field_names(tu, cls))
    got, bases = set(), set()
    for x in walk(fn):
        k = x.get("kind")
        if k == "CXXCtorInitializer":
            # an initialiser the compiler adds (default construction of a member the constructor does not name) carries
            # the constructor's own location: that is not a mention
            init = G.children(x)
            b = (init[0].get("range", {}).get("begin", {}) if init else {})
            b = b.get("expansionLoc", b)
            floc = fn.get("loc", {}); floc = floc.get("expansionLoc", floc)
            if init and b.get("offset") is not None and b.get("offset") == floc.get("offset"):
                continue
            if "anyInit" in x and x["anyInit"].get("name") in names:
                got.add(x["anyInit"]["name"])
            if "baseInit" in x:
                bases.add(norm(x["baseInit"].get("desugaredQualType") or x["baseInit"].get("qualType", "")))
        elif k in ("MemberExpr", "DeclRefExpr"):
            d = tu.ast.by_id.get(x.get("referencedMemberDecl") if k == "MemberExpr" else x.get("referencedDecl", {}).get("id"), {})
            p = tu.ast.parent.get(d.get("id")) if d.get("id") else None
            owner = tu.rec_name(p) if p and p.get("kind") in ("CXXRecordDecl", "ClassTemplateSpecializationDecl") else None
            if k == "MemberExpr" and d.get("kind") == "FieldDecl" and x.get("name") in names and owner == cls:
                got.add(x["name"])
            elif d.get("kind") == "CXXMethodDecl":
                if d.get("name") == "operator=" and owner and owner != cls:
                    bases.add(owner)
                if owner == cls:
                    target = d if has_body(d) else None
                    ttu = tu
                    if target is None:
                        f = bodies.find(cls, d)
                        if f:
                            ttu, target = f
                    if target is not None:
                        g, b = mentions(bodies, ttu, cls, target, depth + 1, seen)
                        got |= g; bases |= b
    return got, bases


def deleted_fields(tu, cls, fn):
    out = set()
    names = set(own_field_names(tu, cls))
    for x in walk(fn):
        if x.get("kind") == "CXXDeleteExpr" and G.children(x):
            r = root_field(G.children(x)[0])
            if r is not None and r.get("name") in names:
                out.add(r["name"])
    return out


def clone_shape(tu, fn):
    """('canonical', X) for `{ return new X(*this); }`, else ('other', text)"""
    txt = G.lean_str(G.src_text(fn.get("range", {})) or "?")
    body = [c for c in G.children(fn) if c.get("kind") == "CompoundStmt"]
    if len(body) != 1:
        return "other", txt
    st = G.children(body[0])
    if len(st) != 1 or st[0].get("kind") != "ReturnStmt" or len(G.children(st[0])) != 1:
        return "other", txt
    e = G.strip_casts(G.children(st[0])[0])
    if e.get("kind") != "CXXNewExpr" or e.get("isArray") or e.get("isPlacement") or len(G.children(e)) != 1:
        return "other", txt
    c = G.children(e)[0]
    if c.get("kind") != "CXXConstructExpr" or len(G.children(c)) != 1:
        return "other", txt
    a = G.strip_casts(G.children(c)[0])
    if a.get("kind") != "UnaryOperator" or a.get("opcode") != "*" or G.strip_casts(G.children(a)[0]).get("kind") != "CXXThisExpr":
        return "other", txt
    ty = c.get("type", {})
    return "canonical", norm(ty.get("desugaredQualType") or ty.get("qualType", "?"))


# ----------------------------------------------------------------------------- special members of one class

def param_types(fn):
    return [p.get("type", {}).get("desugaredQualType") or p.get("type", {}).get("qualType", "")
            for p in G.children(fn) if p.get("kind") == "ParmVarDecl"]


def self_ref(ptype, cls, rec):
    """'copy' / 'move' / None: is the parameter type a (const) reference to the class itself"""
    t = ptype.strip()
    kind = None
    if t.endswith("&&"):
        kind, t = "move", t[:-2]
    elif t.endswith("&"):
        kind, t = "copy", t[:-1]
    else:
        return None
    t = norm(re.sub(r"^const ", "", t.strip()))
    bare = norm(rec.get("name", "?"))
    if t == cls or t == bare or t == cls.split("::")[-1]:
        return kind
    return None


def special_kind(fn, cls, rec):
    k = fn.get("kind")
    ps = param_types(fn)
    if k == "CXXDestructorDecl":
        return "dtor"
    if k == "CXXConstructorDecl" and len(ps) >= 1:
        inits = [p for p in G.children(fn) if p.get("kind") == "ParmVarDecl"]
        if all("init" in p for p in inits[1:]):
            s = self_ref(ps[0], cls, rec)
            if s:
                return s + "Ctor"
    if k == "CXXMethodDecl" and fn.get("name") == "operator=" and len(ps) == 1:
        s = self_ref(ps[0], cls, rec)
        if s:
            return s + "Assign"
    return None


def trivial_body(fn):
    body = [c for c in G.children(fn) if c.get("kind") == "CompoundStmt"]
    inits = [c for c in G.children(fn) if c.get("kind") == "CXXCtorInitializer"]
    return len(body) == 1 and not G.children(body[0]) and not inits


def analyse_class(tu, bodies, cls, rec, classifier, scope, derived_from_pdu):
    row = dict(name=cls, bases=[b for b in base_names(rec) if b in scope], otherBases=[b for b in base_names(rec) if b not in scope],
               isPdu=derived_from_pdu, isAbstract=bool(rec.get("definitionData", {}).get("isAbstract")), members=[], unparsed=[])
    # every function definition of the class (inline or out of line, any TU): who deletes what
    owned = set()
    for t2, fn in bodies.by_class.get(cls, []):
        owned |= deleted_fields(t2, cls, fn)
    for name, ty, anon in fields_of(rec):
        kind, holds, why = classifier.classify(ty, anon)
        if kind == "ptr":
            kind = "ownedPtr" if name in owned else "nonOwningPtr"
        if kind == "unparsed":
            row["unparsed"].append(f"{cls}::{name}: {why}")
        row["members"].append(dict(name=name, type=field_type_text(rec, name), kind=kind, holds=holds, why=why))
    # bases outside the table must be plain values (e.g. empty tag classes)
    for b in row["otherBases"]:
        k, _, why = classifier.classify(b)
        if k != "value":
            row["unparsed"].append(f"{cls}: base class {b} outside the table is not a plain value ({k} {why})")
    # special members
    dd = rec.get("definitionData", {})
    sp = {}
    access = "private" if rec.get("tagUsed") == "class" else "public"
    clone = None
    row["publicCtor"] = False
    for m in G.children(rec):
        k = m.get("kind")
        if k == "AccessSpecDecl":
            access = m.get("access", access)
            continue
        ctors = [m] if k == "CXXConstructorDecl" else \
            [c for c in G.children(m) if c.get("kind") == "CXXConstructorDecl"] if k == "FunctionTemplateDecl" else []
        for c in ctors:
            if access == "public" and not c.get("isImplicit") and not c.get("explicitlyDeleted") and \
                    special_kind(c, cls, rec) is None:
                row["publicCtor"] = True
        if k == "CXXMethodDecl" and m.get("name") == "clone" and not param_types(m):
            clone = m
        if k not in ("CXXConstructorDecl", "CXXDestructorDecl", "CXXMethodDecl"):
            continue
        s = special_kind(m, cls, rec)
        if s is None or s in sp:
            continue
        if m.get("isImplicit"):
            st = dict(status="deleted" if m.get("isDeleted") or m.get("explicitlyDeleted") else "implicit")
        elif m.get("explicitlyDeleted"):
            st = dict(status="deleted")
        elif m.get("explicitlyDefaulted"):
            st = dict(status="defaulted")
        else:
            target, ttu = (m, tu) if has_body(m) else (None, tu)
            if target is None:
                f = bodies.find(cls, m)
                if f:
                    ttu, target = f
            if target is None:
                if access == "private":
                    st = dict(status="privateUndefined")
                else:
                    st = dict(status="unparsed")
                    row["unparsed"].append(f"{cls}: definition of the user-declared {s} not found")
            else:
                got, bs = mentions(bodies, ttu, cls, target)
                bs &= set(base_names(rec))
                st = dict(status="userProvided", mentions=sorted(got), mentionsBases=sorted(bs), trivial=trivial_body(target))
        sp[s] = st
    for s, ddk in (("copyCtor", "copyCtor"), ("copyAssign", "copyAssign"), ("moveCtor", "moveCtor"), ("moveAssign", "moveAssign"), ("dtor", "dtor")):
        if s in sp:
            continue
        info = dd.get(ddk, {})
        if s.startswith("move") and not info.get("exists"):
            sp[s] = dict(status="notDeclared")
        elif info.get("userDeclared"):
            sp[s] = dict(status="unparsed")
            row["unparsed"].append(f"{cls}: user-declared {s} not found among the members")
        else:
            sp[s] = dict(status="implicit")         # declared lazily by clang: no node yet
    row["special"] = sp
    # clone()
    if clone is None:
        row["clone"] = dict(shape="absent")
    elif clone.get("pure"):
        row["clone"] = dict(shape="pure")
    else:
        target, ttu = (clone, tu) if has_body(clone) else (None, tu)
        if target is None:
            f = bodies.find(cls, clone)
            if f:
                ttu, target = f
        if target is None:
            row["clone"] = dict(shape="other", text="definition not found")
            row["unparsed"].append(f"{cls}: definition of clone() not found")
        else:
            sh, x = clone_shape(ttu, target)
            row["clone"] = dict(shape=sh, target=x) if sh == "canonical" else dict(shape="other", text=x)
        row["clone"]["virtual"] = True
    return row


# ----------------------------------------------------------------------------- driver

def in_scope(name, pdu_keys):
    if name in pdu_keys:
        return True
    for e in EXTRA_SCOPE:
        if (e.endswith("<") and name.startswith(e)) or name == e:
            return True
    return False


def probe_text(headers, templ_names):
    t = "".join(f"#include <{h}>\n" for h in headers)
    t += "#include <utility>\nnamespace c12_probe {\n"
    t += "template <class T> void five(const T& a) { T b(a); T c(std::move(b)); b = a; c = std::move(b); }\n"
    for i, x in enumerate(templ_names):
        t += f"void probe_{i}(const {x}& x) {{ five(x); }}\n"
    t += f"void probe_c(const Tins::PDUCacher<Tins::{CACHER_PROBE}>& x) {{ five(x); delete x.clone(); }}\n"
    t += "}\n"
    return t


def cpp_files_defining(repo, class_names):
    """src files that define a special member or clone() of one of the classes out of line (located by text; what
    they contain is then read from their AST)"""
    out = []
    shorts = sorted({c.split("::")[-1].split("<")[0] for c in class_names})
    pat = re.compile(r"\b(" + "|".join(map(re.escape, shorts)) + r")::(~\s*\1\s*\(|\1\s*\(\s*(const\s+)?(\w+::)*\1\s*&|operator\s*=\s*\(|clone\s*\()")
    for f in sorted(glob.glob(os.path.join(repo, "src", "**", "*.cpp"), recursive=True)):
        try:
            if pat.search(open(f, errors="replace").read()):
                out.append(f)
        except OSError:
            pass
    return out


def load_cpp(repo, work, f):
    tag = "m_" + re.sub(r"[^A-Za-z0-9]", "_", os.path.relpath(f, repo))
    text = f'#include "{os.path.abspath(f)}"\n'
    return f, Tu(G.Ast(G.run_clang(repo, text, work, tag)))


def cxx_spelling(key, rec, tu):
    """a C++ spelling of a template instantiation for the probe TU"""
    q = tu.ast.qualname(rec)
    args = []
    for a in rec.get("inner", []) or []:
        if isinstance(a, dict) and a.get("kind") == "TemplateArgument" and "type" in a:
            args.append(a["type"].get("qualType", "?"))
    return q + "<" + ", ".join(args) + ">"


def generate(repo, work):
    headers = G.header_list(repo)
    ast1 = G.Ast(G.run_clang(repo, G.tu_text(headers, []), work, "members1"))
    tu1 = Tu(ast1)
    templ = sorted(cxx_spelling(k, r, tu1) for k, r in tu1.recs.items()
                   if k.startswith("PDUOption<") and r.get("kind") == "ClassTemplateSpecializationDecl")
    tu = Tu(G.Ast(G.run_clang(repo, probe_text(headers, templ), work, "members2")))
    pdu = G.pdu_classes(tu.ast)
    pdu_keys = {norm(c.cxx) for c in pdu.values()}
    scope = sorted(k for k in tu.recs if in_scope(k, pdu_keys))
    missing = [e for e in EXTRA_SCOPE if not any((k.startswith(e) if e.endswith("<") else k == e) for k in scope)]
    if "PDU" not in scope:
        raise RuntimeError("class Tins::PDU not found")
    # out-of-line definitions
    files = cpp_files_defining(repo, scope)
    with concurrent.futures.ThreadPoolExecutor(max_workers=4) as ex:
        cpps = list(ex.map(lambda f: load_cpp(repo, work, f), files))
    bodies = Bodies()
    for t in [tu] + [c for _, c in cpps]:
        # inline definitions inside the class, then out-of-line ones
        for k, rec in t.recs.items():
            if k in scope:
                for m in G.children(rec):
                    if m.get("kind") in ("CXXConstructorDecl", "CXXDestructorDecl", "CXXMethodDecl") and has_body(m) and not m.get("isImplicit"):
                        bodies.add(t, k, m)
        for fn in t.outofline:
            o = t.owner_of(fn)
            if o in scope:
                bodies.add(t, o, fn)
    classifier = Classifier(tu, set(scope))
    rows = {}
    for k in scope:
        rows[k] = analyse_class(tu, bodies, k, tu.recs[k], classifier, set(scope), k in pdu_keys and k != "PDU" or k == "PDU")
    # order: bases first, then by name
    depth = {}

    def d(k, seen=()):
        if k not in depth:
            depth[k] = 0 if not rows[k]["bases"] else 1 + max(d(b, seen + (k,)) for b in rows[k]["bases"] if b not in seen)
        return depth[k]
    order = sorted(rows, key=lambda k: (d(k), k))
    unparsed = [u for k in order for u in rows[k]["unparsed"]] + [f"class of the scope not found: {m}" for m in missing]
    return dict(rows=[rows[k] for k in order], unparsed=unparsed, cppFiles=[os.path.relpath(f, repo) for f in files])


# ----------------------------------------------------------------------------- rendering

def key_nat(s):
    return int.from_bytes(s.encode("utf-8"), "big")


def lb(b):
    return "true" if b else "false"


def lstr(s):
    return '"' + G.lean_str(s) + '"'


def lean_special(st, cls):
    s = st["status"]
    if s == "userProvided":
        ms = ", ".join(str(key_nat(cls + "::" + m)) for m in st["mentions"])
        names = ", ".join(st["mentions"])
        bs = ", ".join(str(key_nat(b)) for b in st["mentionsBases"])
        return f".userProvided [{ms}] /- {names} -/ [{bs}] {lb(st['trivial'])}"
    return "." + s


def lean_clone(c):
    if c["shape"] == "canonical":
        return f".canonical {key_nat(c['target'])} /- new {c['target']}(*this) -/"
    if c["shape"] == "other":
        return f".other {lstr(c['text'])}"
    return "." + c["shape"]


def render_lean(g):
    L = ["/- GENERATED by translator/gen_members.py from the clang-14 AST of every header in include/tins and of the src files that",
         "   define special member functions out of line.  Do not edit: the check regenerates this file on every run. -/",
         "import TinsModel.Ownership.Members",
         "namespace Tins.Gen.Members",
         "open Tins.Own.Members",
         "",
         "/-- what the translator could not classify (must be empty) -/",
         "def unparsed : List String := [" + ", ".join(lstr(u) for u in g["unparsed"]) + "]",
         "",
         "def classes : List ClassRow := ["]
    items = []
    for r in g["rows"]:
        ms = []
        for m in r["members"]:
            holds = ", ".join(str(key_nat(h)) for h in m["holds"])
            ms.append(f"      {{ name := {lstr(m['name'])}, key := {key_nat(r['name'] + '::' + m['name'])}, type := {lstr(m['type'])}, "
                      f"kind := .{m['kind']}, holds := [{holds}]{' /- ' + ', '.join(m['holds']) + ' -/' if m['holds'] else ''} }}")
        sp = r["special"]
        items.append(
            f"  {{ name := {lstr(r['name'])}, key := {key_nat(r['name'])},\n"
            f"    bases := [{', '.join(str(key_nat(b)) for b in r['bases'])}]{' /- ' + ', '.join(r['bases']) + ' -/' if r['bases'] else ''}, "
            f"isPdu := {lb(r['isPdu'])}, isAbstract := {lb(r['isAbstract'])}, publicCtor := {lb(r['publicCtor'])},\n"
            f"    members := [\n" + ",\n".join(ms) + ("\n    ],\n" if ms else "    ],\n") +
            f"    copyCtor := {lean_special(sp['copyCtor'], r['name'])},\n"
            f"    copyAssign := {lean_special(sp['copyAssign'], r['name'])},\n"
            f"    moveCtor := {lean_special(sp['moveCtor'], r['name'])},\n"
            f"    moveAssign := {lean_special(sp['moveAssign'], r['name'])},\n"
            f"    dtor := {lean_special(sp['dtor'], r['name'])},\n"
            f"    clone := {lean_clone(r['clone'])} }}")
    L.append(",\n".join(items))
    L.append("]")
    L.append("")
    L.append("end Tins.Gen.Members")
    return "\n".join(L) + "\n"


def cxx_of(name):
    m = re.match(r"^PDUCacher<(.*)>$", name)
    return f"Tins::PDUCacher<Tins::{m.group(1)}>" if m else "Tins::" + name


def render_header(g):
    L = ["// GENERATED by translator/gen_members.py -- do not edit (regenerated on every run of checks/C12.py)",
         "#ifndef C12_MEMBERS_GEN_H", "#define C12_MEMBERS_GEN_H",
         "// X(display name, C++ type): every class derived from Tins::PDU that is not abstract and has a public constructor",
         "#define C12_FOR_EACH_CONCRETE(X) \\"]
    rows = [r for r in g["rows"] if r["isPdu"] and not r["isAbstract"] and r["publicCtor"]]
    L.append(" \\\n".join(f'  X("{r["name"]}", {cxx_of(r["name"])})' for r in rows))
    L.append(f"#define C12_NUM_CONCRETE {len(rows)}")
    L.append("#endif")
    return "\n".join(L) + "\n"


def source_hash(repo):
    h = hashlib.sha256()
    for pat in (("include", "tins", "**", "*"), ("src", "**", "*.cpp")):
        for f in sorted(glob.glob(os.path.join(repo, *pat), recursive=True)):
            if os.path.isfile(f):
                h.update(os.path.relpath(f, repo).encode())
                h.update(open(f, "rb").read())
    h.update(open(os.path.abspath(__file__), "rb").read())
    h.update(open(os.path.abspath(G.__file__), "rb").read())
    return h.hexdigest()[:16]


def generate_cached(repo, verif=VERIF, use_cache=True):
    work = os.path.join(verif, ".work", "c12_members")
    os.makedirs(work, exist_ok=True)
    cache = os.path.join(work, source_hash(repo) + ".json")
    g = None
    if use_cache and os.path.exists(cache):
        try:
            g = json.load(open(cache))
        except ValueError:
            g = None
    if g is None:
        g = generate(repo, work)
        for old in glob.glob(os.path.join(work, "*.json")) + glob.glob(os.path.join(work, "c13_tu_*.cpp")):
            os.remove(old)
        with open(cache + ".tmp", "w") as f:
            json.dump(g, f)
        os.replace(cache + ".tmp", cache)
    return g


def main(argv=None):
    """Regenerate lean/TinsModel/Gen/Members.lean.  Returns dict(rows=…, unparsed=…, changed=[paths])."""
    import argparse
    ap = argparse.ArgumentParser()
    ap.add_argument("--repo", default=os.environ.get("VERIF_REPO", "/repo"))
    ap.add_argument("--no-cache", action="store_true")
    a = ap.parse_args(argv or [])
    g = generate_cached(a.repo, use_cache=not a.no_cache)
    changed = []
    if G.write_if_changed(os.path.join(VERIF, "lean", "TinsModel", "Gen", "Members.lean"), render_lean(g)):
        changed.append("lean/TinsModel/Gen/Members.lean")
    if G.write_if_changed(os.path.join(VERIF, "harness", "c12_members_gen.h"), render_header(g)):
        changed.append("harness/c12_members_gen.h")
    g["changed"] = changed
    if __name__ == "__main__":
        import collections
        c = collections.Counter(m["kind"] for r in g["rows"] for m in r["members"])
        print(f"{len(g['rows'])} classes, {sum(len(r['members']) for r in g['rows'])} members {dict(c)}, "
              f"{len(g['unparsed'])} unparsed; out-of-line definitions read from {g['cppFiles']}; changed: {changed or 'nothing'}")
        for u in g["unparsed"]:
            print("  unparsed:", u)
    return g


if __name__ == "__main__":
    main(sys.argv[1:])
