#!/usr/bin/env python3
"""translator/gen_layout.py — C15 translator.

From the repo's CURRENT source it regenerates
  * lean/TinsModel/Gen/Layout.lean : where the compiler puts every member / bit-field of the header structs
    (a generated C++ probe compiled with -fno-access-control sets every value bit of every member in a zeroed
    struct and reports the memory bit that changed), which accessors are one-statement accessors of which member
    with which byte-order conversion (recognised in the C++ source text), the parameter domain of every setter
    (deduced by the C++ compiler in the probe) and the default-constructed images;
  * harness/c15_fields.cpp : the correspondence harness, one getter/setter pair per row of the hand-written
    table lean/TinsModel/Fields/Spec.lean.
Files are written only when their content changes.  Anything the translator cannot recognise becomes a `custom`
row (needs a hand-written model in Fields/Custom.lean); it never guesses.
"""
import hashlib, json, os, re, subprocess, sys

HERE = os.path.dirname(os.path.abspath(__file__))
VERIF = os.path.dirname(HERE)
sys.path.insert(0, VERIF)
from vlib import core

REPO = core.REPO
SPEC = os.path.join(VERIF, "lean", "TinsModel", "Fields", "Spec.lean")
GEN_LEAN = os.path.join(VERIF, "lean", "TinsModel", "Gen", "Layout.lean")
GEN_HARNESS = os.path.join(VERIF, "harness", "c15_fields.cpp")

# ----------------------------------------------------------------------------------------------- class configuration
# C++ facts the harness needs to drive a class: how to build one, which members make up the header image (in
# serialisation order), whether a RawPDU payload is attached (keeps the "next protocol" field from being derived),
# statements that re-establish a class invariant after the image has been poked in (`o` is the object).
def cfg(include, ctype, image, inner=True, ctor=None, fixup="", files=None, names=None, exprs=None, arg=None, payload=3, parent=None, bases=None):
    return dict(include=include, type=ctype, image=image, inner=inner, ctor=ctor or f"new {ctype}()", fixup=fixup, parent=parent, bases=bases or [],
                files=files or [], names=names or {}, exprs=exprs or {}, arg=arg or {}, payload=payload)


def tcp_flag(n):
    return (f"to_val(o.get_flag(Tins::TCP::{n}))", f"o.set_flag(Tins::TCP::{n}, Conv<Tins::small_uint<1> >::from(v))")


CONFIG = {
    # IP without a parent fills a zero source address from the routing table when serialised: give it an Ethernet parent
    "IP": cfg("tins/ip.h", "Tins::IP", [("header_", "ip_header")], files=["src/ip.cpp", "include/tins/ip.h"],
              parent="new Tins::EthernetII()"),
    "IPv6": cfg("tins/ipv6.h", "Tins::IPv6", [("header_", "ipv6_header")], files=["src/ipv6.cpp", "include/tins/ipv6.h"],
                fixup="o.next_header_ = o.header_.next_header;"),
    "TCP": cfg("tins/tcp.h", "Tins::TCP", [("header_", "tcp_header")], files=["src/tcp.cpp", "include/tins/tcp.h"],
               exprs={"flag_" + n.lower(): tcp_flag(n) for n in ["FIN", "SYN", "RST", "PSH", "ACK", "URG", "ECE", "CWR"]},
               arg={"flag_" + n.lower(): "small 1 8" for n in ["FIN", "SYN", "RST", "PSH", "ACK", "URG", "ECE", "CWR"]}),
    "UDP": cfg("tins/udp.h", "Tins::UDP", [("header_", "udp_header")], files=["src/udp.cpp", "include/tins/udp.h"]),
    "ICMP": cfg("tins/icmp.h", "Tins::ICMP", [("header_", "icmp_header")], files=["src/icmp.cpp", "include/tins/icmp.h"]),
    "ARP": cfg("tins/arp.h", "Tins::ARP", [("header_", "arp_header")], files=["src/arp.cpp", "include/tins/arp.h"]),
    "EthernetII": cfg("tins/ethernetII.h", "Tins::EthernetII", [("header_", "ethernet_header")],
                      files=["src/ethernetII.cpp", "include/tins/ethernetII.h"]),
    "Dot1Q": cfg("tins/dot1q.h", "Tins::Dot1Q", [("header_", "dot1q_header")], files=["src/dot1q.cpp", "include/tins/dot1q.h"]),
    "MPLS": cfg("tins/mpls.h", "Tins::MPLS", [("header_", "mpls_header")], files=["src/mpls.cpp", "include/tins/mpls.h"]),
    "SNAP": cfg("tins/snap.h", "Tins::SNAP", [("snap_", "snap_header")], inner=False, files=["src/snap.cpp", "include/tins/snap.h"]),
    "VXLAN": cfg("tins/vxlan.h", "Tins::VXLAN", [("header_", "vxlan_header")], files=["src/vxlan.cpp", "include/tins/vxlan.h"],
                 names={"flags": ("get_flags", "set_flags"), "vni": ("get_vni", "set_vni")}),
    "STP": cfg("tins/stp.h", "Tins::STP", [("header_", "stp_header")], files=["src/stp.cpp", "include/tins/stp.h"]),
    "PPPoE": cfg("tins/pppoe.h", "Tins::PPPoE", [("header_", "pppoe_header")], files=["src/pppoe.cpp", "include/tins/pppoe.h"]),
    "SLL": cfg("tins/sll.h", "Tins::SLL", [("header_", "sll_header")], inner=False, files=["src/sll.cpp", "include/tins/sll.h"]),
    "Dot3": cfg("tins/dot3.h", "Tins::Dot3", [("header_", "dot3_header")], files=["src/dot3.cpp", "include/tins/dot3.h"]),
    "IPSecAH": cfg("tins/ipsec.h", "Tins::IPSecAH", [("header_", "ipsec_header")], inner=False, files=["src/ipsec.cpp", "include/tins/ipsec.h"]),
    "IPSecESP": cfg("tins/ipsec.h", "Tins::IPSecESP", [("header_", "ipsec_header#2")], files=["src/ipsec.cpp", "include/tins/ipsec.h"]),
    "DNS": cfg("tins/dns.h", "Tins::DNS", [("header_", "dns_header")], inner=False, files=["src/dns.cpp", "include/tins/dns.h"]),
    "BootP": cfg("tins/bootp.h", "Tins::BootP", [("bootp_", "bootp_header")], inner=False, files=["src/bootp.cpp", "include/tins/bootp.h"]),
    "ICMPv6": cfg("tins/icmpv6.h", "Tins::ICMPv6", [("header_", "icmp6_header")], files=["src/icmpv6.cpp", "include/tins/icmpv6.h"]),
    "DHCPv6": cfg("tins/dhcpv6.h", "Tins::DHCPv6", [("header_data_", "@bytes")], inner=False, files=["src/dhcpv6.cpp", "include/tins/dhcpv6.h"]),
    "Dot11Data": cfg("tins/dot11/dot11_data.h", "Tins::Dot11Data", [("header_", "dot11_header"), ("ext_header_", "dot11_extended_header")],
                     files=["src/dot11/dot11_data.cpp", "include/tins/dot11/dot11_data.h", "src/dot11/dot11_base.cpp", "include/tins/dot11/dot11_base.h"],
                     bases=["Tins::Dot11"]),
    "Dot11Beacon": cfg("tins/dot11/dot11_beacon.h", "Tins::Dot11Beacon", [("header_", "dot11_header"), ("ext_header_", "dot11_extended_header")],
                       files=["src/dot11/dot11_mgmt.cpp", "include/tins/dot11/dot11_mgmt.h", "src/dot11/dot11_base.cpp", "include/tins/dot11/dot11_base.h"],
                       bases=["Tins::Dot11ManagementFrame", "Tins::Dot11"]),
    "Dot11RTS": cfg("tins/dot11/dot11_control.h", "Tins::Dot11RTS", [("header_", "dot11_header"), ("taddr_", "@bytes")],
                    files=["src/dot11/dot11_control.cpp", "include/tins/dot11/dot11_control.h", "src/dot11/dot11_base.cpp", "include/tins/dot11/dot11_base.h"],
                    bases=["Tins::Dot11ControlTA", "Tins::Dot11Control", "Tins::Dot11"]),
    "Dot11BlockAckRequest": cfg("tins/dot11/dot11_control.h", "Tins::Dot11BlockAckRequest",
                                [("header_", "dot11_header"), ("taddr_", "@bytes"), ("bar_control_", "@int"), ("start_sequence_", "@int")],
                                files=["src/dot11/dot11_control.cpp", "include/tins/dot11/dot11_control.h", "src/dot11/dot11_base.cpp", "include/tins/dot11/dot11_base.h"],
                                bases=["Tins::Dot11ControlTA", "Tins::Dot11Control", "Tins::Dot11"]),
    "Dot11": cfg("tins/dot11/dot11_base.h", "Tins::Dot11", [("header_", "dot11_header")],
                 files=["src/dot11/dot11_base.cpp", "include/tins/dot11/dot11_base.h"]),
}


# ----------------------------------------------------------------------------------------------- spec table parser
def parse_spec():
    txt = open(SPEC).read()
    classes, rows = {}, []
    for m in re.finditer(r'^\s*c "(\w+)" \.(be|le) (\d+) \[([^\]]*)\],?\s*$', txt, re.M):
        der = [(int(a), int(b)) for a, b in re.findall(r"\((\d+),\s*(\d+)\)", m.group(4))]
        classes[m.group(1)] = dict(name=m.group(1), order=m.group(2), len=int(m.group(3)), derived=der)
    for m in re.finditer(r'^\s*r "(\w+)" "(\w+)" \.(be|le) (\d+) (\d+) \.(num|bytes) \.(rw|ro)( \d+)?,?\s*$', txt, re.M):
        rows.append(dict(cls=m.group(1), fld=m.group(2), order=m.group(3), off=int(m.group(4)), width=int(m.group(5)),
                         kind=m.group(6), access=m.group(7), scale=int(m.group(8) or 1)))
    n_lines = len(re.findall(r'^\s*r "', txt, re.M))
    if n_lines != len(rows):
        raise RuntimeError(f"Spec.lean: {n_lines} row lines but {len(rows)} parsed (format is one `r ...` per line)")
    return classes, rows


# ----------------------------------------------------------------------------------------------- struct parser
_pp_cache = {}


def preprocessed(include):
    if include not in _pp_cache:
        r = subprocess.run(["g++", "-E", "-P", "-std=c++11", "-I" + os.path.join(REPO, "include"), "-x", "c++",
                            os.path.join(REPO, "include", include)], stdout=subprocess.PIPE, stderr=subprocess.PIPE, text=True)
        if r.returncode != 0:
            raise RuntimeError("preprocess failed: " + r.stderr[-2000:])
        _pp_cache[include] = r.stdout
    return _pp_cache[include]


def find_struct_body(text, name):
    """body of `struct name { ... }`; `name#2` selects the second definition of that name in the header"""
    nth = 1
    if "#" in name:
        name, n = name.split("#")
        nth = int(n)
    ms = list(re.finditer(r"\b(?:struct|union)\s+" + re.escape(name) + r"\s*\{", text))
    if len(ms) < nth:
        return None
    m = ms[nth - 1]
    i, depth = m.end(), 1
    while depth and i < len(text):
        depth += {"{": 1, "}": -1}.get(text[i], 0)
        i += 1
    return text[m.end():i - 1]


def parse_members(text, body, prefix=""):
    """leaf members of a struct body: list of (path, 'bf'|'int'|'arr', bit-field width or 0)"""
    out, i, n = [], 0, len(body)
    toks = re.findall(r"[A-Za-z_][A-Za-z_0-9]*(?:::[A-Za-z_][A-Za-z_0-9]*)*|\d+|[{}\[\];:,()]|\S", body)
    pos = 0

    def parse_block(pos, prefix):
        res = []
        while pos < len(toks) and toks[pos] != "}":
            if toks[pos] in ("struct", "union"):
                pos += 1
                if toks[pos] != "{":
                    pos += 1                       # tag name
                assert toks[pos] == "{", toks[pos:pos + 5]
                inner_start = pos + 1
                # find matching brace
                d, j = 1, pos + 1
                while d:
                    d += {"{": 1, "}": -1}.get(toks[j], 0)
                    j += 1
                inner_end = j - 1
                pos = j
                while toks[pos] == "__attribute__":    # __attribute__((packed))
                    d2, pos = 0, pos + 1
                    while True:
                        d2 += {"(": 1, ")": -1}.get(toks[pos], 0)
                        pos += 1
                        if d2 == 0:
                            break
                name = ""
                if toks[pos] != ";":
                    name = toks[pos]; pos += 1
                assert toks[pos] == ";", toks[pos - 3:pos + 3]
                pos += 1
                sub, _ = parse_block_tokens(toks[inner_start:inner_end], prefix + (name + "." if name else ""))
                res += sub
                continue
            # ordinary declaration: type tokens then declarators
            j = pos
            while toks[j] != ";":
                j += 1
            decl = toks[pos:j]
            pos = j + 1
            # split declarators on top-level commas
            parts, cur = [], []
            for t in decl:
                if t == ",":
                    parts.append(cur); cur = []
                else:
                    cur.append(t)
            parts.append(cur)
            first = parts[0]
            # first part = type tokens + first declarator
            if ":" in first:
                k = first.index(":")
                tname, dname, rest = first[:k - 1], first[k - 1], first[k:]
            elif "[" in first:
                k = first.index("[")
                tname, dname, rest = first[:k - 1], first[k - 1], first[k:]
            else:
                tname, dname, rest = first[:-1], first[-1], []
            decls = [(dname, rest)] + [(p[0], p[1:]) for p in parts[1:]]
            tstr = " ".join(tname)
            for dname, rest in decls:
                if rest and rest[0] == ":":
                    res.append((prefix + dname, "bf", int(rest[1])))
                elif rest and rest[0] == "[":
                    res.append((prefix + dname, "arr", 0))
                elif re.fullmatch(r"(unsigned |signed )?(u?int(8|16|32|64)_t|char|short|int|long|unsigned)", tstr):
                    res.append((prefix + dname, "int", 0))
                else:
                    sub_body = find_struct_body(text, tname[-1].split("::")[-1])
                    if sub_body is None:
                        res.append((prefix + dname, "opaque", 0))
                    else:
                        res += parse_members(text, sub_body, prefix + dname + ".")
        return res, pos

    def parse_block_tokens(tk, prefix):
        nonlocal toks
        saved = toks
        toks = tk + ["}"]
        r = parse_block(0, prefix)
        toks = saved
        return r

    toks = toks + ["}"]
    res, _ = parse_block(0, prefix)
    return res


# ----------------------------------------------------------------------------------------------- accessor recogniser
def strip_comments(s):
    s = re.sub(r"/\*.*?\*/", " ", s, flags=re.S)
    return re.sub(r"//[^\n]*", " ", s)


def le_branch(body):
    """keep the little-endian branch of #if TINS_IS_LITTLE_ENDIAN / #if TINS_IS_BIG_ENDIAN blocks"""
    out, keep, stack = [], True, []
    for line in body.split("\n"):
        t = line.strip()
        m = re.match(r"#\s*(if|elif)\s+(.*)", t)
        if m and "TINS_IS_LITTLE_ENDIAN" in m.group(2):
            if m.group(1) == "if":
                stack.append(keep)
            keep = stack[-1] and True
            continue
        if m and "TINS_IS_BIG_ENDIAN" in m.group(2):
            if m.group(1) == "if":
                stack.append(keep)
            keep = False
            continue
        if re.match(r"#\s*else", t) and stack:
            keep = stack[-1] and not keep
            continue
        if re.match(r"#\s*endif", t) and stack:
            keep = stack.pop()
            continue
        if keep:
            out.append(line)
    return "\n".join(out)


def norm(body):
    return re.sub(r"\s+", " ", le_branch(strip_comments(body))).strip()


def find_function(texts, cls, name, setter, bases=()):
    """body text and parameter name of the setter `void cls::name(T p)` / getter `R cls::name() const`
    (looked up in the class, then in its base classes)"""
    for c in [cls] + list(bases):
        r = find_function1(texts, c, name, setter)
        if r[0] is not None:
            return r
    return None, None


def find_function1(texts, cls, name, setter):
    short = cls.split("::")[-1]
    for txt in texts:
        if setter:
            pats = [r"\bvoid\s+" + re.escape(short) + r"::" + re.escape(name) + r"\s*\(([^)]*)\)\s*\{",
                    r"\bvoid\s+" + re.escape(name) + r"\s*\(([^)]+)\)\s*\{"]
        else:
            pats = [r"\b" + re.escape(short) + r"::" + re.escape(name) + r"\s*\(\s*\)\s*(?:const)?\s*\{",
                    r"[\w:<>]+\s+" + re.escape(name) + r"\s*\(\s*\)\s*(?:const)?\s*\{"]
        for k, p in enumerate(pats):
            scope = txt
            if k == 1:
                # inline definition: restrict to the text of the class
                cm = re.search(r"\bclass\s+(?:TINS_API\s+)?" + re.escape(short) + r"\b[^;{]*\{", txt)
                if not cm:
                    continue
                nxt = re.search(r"\n(?:class|template)\s", txt[cm.end():])
                scope = txt[cm.start(): cm.end() + (nxt.start() if nxt else len(txt))]
            m = re.search(p, scope)
            if not m:
                continue
            i, depth = m.end(), 1
            while depth and i < len(scope):
                depth += {"{": 1, "}": -1}.get(scope[i], 0)
                i += 1
            body = norm(scope[m.end():i - 1])
            param = ""
            if setter:
                pm = re.search(r"(\w+)\s*$", strip_comments(m.group(1)).strip())
                param = pm.group(1) if pm else ""
            return body, param
    return None, None


def classify(cls, conf, row, texts):
    """('simple', image member, path, conv) or ('custom', reason)"""
    gname, sname = conf["names"].get(row["fld"], (row["fld"], row["fld"]))
    if row["fld"] in conf["exprs"]:
        return ("custom", "expression accessor")
    imgs = "|".join(re.escape(i[0]) for i in conf["image"])
    M = r"(?:this->)?(" + imgs + r")\.([\w\.]+(?:\[\d+\])?)"
    selfs = [lv for lv, st in conf["image"] if st in ("@int", "@bytes")]

    def selfnorm(b):
        for lv in selfs:
            b = re.sub(r"\b" + re.escape(lv) + r"\b(?!\.)", lv + "." + lv, b)
        return b
    gbody, _ = find_function(texts, conf["type"], gname, False, conf["bases"])
    if gbody is None:
        return ("custom", "getter not found")
    gbody = selfnorm(gbody)
    gconv = None
    for conv, pat in [("none", r"return " + M + r";"),
                      ("be", r"return Endian::be_to_host(?:<\w+>)?\(" + M + r"\);"),
                      ("le", r"return Endian::le_to_host(?:<\w+>)?\(" + M + r"\);"),
                      ("none", r"return (?:\w+_type|\w*[aA]ddress\w*)\(" + M + r"\);"),
                      ("none", r"return \((?:\w+)\)\s*" + M + r";"),
                      ("none", r"return static_cast<\s*\w+\s*>\(" + M + r"\);"),
                      ("be", r"return \((?:\w+)\)\s*Endian::be_to_host(?:<\w+>)?\(" + M + r"\);"),
                      ("be", r"return static_cast<\s*\w+\s*>\(Endian::be_to_host(?:<\w+>)?\(" + M + r"\)\);")]:
        m = re.fullmatch(pat, gbody)
        if m:
            gconv, gimg, gpath = conv, m.group(1), m.group(2)
            break
    if gconv is None:
        return ("custom", "getter: " + gbody[:80])
    if row["access"] == "ro":
        conv = "bytes" if row["kind"] == "bytes" else gconv
        return ("simple", gimg, gpath, conv)
    sbody, p = find_function(texts, conf["type"], sname, True, conf["bases"])
    if sbody is None:
        return ("custom", "setter not found")
    sbody = selfnorm(sbody)
    P = re.escape(p)
    sconv = None
    for conv, pat in [("none", M + r" = " + P + r";"),
                      ("none", r"\w+ = " + M + r" = " + P + r";"),
                      ("none", M + r" = static_cast<\s*\w+\s*>\(" + P + r"\);"),
                      ("be", M + r" = Endian::host_to_be(?:<\w+>)?\(" + P + r"\);"),
                      ("le", M + r" = Endian::host_to_le(?:<\w+>)?\(" + P + r"\);"),
                      ("bool01", M + r" = \(" + P + r"\)\s*\? 1 : 0;"),
                      ("bytes", P + r"\.copy\(" + M + r"\);")]:
        m = re.fullmatch(pat, sbody)
        if m:
            sconv, simg, spath = conv, m.group(1), m.group(2)
            break
    if sconv is None:
        return ("custom", "setter: " + sbody[:80])
    if (simg, spath) != (gimg, gpath):
        return ("custom", f"getter reads {gimg}.{gpath}, setter writes {simg}.{spath}")
    if row["kind"] == "bytes":
        if sconv in ("none", "bytes") and gconv == "none":
            return ("simple", simg, spath, "bytes")
        return ("custom", "address accessor with conversion")
    if sconv == "bool01" and gconv == "none":
        return ("simple", simg, spath, "bool01")
    if sconv != gconv:
        return ("custom", f"setter conv {sconv}, getter conv {gconv}")
    return ("simple", simg, spath, sconv)


# ----------------------------------------------------------------------------------------------- C++ shared text
CPP_COMMON = r'''
#include <cstdint>
#include <cstdio>
#include <cstring>
#include <string>
#include <vector>
#include <type_traits>
#include <memory>
#include <functional>
#include <tins/tins.h>
#include <tins/small_uint.h>

struct Val { bool is_bytes; unsigned long long n; std::vector<uint8_t> b; Val() : is_bytes(false), n(0) {} };
struct DomainError { };

template <class T, class E = void> struct Conv;
template <class T> struct Conv<T, typename std::enable_if<std::is_integral<T>::value && !std::is_same<T, bool>::value>::type> {
    static T from(const Val& v) {
        if (v.is_bytes || (sizeof(T) < 8 && (v.n >> (8 * sizeof(T))) != 0)) throw DomainError();
        return static_cast<T>(v.n);
    }
    static std::string info() { return "int " + std::to_string(8 * sizeof(T)); }
};
template <> struct Conv<bool> {
    static bool from(const Val& v) { if (v.is_bytes || v.n > 1) throw DomainError(); return v.n != 0; }
    static std::string info() { return "int 1"; }
};
template <class T> struct Conv<T, typename std::enable_if<std::is_enum<T>::value>::type> {
    static T from(const Val& v) { if (v.is_bytes) throw DomainError(); return static_cast<T>(v.n); }
    static std::string info() { return "enum " + std::to_string(8 * sizeof(T)); }
};
template <size_t n> struct Conv<Tins::small_uint<n> > {
    typedef typename Tins::small_uint<n>::repr_type R;
    static Tins::small_uint<n> from(const Val& v) { return Tins::small_uint<n>(Conv<R>::from(v)); }   // may throw value_too_large
    static std::string info() { return "small " + std::to_string(n) + " " + std::to_string(8 * sizeof(R)); }
};
template <> struct Conv<Tins::IPv4Address> {
    static Tins::IPv4Address from(const Val& v) {
        if (!v.is_bytes || v.b.size() != 4) throw DomainError();
        uint32_t x; memcpy(&x, v.b.data(), 4); return Tins::IPv4Address(x);
    }
    static std::string info() { return "bytes 4"; }
};
template <size_t n> struct Conv<Tins::HWAddress<n> > {
    static Tins::HWAddress<n> from(const Val& v) {
        if (!v.is_bytes || v.b.size() != n) throw DomainError();
        return Tins::HWAddress<n>(v.b.data());
    }
    static std::string info() { return "bytes " + std::to_string(n); }
};
template <> struct Conv<Tins::IPv6Address> {
    static Tins::IPv6Address from(const Val& v) {
        if (!v.is_bytes || v.b.size() != 16) throw DomainError();
        return Tins::IPv6Address(v.b.data());
    }
    static std::string info() { return "bytes 16"; }
};
template <> struct Conv<Tins::STP::bpdu_id_type> {
    static Tins::STP::bpdu_id_type from(const Val& v) {
        if (v.is_bytes) throw DomainError();
        uint8_t mac[6];
        for (int i = 0; i < 6; ++i) mac[i] = uint8_t(v.n >> (8 * (5 - i)));
        return Tins::STP::bpdu_id_type(uint8_t(v.n >> 60), uint16_t((v.n >> 48) & 0xfff), Tins::HWAddress<6>(mac));
    }
    static std::string info() { return "int 64"; }
};

static inline std::string hexs(const uint8_t* p, size_t n) {
    static const char* d = "0123456789abcdef";
    std::string s;
    for (size_t i = 0; i < n; ++i) { s.push_back(d[p[i] >> 4]); s.push_back(d[p[i] & 15]); }
    return s;
}
template <class T> typename std::enable_if<std::is_integral<T>::value || std::is_enum<T>::value, std::string>::type
to_val(T x) { return std::to_string((unsigned long long)(x)); }
template <size_t n> std::string to_val(Tins::small_uint<n> x) { return std::to_string((unsigned long long)(typename Tins::small_uint<n>::repr_type)(x)); }
static inline std::string to_val(Tins::IPv4Address a) { uint32_t x = a; uint8_t b[4]; memcpy(b, &x, 4); return "x" + hexs(b, 4); }
template <size_t n> std::string to_val(const Tins::HWAddress<n>& a) { return "x" + hexs(a.begin(), n); }
static inline std::string to_val(const Tins::IPv6Address& a) { return "x" + hexs(a.begin(), 16); }
static inline std::string to_val(const Tins::STP::bpdu_id_type& id) {
    unsigned long long v = ((unsigned long long)(uint8_t)(id.priority) << 60) | ((unsigned long long)(uint16_t)(id.ext_id) << 48);
    for (int i = 0; i < 6; ++i) v |= (unsigned long long)(id.id[i]) << (8 * (5 - i));
    return std::to_string(v);
}

template <class C, class B, class A> void do_set(C& o, void (B::*m)(A), const Val& v) {
    (o.*m)(Conv<typename std::decay<A>::type>::from(v));
}
template <class C, class B, class R> std::string do_get(C& o, R (B::*m)() const) { return to_val((o.*m)()); }
template <class C, class B, class R> std::string do_get(C& o, R (B::*m)()) { return to_val((o.*m)()); }
template <class B, class A> std::string arg_info(void (B::*)(A)) { return Conv<typename std::decay<A>::type>::info(); }
'''


def member_ident(cls, path):
    return cls + "_" + re.sub(r"[^\w]", "_", path)


def build_tables():
    classes, rows = parse_spec()
    tables = {}
    for cname, k in classes.items():
        if cname not in CONFIG:
            raise RuntimeError(f"class {cname} of Spec.lean has no C++ configuration in gen_layout.py")
        conf = CONFIG[cname]
        pp = preprocessed(conf["include"])
        members = []        # (image index, image lvalue, struct, path, kind, bfwidth)
        for idx, (lv, st) in enumerate(conf["image"]):
            if st in ("@int", "@bytes"):                 # a scalar / address member of the class, not a struct
                members.append((idx, lv, st, lv, "selfint" if st == "@int" else "selfarr", 0))
                continue
            body = find_struct_body(pp, st)
            if body is None:
                raise RuntimeError(f"struct {st} not found in {conf['include']}")
            for path, kind, w in parse_members(pp, body):
                members.append((idx, lv, st, path, kind, w))
        texts = [open(os.path.join(REPO, f)).read() for f in conf["files"]]
        crow = [r for r in rows if r["cls"] == cname]
        accs = {r["fld"]: classify(cname, conf, r, texts) for r in crow}
        tables[cname] = dict(cls=k, conf=conf, members=members, rows=crow, accs=accs)
    return classes, rows, tables


# ----------------------------------------------------------------------------------------------- probe
def probe_source(tables):
    inc = sorted({t["conf"]["include"] for t in tables.values()})
    s = ["// GENERATED by translator/gen_layout.py — layout probe (compiled with -fno-access-control)", CPP_COMMON]
    s += [f"#include <{i}>" for i in inc]
    s.append(r'''
static long single_bit(const unsigned char* p, size_t n) {
    long pos = -1;
    for (size_t i = 0; i < n; ++i) for (int b = 0; b < 8; ++b) if (p[i] >> b & 1) { if (pos >= 0) return -2; pos = long(i) * 8 + b; }
    return pos;
}
#define P_INT(cls, base, S, path) P_BF(cls, base, S, path, int(8 * sizeof(((S*)0)->path)))
#define P_BF(cls, base, S, path, W) do { S s; int w = (W); long p0 = -1; int ok = 1; \
    for (int j = 0; j < w; ++j) { memset(&s, 0, sizeof s); s.path = (unsigned long long)(1) << j; \
        long p = single_bit((const unsigned char*)&s, sizeof s); if (j == 0) p0 = p; if (p < 0 || p != p0 + j) ok = 0; } \
    printf("M %s %s %ld %d %d\n", cls, #path, long(base) * 8 + p0, w, ok); } while (0)
#define P_ARR(cls, base, S, path) do { S s; printf("A %s %s %ld %zu\n", cls, #path, long(base) + long((char*)s.path - (char*)&s), sizeof(s.path)); } while (0)
int main() {''')
    for cname, t in sorted(tables.items()):
        conf = t["conf"]
        T = conf["type"]
        s.append(f"  {{ typedef {T} T; std::unique_ptr<T> op({conf['ctor']}); T& o = *op; size_t base = 0; std::string img;")
        for idx, (lv, st) in enumerate(conf["image"]):
            S = f"decltype(o.{lv})"
            s.append(f"    printf(\"S {cname} {idx} %zu %zu\\n\", base, sizeof(o.{lv}));")
            for (i2, lv2, st2, path, kind, w) in t["members"]:
                if i2 != idx:
                    continue
                if kind == "selfint":
                    s.append(f"    printf(\"M {cname} {lv} %zu %zu 1\\n\", base * 8, 8 * sizeof(o.{lv}));")
                elif kind == "selfarr":
                    s.append(f"    printf(\"A {cname} {lv} %zu %zu\\n\", base, sizeof(o.{lv}));")
                elif kind == "int":
                    s.append(f"    P_INT(\"{cname}\", base, {S}, {path});")
                elif kind == "bf":
                    s.append(f"    P_BF(\"{cname}\", base, {S}, {path}, {w});")
                elif kind == "arr":
                    s.append(f"    P_ARR(\"{cname}\", base, {S}, {path});")
            s.append(f"    img += hexs((const uint8_t*)&o.{lv}, sizeof(o.{lv})); base += sizeof(o.{lv});")
        s.append(f"    printf(\"D {cname} %s\\n\", img.c_str());")
        for r in t["rows"]:
            if r["access"] != "rw":
                continue
            if r["fld"] in conf["arg"]:
                s.append(f"    printf(\"R {cname} {r['fld']} {conf['arg'][r['fld']]}\\n\");")
            else:
                sname = conf["names"].get(r["fld"], (r["fld"], r["fld"]))[1]
                s.append(f"    printf(\"R {cname} {r['fld']} %s\\n\", arg_info(&T::{sname}).c_str());")
        s.append("  }")
    s.append("  return 0;\n}\n")
    return "\n".join(s)


def run_probe(tables):
    src = probe_source(tables)
    h = hashlib.sha256((src + core.repo_hash()).encode()).hexdigest()[:16]
    d = os.path.join(core.WORK, "c15")
    os.makedirs(d, exist_ok=True)
    outp = os.path.join(d, f"probe-{h}.out")
    with core.Lock("c15-probe"):
        if not os.path.exists(outp):
            cpp = os.path.join(d, f"probe-{h}.cpp")
            exe = os.path.join(d, f"probe-{h}")
            open(cpp, "w").write(src)
            lib, err = core.build_impl("asan")
            if lib is None:
                raise RuntimeError("implementation does not build: " + err[-2000:])
            r = subprocess.run(["g++", "-std=c++11", "-O0", "-w", "-fno-access-control", f"-D{core.GUARD}",
                                "-fsanitize=address,undefined", "-I" + os.path.join(REPO, "include"), cpp, lib, "-o", exe]
                               + core.LINK_LIBS, stdout=subprocess.PIPE, stderr=subprocess.PIPE, text=True)
            if r.returncode != 0:
                raise RuntimeError("layout probe does not compile:\n" + r.stderr[-4000:])
            r = subprocess.run([exe], stdout=subprocess.PIPE, stderr=subprocess.PIPE, text=True,
                               env=dict(os.environ, ASAN_OPTIONS="detect_leaks=0"))
            if r.returncode != 0:
                raise RuntimeError("layout probe failed:\n" + r.stderr[-4000:])
            open(outp + ".tmp", "w").write(r.stdout)
            os.rename(outp + ".tmp", outp)
            for f in os.listdir(d):                       # keep only the current probe
                if f.startswith("probe-") and not f.startswith(f"probe-{h}"):
                    os.remove(os.path.join(d, f))
    res = dict(mem={}, arr={}, size={}, default={}, arg={})
    for line in open(outp):
        w = line.split()
        if w[0] == "M":
            res["mem"][(w[1], w[2])] = (int(w[3]), int(w[4]), int(w[5]))
        elif w[0] == "A":
            res["arr"][(w[1], w[2])] = (int(w[3]), int(w[4]))
        elif w[0] == "S":
            res["size"][(w[1], int(w[2]))] = (int(w[3]), int(w[4]))
        elif w[0] == "D":
            res["default"][w[1]] = w[2]
        elif w[0] == "R":
            res["arg"][(w[1], w[2])] = w[3:]
    return res


# ----------------------------------------------------------------------------------------------- Lean output
def lean_tables(classes, rows, tables, pr):
    L = ["import TinsModel.Fields.Layout",
         "/- GENERATED by translator/gen_layout.py from the repo's current source — do not edit.",
         "   members: layout probe (compiler decides);  simple: one-statement accessors recognised in the C++ text;",
         "   custom: accessors the translator does not recognise (hand-written models in Fields/Custom.lean);",
         "   args: parameter domain of every public setter (deduced by the C++ compiler in the probe). -/",
         "namespace Tins.Fields.Gen", ""]
    L.append("/-- sizeof of the header image of every class -/")
    L.append("def imageLen : List (String × Nat) := [")
    items = []
    for cname in sorted(tables):
        tot = sum(pr["size"][(cname, i)][1] for i in range(len(tables[cname]["conf"]["image"])))
        items.append(f'  ("{cname}", {tot})')
    L.append(",\n".join(items) + "]\n")
    L.append("namespace M")
    memtab = []
    for cname in sorted(tables):
        for (idx, lv, st, path, kind, w) in tables[cname]["members"]:
            if kind in ("int", "bf", "selfint"):
                pos, width, ok = pr["mem"][(cname, path)]
                if not ok:
                    L.append(f"-- {cname}.{path}: NOT contiguous in memory bit order (unsupported)")
                    continue
                L.append(f"def {member_ident(cname, path)} : Mem := ⟨{pos // 8}, {pos % 8}, {width}⟩")
                memtab.append((cname, path, pos // 8, pos % 8, width))
            elif kind in ("arr", "selfarr"):
                off, size = pr["arr"][(cname, path)]
                L.append(f"def {member_ident(cname, path)} : Mem := ⟨{off}, 0, {8 * size}⟩")
                memtab.append((cname, path, off, 0, 8 * size))
                for e in range(size if size <= 4 else 0):
                    L.append(f"def {member_ident(cname, path)}_{e} : Mem := ⟨{off + e}, 0, 8⟩")
    L.append("end M\n")
    L.append("def members : List (String × String × Mem) := [")
    L.append(",\n".join(f'  ("{c}", "{p}", ⟨{a}, {b}, {w}⟩)' for c, p, a, b, w in memtab) + "]\n")
    simple, custom = [], []
    for cname in sorted(tables):
        t = tables[cname]
        for r in t["rows"]:
            a = t["accs"][r["fld"]]
            if a[0] == "simple":
                path = a[2]
                em = re.fullmatch(r"([\w\.]+)\[(\d+)\]", path)
                key = (cname, em.group(1) if em else path)
                if key in pr["mem"] and pr["mem"][key][2] and not em:
                    pos, width, _ = pr["mem"][key]
                    mem = (pos // 8, pos % 8, width)
                elif key in pr["arr"]:
                    off, size = pr["arr"][key]
                    mem = (off + int(em.group(2)), 0, 8) if em else (off, 0, 8 * size)
                else:
                    custom.append((cname, r["fld"], "member not probed: " + path))
                    continue
                simple.append((cname, r["fld"], mem, a[3], path))
            else:
                custom.append((cname, r["fld"], a[1]))
    L.append("def simple : List SimpleAcc := [")
    L.append(",\n".join(f'  ⟨"{c}", "{f}", ⟨{m[0]}, {m[1]}, {m[2]}⟩, .{cv}⟩   /- {p} -/' for c, f, m, cv, p in simple) + "]\n")
    L.append("/-- accessors with a body the translator does not recognise -/")
    L.append("def custom : List (String × String) := [")
    L.append(",\n".join(f'  ("{c}", "{f}")   /- {why.replace("-/", "- /")[:100]} -/' for c, f, why in custom) + "]\n")
    args = []
    for cname in sorted(tables):
        for r in tables[cname]["rows"]:
            if r["access"] != "rw":
                continue
            info = pr["arg"][(cname, r["fld"])]
            if info[0] == "small":
                args.append((cname, r["fld"], int(info[2]), f"some {info[1]}"))
            elif info[0] == "bytes":
                args.append((cname, r["fld"], 8 * int(info[1]), "none"))
            elif info[0] == "enum":
                args.append((cname, r["fld"], min(int(info[1]), r["width"]), "none"))
            else:
                args.append((cname, r["fld"], int(info[1]), "none"))
    L.append("def args : List ArgInfo := [")
    L.append(",\n".join(f'  ⟨"{c}", "{f}", {d}, {s}⟩' for c, f, d, s in args) + "]\n")
    L.append("end Tins.Fields.Gen\n")
    return "\n".join(L), simple, custom, args


# ----------------------------------------------------------------------------------------------- harness output
def harness_source(classes, rows, tables):
    inc = sorted({t["conf"]["include"] for t in tables.values()})
    s = ["// GENERATED by translator/gen_layout.py from lean/TinsModel/Fields/Spec.lean — do not edit.",
         "// C15 correspondence harness (compile with -fno-access-control): drives the real getters / setters.",
         "//   init <Class> <image hex> <mask hex>   poke the header image into a fresh object",
         "//   set <field> <decimal | x<hex bytes>>  call the public setter",
         "// answer: r=<ok|value_too_large|domain|throw:..> get=<every getter of the class> hdr=<image> ser=<serialisation & ~mask>",
         '#include "common.h"', CPP_COMMON]
    s += [f"#include <{i}>" for i in inc]
    s.append(r'''
using namespace vh;
struct RowDef {
    std::string name;
    std::function<std::string(Tins::PDU&)> get;
    std::function<void(Tins::PDU&, const Val&)> set;     // empty for read-only rows
};
struct ClassDef {
    std::string name;
    size_t len;
    std::function<Tins::PDU*()> make;
    std::function<Tins::PDU*()> make_parent;             // optional enclosing PDU (owns the object)
    std::function<void(Tins::PDU&, const uint8_t*)> load;
    std::function<void(Tins::PDU&, uint8_t*)> image;
    std::vector<RowDef> rows;
};
static std::vector<ClassDef> classes;
static std::string guarded_get(const RowDef& r, Tins::PDU& o) {
    try { return r.get(o); }
    catch (const Tins::value_too_large&) { return "!value_too_large"; }
    catch (const std::exception& e) { return "!" + exc_name(e); }
}
static void register_classes() {''')
    for cname in sorted(tables):
        t = tables[cname]
        conf = t["conf"]
        T = conf["type"]
        s.append(f"  {{ typedef {T} T; ClassDef c; c.name = \"{cname}\";")
        s.append("    c.len = " + " + ".join(f"sizeof(((T*)0)->{lv})" for lv, _ in conf["image"]) + ";")
        mk = f"T* p = {conf['ctor']};"
        if conf["inner"]:
            mk += f" p->inner_pdu(new Tins::RawPDU(std::string({conf['payload']}, 'P')));"
        s.append(f"    c.make = []() -> Tins::PDU* {{ {mk} return p; }};")
        if conf["parent"]:
            s.append(f"    c.make_parent = []() -> Tins::PDU* {{ return {conf['parent']}; }};")
        ld = " ".join(f"memcpy(&o.{lv}, b, sizeof(o.{lv})); b += sizeof(o.{lv});" for lv, _ in conf["image"])
        s.append(f"    c.load = [](Tins::PDU& pdu, const uint8_t* b) {{ T& o = static_cast<T&>(pdu); {ld} {conf['fixup']} }};")
        im = " ".join(f"memcpy(b, &o.{lv}, sizeof(o.{lv})); b += sizeof(o.{lv});" for lv, _ in conf["image"])
        s.append(f"    c.image = [](Tins::PDU& pdu, uint8_t* b) {{ T& o = static_cast<T&>(pdu); {im} }};")
        for r in t["rows"]:
            f = r["fld"]
            gname, sname = conf["names"].get(f, (f, f))
            if f in conf["exprs"]:
                ge, se = conf["exprs"][f]
            else:
                ge, se = f"do_get(o, &T::{gname})", f"do_set(o, &T::{sname}, v)"
            s.append(f"    {{ RowDef r; r.name = \"{f}\"; r.get = [](Tins::PDU& pdu) -> std::string {{ T& o = static_cast<T&>(pdu); return {ge}; }};")
            if r["access"] == "rw":
                s.append(f"      r.set = [](Tins::PDU& pdu, const Val& v) {{ T& o = static_cast<T&>(pdu); {se}; }};")
            s.append("      c.rows.push_back(r); }")
        s.append("    classes.push_back(c); }")
    s.append(r'''}

int main() {
    register_classes();
    const ClassDef* cur = 0;
    std::unique_ptr<Tins::PDU> root;     // owns obj (obj itself, or its parent)
    Tins::PDU* obj = 0;
    bytes mask;
    auto state = [&](const std::string& res) -> std::string {
        std::string out = "r=" + res + " get=";
        for (size_t i = 0; i < cur->rows.size(); ++i) { if (i) out += ","; out += guarded_get(cur->rows[i], *obj); }
        bytes img(cur->len);
        cur->image(*obj, img.data());
        out += " hdr=" + hexs(img.data(), img.size()) + " ser=";
        try {
            std::unique_ptr<Tins::PDU> cl(root->clone());
            bytes ser = cl->serialize();
            size_t off = (root.get() == obj) ? 0 : root->header_size();
            if (ser.size() < off + cur->len) out += "short";
            else { for (size_t i = 0; i < cur->len; ++i) ser[off + i] &= uint8_t(~mask[i]); out += hexs(ser.data() + off, cur->len); }
        } catch (const std::exception& e) { out += "!" + exc_name(e); }
        return out;
    };
    return line_loop([&](const std::string& line) -> std::string {
        auto w = words(line);
        if (w.size() >= 4 && w[0] == "init") {
            cur = 0;
            for (auto& c : classes) if (c.name == w[1]) cur = &c;
            bytes img;
            if (!cur || !parse_hex(w[2], img) || !parse_hex(w[3], mask) || img.size() != cur->len || mask.size() != cur->len) { cur = 0; return "bad-op"; }
            obj = cur->make();
            if (cur->make_parent) { root.reset(cur->make_parent()); root->inner_pdu(obj); } else root.reset(obj);
            cur->load(*obj, img.data());
            return state("init");
        }
        if (w.size() >= 3 && w[0] == "set" && cur) {
            const RowDef* r = 0;
            for (auto& x : cur->rows) if (x.name == w[1]) r = &x;
            if (!r || !r->set) return "bad-op";
            Val v;
            if (w[2][0] == 'x') { v.is_bytes = true; if (!parse_hex(w[2].substr(1), v.b)) return "bad-op"; }
            else v.n = std::stoull(w[2]);
            std::string res = "ok";
            try { r->set(*obj, v); }
            catch (const Tins::value_too_large&) { res = "value_too_large"; }
            catch (const DomainError&) { res = "domain"; }
            catch (const std::exception& e) { res = "throw:" + exc_name(e); }
            return state(res);
        }
        return "bad-op";
    });
}
''')
    return "\n".join(s)


def write_if_changed(path, content):
    os.makedirs(os.path.dirname(path), exist_ok=True)
    if os.path.exists(path) and open(path).read() == content:
        return False
    open(path + ".tmp", "w").write(content)
    os.rename(path + ".tmp", path)
    return True


def generate():
    """returns dict(classes, rows, simple, custom, args, defaults)"""
    classes, rows, tables = build_tables()
    pr = run_probe(tables)
    for cname, t in tables.items():
        tot = sum(pr["size"][(cname, i)][1] for i in range(len(t["conf"]["image"])))
        t["sizeof"] = tot
    lean, simple, custom, args = lean_tables(classes, rows, tables, pr)
    write_if_changed(GEN_LEAN, lean)
    write_if_changed(GEN_HARNESS, harness_source(classes, rows, tables))
    return dict(classes=classes, rows=rows, simple=simple, custom=custom, args=args, defaults=pr["default"],
                sizeof={c: t["sizeof"] for c, t in tables.items()})


def main(argv):
    g = generate()
    print(f"C15 translator: {len(g['classes'])} classes, {len(g['rows'])} rows, {len(g['simple'])} simple accessors, "
          f"{len(g['custom'])} custom: " + ", ".join(f"{c}.{f}" for c, f, _ in g["custom"]))
    return 0


if __name__ == "__main__":
    sys.exit(main(sys.argv[1:]))
