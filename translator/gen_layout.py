#!/usr/bin/env python3
"""translator/gen_layout.py — C15 translator.

From the repo's CURRENT source it regenerates
  * lean/TinsModel/Gen/Layout.lean : where the compiler puts every member / bit-field of the header structs
    (a generated C++ probe compiled with -fno-access-control sets every value bit of every member in a zeroed
    struct and reports the memory bit that changed), which accessors are one-statement accessors of which member
    with which byte-order conversion (recognised in the C++ source text; accessors of a nested object such as
    `capabilities().ess()` and whole-array copies from a pointer included), the parameter domain of every setter
    (deduced by the C++ compiler in the probe), the default-constructed images — all of it per class (`byClass`) —
    and the class blocks of Spec.rows (`segments`);
  * harness/c15_fields.cpp : the correspondence harness, one getter/setter pair per row of the hand-written
    table lean/TinsModel/Fields/Spec.lean (PDU classes, variants of a class with another header shape, and the two
    ICMP extension classes that are not PDUs);
  * coverage statistics: every public (setter, getter) pair with a scalar parameter found in include/tins/**.h,
    which of them are header fields (not stored in an option / tag) and which of those a Spec row covers.
Files are written only when their content changes.  Anything the translator cannot recognise becomes a `custom`
row (needs a hand-written model in Fields/Custom.lean); it never guesses.
"""
import hashlib, json, os, re, subprocess, sys

HERE = os.path.dirname(os.path.abspath(__file__))
VERIF = os.path.dirname(HERE)
sys.path.insert(0, VERIF)
from vlib import core

REPO = core.REPO
SPEC = os.path.join(VERIF, "lean", "TinsModel", "Fields", "Spec.lean")
GEN_LEAN = os.path.join(VERIF, "lean", "TinsModel", "Gen", "Layout.lean")
GEN_HARNESS = os.path.join(VERIF, "harness", "c15_fields.cpp")

# ----------------------------------------------------------------------------------------------- class configuration
# C++ facts the harness needs to drive a class: how to build one, which members make up the header image (in
# serialisation order), whether a RawPDU payload is attached (keeps the "next protocol" field from being derived),
# statements that re-establish a class invariant after the image has been poked in (`o` is the object).
#
# A key of CONFIG is the class name of Spec.lean.  Several keys may share one C++ type ("variants": the same class
# with a different header shape, e.g. ICMPv6 router advertisement = 8-byte header + reachable time + retransmit timer).
#
# image entry: (lvalue, struct)                     lvalue as written in the accessors of the class itself
#              (lvalue, struct, source name, owner) lvalue for the harness (may be qualified, `EAPOL::header_`), the name
#                                                   the accessors of class `owner` use for it
#   struct = name of the struct type | "@int" (a scalar member) | "@bytes" (an array / address member) |
#            "@bytes:N" (only the first N bytes of the member belong to the image)
# sub:   field -> (object accessor, nested class, image source name, member path): `o.capabilities().ess(v)`
# fix:   [(byte index, and-mask, or-mask)] applied by the generators to every image (keeps the variant's shape)
# avoid: field -> values the generators never pass (the serialisation changes shape there)
def cfg(include, ctype, image, inner=True, ctor=None, fixup="", files=None, names=None, exprs=None, arg=None, payload=3, parent=None,
        bases=None, sub=None, serial=True, pdu=True, ser_skip=0, fix=None, avoid=None, ser_expr=None):
    return dict(include=include, type=ctype, image=image, inner=inner, ctor=ctor or f"new {ctype}()", fixup=fixup, parent=parent, bases=bases or [],
                files=files or [], names=names or {}, exprs=exprs or {}, arg=arg or {}, payload=payload, sub=sub or {}, serial=serial, pdu=pdu,
                ser_skip=ser_skip, fix=fix or [], avoid=avoid or {}, ser_expr=ser_expr)


def img_entry(e):
    lv, st = e[0], e[1]
    return dict(lv=lv, st=st, src=(e[2] if len(e) > 2 else lv), owner=(e[3] if len(e) > 3 else None))


def tcp_flag(n):
    return (f"to_val(o.get_flag(Tins::TCP::{n}))", f"o.set_flag(Tins::TCP::{n}, Conv<Tins::small_uint<1> >::from(v))")


def ptr_acc(name, n):
    """accessor pair `const uint8_t* name() const` / `void name(const uint8_t*)` over an n-byte array"""
    return (f"std::string(\"x\") + hexs(o.{name}(), {n})", f"o.{name}(byte_ptr(v, {n}))")


D11 = "tins/dot11/"
D11_BASE = ["src/dot11/dot11_base.cpp", "include/tins/dot11/dot11_base.h"]
D11_MGMT = ["src/dot11/dot11_mgmt.cpp", "include/tins/dot11/dot11_mgmt.h"] + D11_BASE
D11_CTRL = ["src/dot11/dot11_control.cpp", "include/tins/dot11/dot11_control.h"] + D11_BASE
D11_DATA = ["src/dot11/dot11_data.cpp", "include/tins/dot11/dot11_data.h"] + D11_BASE
MGMT_IMG = [("header_", "dot11_header"), ("ext_header_", "dot11_extended_header")]
CAPS = ["ess", "ibss", "cf_poll", "cf_poll_req", "privacy", "short_preamble", "pbcc", "channel_agility", "spectrum_mgmt", "qos", "sst",
        "apsd", "radio_measurement", "dsss_ofdm", "delayed_block_ack", "immediate_block_ack"]
# a management frame with To DS = From DS = 1 carries a fourth address between the MAC header and the fixed
# parameters (libtins), so the classes with fixed parameters keep From DS = 0 (frame control byte 1, bit 1)
NO_FROM_DS = dict(fix=[(1, 0xfd, 0x00)], avoid={"from_ds": {"1"}})
BOTH_DS = [(1, 0xfc, 0x03)]


def caps_sub():
    return {"cap_" + c: ("capabilities()", "capability_information", "body_", "capability", c) for c in CAPS}


def mgmt(name, hdr, src, body=None, caps=False, **kw):
    image = list(MGMT_IMG) + ([("body_", body)] if body else [])
    extra = dict(NO_FROM_DS) if body else {}
    extra.update(kw)
    return cfg(D11 + hdr, "Tins::" + name, image, files=[f"src/dot11/{src}.cpp", f"include/tins/dot11/{src}.h"] + D11_MGMT,
               bases=["Tins::Dot11ManagementFrame", "Tins::Dot11"], sub=(caps_sub() if caps else None), **extra)


def ctrl_ta(name, extra_image=(), **kw):
    return cfg(D11 + "dot11_control.h", "Tins::" + name, [("header_", "dot11_header"), ("taddr_", "@bytes")] + list(extra_image),
               files=D11_CTRL, bases=["Tins::Dot11ControlTA", "Tins::Dot11Control", "Tins::Dot11"], **kw)


ICMP6 = dict(files=["src/icmpv6.cpp", "include/tins/icmpv6.h"])
ICMP4 = dict(files=["src/icmp.cpp", "include/tins/icmp.h"])
LLCF = dict(files=["src/llc.cpp", "include/tins/llc.h"])
EAPOLF = ["src/eapol.cpp", "include/tins/eapol.h"]

CONFIG = {
    # IP without a parent fills a zero source address from the routing table when serialised: give it an Ethernet parent
    "IP": cfg("tins/ip.h", "Tins::IP", [("header_", "ip_header")], files=["src/ip.cpp", "include/tins/ip.h"],
              parent="new Tins::EthernetII()"),
    "IPv6": cfg("tins/ipv6.h", "Tins::IPv6", [("header_", "ipv6_header")], files=["src/ipv6.cpp", "include/tins/ipv6.h"],
                fixup="o.next_header_ = o.header_.next_header;"),
    "TCP": cfg("tins/tcp.h", "Tins::TCP", [("header_", "tcp_header")], files=["src/tcp.cpp", "include/tins/tcp.h"],
               exprs={"flag_" + n.lower(): tcp_flag(n) for n in ["FIN", "SYN", "RST", "PSH", "ACK", "URG", "ECE", "CWR"]},
               arg={"flag_" + n.lower(): "small 1 8" for n in ["FIN", "SYN", "RST", "PSH", "ACK", "URG", "ECE", "CWR"]}),
    "UDP": cfg("tins/udp.h", "Tins::UDP", [("header_", "udp_header")], files=["src/udp.cpp", "include/tins/udp.h"]),
    "ICMP": cfg("tins/icmp.h", "Tins::ICMP", [("header_", "icmp_header")], **ICMP4),
    # RFC 792 timestamp / RFC 950 address mask messages: the 8-byte header is followed by three timestamps / one mask
    "ICMPTimestamp": cfg("tins/icmp.h", "Tins::ICMP", [("header_", "icmp_header"), ("orig_timestamp_or_address_mask_", "@int"),
                                                        ("recv_timestamp_", "@int"), ("trans_timestamp_", "@int")],
                         ctor="new Tins::ICMP(Tins::ICMP::TIMESTAMP_REQUEST)", fix=[(0, 0x00, 13)], **ICMP4),
    "ICMPAddressMask": cfg("tins/icmp.h", "Tins::ICMP", [("header_", "icmp_header"), ("orig_timestamp_or_address_mask_", "@int")],
                           ctor="new Tins::ICMP(Tins::ICMP::ADDRESS_MASK_REQUEST)", fix=[(0, 0x00, 17)], **ICMP4),
    "ARP": cfg("tins/arp.h", "Tins::ARP", [("header_", "arp_header")], files=["src/arp.cpp", "include/tins/arp.h"]),
    "EthernetII": cfg("tins/ethernetII.h", "Tins::EthernetII", [("header_", "ethernet_header")],
                      files=["src/ethernetII.cpp", "include/tins/ethernetII.h"]),
    "Dot1Q": cfg("tins/dot1q.h", "Tins::Dot1Q", [("header_", "dot1q_header")], files=["src/dot1q.cpp", "include/tins/dot1q.h"]),
    "MPLS": cfg("tins/mpls.h", "Tins::MPLS", [("header_", "mpls_header")], files=["src/mpls.cpp", "include/tins/mpls.h"]),
    "SNAP": cfg("tins/snap.h", "Tins::SNAP", [("snap_", "snap_header")], inner=False, files=["src/snap.cpp", "include/tins/snap.h"]),
    "VXLAN": cfg("tins/vxlan.h", "Tins::VXLAN", [("header_", "vxlan_header")], files=["src/vxlan.cpp", "include/tins/vxlan.h"],
                 names={"flags": ("get_flags", "set_flags"), "vni": ("get_vni", "set_vni")}),
    "STP": cfg("tins/stp.h", "Tins::STP", [("header_", "stp_header")], files=["src/stp.cpp", "include/tins/stp.h"]),
    "PPPoE": cfg("tins/pppoe.h", "Tins::PPPoE", [("header_", "pppoe_header")], files=["src/pppoe.cpp", "include/tins/pppoe.h"]),
    "SLL": cfg("tins/sll.h", "Tins::SLL", [("header_", "sll_header")], inner=False, files=["src/sll.cpp", "include/tins/sll.h"]),
    "Dot3": cfg("tins/dot3.h", "Tins::Dot3", [("header_", "dot3_header")], files=["src/dot3.cpp", "include/tins/dot3.h"]),
    "IPSecAH": cfg("tins/ipsec.h", "Tins::IPSecAH", [("header_", "ipsec_header")], inner=False, files=["src/ipsec.cpp", "include/tins/ipsec.h"]),
    "IPSecESP": cfg("tins/ipsec.h", "Tins::IPSecESP", [("header_", "ipsec_header#2")], files=["src/ipsec.cpp", "include/tins/ipsec.h"]),
    "DNS": cfg("tins/dns.h", "Tins::DNS", [("header_", "dns_header")], inner=False, files=["src/dns.cpp", "include/tins/dns.h"]),
    "BootP": cfg("tins/bootp.h", "Tins::BootP", [("bootp_", "bootp_header")], inner=False, files=["src/bootp.cpp", "include/tins/bootp.h"],
                 exprs={"sname": ptr_acc("sname", 64), "file": ptr_acc("file", 128),
                        "chaddr": ("to_val(o.chaddr())", "o.chaddr(Conv<Tins::HWAddress<16> >::from(v))"),
                        # the 6-byte overload of the template setter, read back through the first six bytes of the field
                        "chaddr_mac": ("to_val(Tins::HWAddress<6>(o.chaddr().begin()))", "o.chaddr(Conv<Tins::HWAddress<6> >::from(v))")},
                 arg={"sname": "bytes 64", "file": "bytes 128", "chaddr": "bytes 16", "chaddr_mac": "bytes 6"},
                 names={"chaddr_mac": ("chaddr", "chaddr")}),
    "ICMPv6": cfg("tins/icmpv6.h", "Tins::ICMPv6", [("header_", "icmp6_header")], **ICMP6),
    # RFC 4861 §4.2 router advertisement, §4.3/§4.4 neighbour solicitation / advertisement, §4.5 redirect,
    # RFC 3810 §5.1 multicast listener query (version 2): the 8-byte header is followed by type-specific fixed fields
    "ICMPv6RouterAdvert": cfg("tins/icmpv6.h", "Tins::ICMPv6", [("header_", "icmp6_header"), ("reach_time_", "@int"), ("retrans_timer_", "@int")],
                              ctor="new Tins::ICMPv6(Tins::ICMPv6::ROUTER_ADVERT)", fix=[(0, 0x00, 134)], **ICMP6),
    "ICMPv6NeighbourAdvert": cfg("tins/icmpv6.h", "Tins::ICMPv6", [("header_", "icmp6_header"), ("target_address_", "@bytes")],
                                 ctor="new Tins::ICMPv6(Tins::ICMPv6::NEIGHBOUR_ADVERT)", fix=[(0, 0x00, 136)], **ICMP6),
    "ICMPv6Redirect": cfg("tins/icmpv6.h", "Tins::ICMPv6", [("header_", "icmp6_header"), ("target_address_", "@bytes"), ("dest_address_", "@bytes")],
                          ctor="new Tins::ICMPv6(Tins::ICMPv6::REDIRECT)", fix=[(0, 0x00, 137)], **ICMP6),
    "ICMPv6MLDQuery": cfg("tins/icmpv6.h", "Tins::ICMPv6", [("header_", "icmp6_header"), ("multicast_address_", "@bytes"),
                                                           ("mlqm_", "multicast_listener_query_message_fields")],
                          ctor="new Tins::ICMPv6(Tins::ICMPv6::MGM_QUERY)", fixup="o.use_mldv2(true);", fix=[(0, 0x00, 130)], **ICMP6),
    "DHCPv6": cfg("tins/dhcpv6.h", "Tins::DHCPv6", [("header_data_", "@bytes")], inner=False, files=["src/dhcpv6.cpp", "include/tins/dhcpv6.h"]),
    # RFC 8415 §9 relay agent / server message: msg-type, hop-count, link-address, peer-address
    "DHCPv6Relay": cfg("tins/dhcpv6.h", "Tins::DHCPv6", [("header_data_", "@bytes:2"), ("link_addr_", "@bytes"), ("peer_addr_", "@bytes")],
                       inner=False, files=["src/dhcpv6.cpp", "include/tins/dhcpv6.h"], fix=[(0, 0x00, 12)]),
    "Dot11": cfg(D11 + "dot11_base.h", "Tins::Dot11", [("header_", "dot11_header")], files=D11_BASE),
    "Dot11Data": cfg(D11 + "dot11_data.h", "Tins::Dot11Data", [("header_", "dot11_header"), ("ext_header_", "dot11_extended_header")],
                     files=D11_DATA, bases=["Tins::Dot11"]),
    # To DS = From DS = 1: address 4 follows the sequence control field (IEEE 802.11-2016 §9.3.2.1)
    "Dot11DataWDS": cfg(D11 + "dot11_data.h", "Tins::Dot11Data", [("header_", "dot11_header"), ("ext_header_", "dot11_extended_header"), ("addr4_", "@bytes")],
                        files=D11_DATA, bases=["Tins::Dot11"], fix=BOTH_DS),
    "Dot11QoSData": cfg(D11 + "dot11_data.h", "Tins::Dot11QoSData", [("header_", "dot11_header"), ("ext_header_", "dot11_extended_header"), ("qos_control_", "@int")],
                        files=D11_DATA, bases=["Tins::Dot11Data", "Tins::Dot11"], **NO_FROM_DS),
    "Dot11QoSDataWDS": cfg(D11 + "dot11_data.h", "Tins::Dot11QoSData", [("header_", "dot11_header"), ("ext_header_", "dot11_extended_header"),
                                                                         ("addr4_", "@bytes"), ("qos_control_", "@int")],
                           files=D11_DATA, bases=["Tins::Dot11Data", "Tins::Dot11"], fix=BOTH_DS),
    "Dot11Beacon": mgmt("Dot11Beacon", "dot11_beacon.h", "dot11_beacon", "dot11_beacon_body", caps=True),
    "Dot11ProbeRequest": mgmt("Dot11ProbeRequest", "dot11_probe.h", "dot11_probe"),
    # a management frame with both DS bits set: libtins serialises a fourth address after the sequence control field
    "Dot11ProbeRequestWDS": cfg(D11 + "dot11_probe.h", "Tins::Dot11ProbeRequest", MGMT_IMG + [("addr4_", "@bytes")],
                                files=["src/dot11/dot11_probe.cpp", "include/tins/dot11/dot11_probe.h"] + D11_MGMT,
                                bases=["Tins::Dot11ManagementFrame", "Tins::Dot11"], fix=BOTH_DS),
    "Dot11ProbeResponse": mgmt("Dot11ProbeResponse", "dot11_probe.h", "dot11_probe", "dot11_probe_response_header", caps=True),
    "Dot11AssocRequest": mgmt("Dot11AssocRequest", "dot11_assoc.h", "dot11_assoc", "dot11_assoc_request_body", caps=True),
    "Dot11AssocResponse": mgmt("Dot11AssocResponse", "dot11_assoc.h", "dot11_assoc", "dot11_assoc_response_body", caps=True),
    "Dot11ReAssocRequest": mgmt("Dot11ReAssocRequest", "dot11_assoc.h", "dot11_assoc", "dot11_reassoc_request_body", caps=True),
    "Dot11ReAssocResponse": mgmt("Dot11ReAssocResponse", "dot11_assoc.h", "dot11_assoc", "dot11_reassoc_response_body", caps=True),
    "Dot11Disassoc": mgmt("Dot11Disassoc", "dot11_assoc.h", "dot11_assoc", "dot11_disassoc_body"),
    "Dot11Authentication": mgmt("Dot11Authentication", "dot11_auth.h", "dot11_auth", "dot11_auth_body"),
    "Dot11Deauthentication": mgmt("Dot11Deauthentication", "dot11_auth.h", "dot11_auth", "dot11_deauth_body"),
    "Dot11Ack": cfg(D11 + "dot11_control.h", "Tins::Dot11Ack", [("header_", "dot11_header")], files=D11_CTRL,
                    bases=["Tins::Dot11Control", "Tins::Dot11"]),
    "Dot11RTS": ctrl_ta("Dot11RTS"),
    "Dot11PSPoll": ctrl_ta("Dot11PSPoll"),
    "Dot11CFEnd": ctrl_ta("Dot11CFEnd"),
    "Dot11EndCFAck": ctrl_ta("Dot11EndCFAck"),
    "Dot11BlockAckRequest": ctrl_ta("Dot11BlockAckRequest", [("bar_control_", "@int"), ("start_sequence_", "@int")]),
    "Dot11BlockAck": ctrl_ta("Dot11BlockAck", [("bar_control_", "@int"), ("start_sequence_", "@int"), ("bitmap_", "@bytes")],
                             exprs={"bitmap": ptr_acc("bitmap", 8)}, arg={"bitmap": "bytes 8"}),
    # IEEE 802.1X-2010 §11.3 EAPOL header + descriptor type, followed by the RC4 (802.1X-2001 §7.6) / RSN
    # (IEEE 802.11-2016 §12.7.2) key descriptor
    "RC4EAPOL": cfg("tins/eapol.h", "Tins::RC4EAPOL", [("EAPOL::header_", "eapol_header", "header_", "EAPOL"),
                                                       ("header_", "rc4_eapol_header", "header_", "RC4EAPOL")],
                    files=EAPOLF, bases=["Tins::EAPOL"],
                    exprs={"key_iv": ptr_acc("key_iv", 16), "key_sign": ptr_acc("key_sign", 16)}, arg={"key_iv": "bytes 16", "key_sign": "bytes 16"}),
    "RSNEAPOL": cfg("tins/eapol.h", "Tins::RSNEAPOL", [("EAPOL::header_", "eapol_header", "header_", "EAPOL"),
                                                       ("header_", "rsn_eapol_header", "header_", "RSNEAPOL")],
                    files=EAPOLF, bases=["Tins::EAPOL"],
                    exprs={"key_iv": ptr_acc("key_iv", 16), "nonce": ptr_acc("nonce", 32), "rsc": ptr_acc("rsc", 8), "id": ptr_acc("id", 8),
                           "mic": ptr_acc("mic", 16)},
                    arg={"key_iv": "bytes 16", "nonce": "bytes 32", "rsc": "bytes 8", "id": "bytes 8", "mic": "bytes 16"}),
    # IEEE 802.2 §5.4: the three control field formats; LLC keeps the format in a separate member `type_`
    "LLCInfo": cfg("tins/llc.h", "Tins::LLC", [("header_", "llchdr"), ("control_field.info", "info_control_field")],
                   fixup="o.type(Tins::LLC::INFORMATION);", fix=[(2, 0xfe, 0x00)], **LLCF),
    "LLCSupervisory": cfg("tins/llc.h", "Tins::LLC", [("header_", "llchdr"), ("control_field.super", "super_control_field")],
                          fixup="o.type(Tins::LLC::SUPERVISORY);", fix=[(2, 0xfc, 0x01)], **LLCF),
    "LLCUnnumbered": cfg("tins/llc.h", "Tins::LLC", [("header_", "llchdr"), ("control_field.unnumbered", "un_control_field")],
                         fixup="o.type(Tins::LLC::UNNUMBERED);", fix=[(2, 0xfc, 0x03)],
                         exprs={"modifier_function_hi": ("to_val(uint8_t(o.modifier_function() >> 3))",
                                                         "o.modifier_function(static_cast<Tins::LLC::ModifierFunctions>((bits(v, 2) << 3) | (o.modifier_function() & 7)))"),
                                "modifier_function_lo": ("to_val(uint8_t(o.modifier_function() & 7))",
                                                         "o.modifier_function(static_cast<Tins::LLC::ModifierFunctions>((o.modifier_function() & 0x18) | bits(v, 3)))")},
                         arg={"modifier_function_hi": "int 2", "modifier_function_lo": "int 3"}, **LLCF),
    "Loopback": cfg("tins/loopback.h", "Tins::Loopback", [("family_", "@int")], files=["src/loopback.cpp", "include/tins/loopback.h"]),
    "RadioTap": cfg("tins/radiotap.h", "Tins::RadioTap", [("header_", "radiotap_header")], files=["src/radiotap.cpp", "include/tins/radiotap.h"]),
    # PPI is parse-only (write_serialization throws): the image itself stands for the serialisation
    "PPI": cfg("tins/ppi.h", "Tins::PPI", [("header_", "ppi_header")], inner=False, serial=False,
               ctor="new Tins::PPI((const uint8_t*)\"\\0\\0\\x08\\0\\0\\0\\0\\0\", 8)", files=["src/ppi.cpp", "include/tins/ppi.h"]),
    # padding bit is derived from padding_size_ (serialisation throws when it is set without a padding size)
    "RTP": cfg("tins/rtp.h", "Tins::RTP", [("header_", "rtp_header")], files=["src/rtp.cpp", "include/tins/rtp.h"], fix=[(0, 0xdf, 0x00)]),
    # RFC 3550 §5.3.1: X = 1, a header extension (profile, length) follows the fixed header (no CSRC list here)
    "RTPExtension": cfg("tins/rtp.h", "Tins::RTP", [("header_", "rtp_header"), ("ext_header_", "rtp_extension_header")],
                        files=["src/rtp.cpp", "include/tins/rtp.h"], fix=[(0, 0xdf, 0x10), (14, 0x00, 0x00), (15, 0x00, 0x00)],
                        avoid={"extension_bit": {"0"}}),
    # RFC 4884 §7: extension structure header (version, reserved, checksum) and object header (length, class, c-type);
    # not PDUs.  The object's length field is not a member: the image is the two bytes after it.
    "ICMPExtensionsStructure": cfg("tins/icmp_extension.h", "Tins::ICMPExtensionsStructure", [("version_and_reserved_", "@int")], pdu=False,
                                   ser_expr="o.serialize()", files=["src/icmp_extension.cpp", "include/tins/icmp_extension.h"]),
    "ICMPExtension": cfg("tins/icmp_extension.h", "Tins::ICMPExtension", [("extension_class_", "@int"), ("extension_type_", "@int")], pdu=False,
                         ser_expr="o.serialize()", ser_skip=2, files=["src/icmp_extension.cpp", "include/tins/icmp_extension.h"]),
}


# ----------------------------------------------------------------------------------------------- spec table parser
def parse_spec():
    txt = open(SPEC).read()
    classes, rows = {}, []
    for m in re.finditer(r'^\s*c "(\w+)" \.(be|le) (\d+) \[([^\]]*)\],?\s*$', txt, re.M):
        der = [(int(a), int(b)) for a, b in re.findall(r"\((\d+),\s*(\d+)\)", m.group(4))]
        classes[m.group(1)] = dict(name=m.group(1), order=m.group(2), len=int(m.group(3)), derived=der)
    for m in re.finditer(r'^\s*r "(\w+)" "(\w+)" \.(be|le) (\d+) (\d+) \.(num|bytes) \.(rw|ro)( \d+)?,?\s*$', txt, re.M):
        rows.append(dict(cls=m.group(1), fld=m.group(2), order=m.group(3), off=int(m.group(4)), width=int(m.group(5)),
                         kind=m.group(6), access=m.group(7), scale=int(m.group(8) or 1)))
    n_lines = len(re.findall(r'^\s*r "', txt, re.M))
    if n_lines != len(rows):
        raise RuntimeError(f"Spec.lean: {n_lines} row lines but {len(rows)} parsed (format is one `r ...` per line)")
    n_cls = len(re.findall(r'^\s*c "', txt, re.M))
    if n_cls != len(classes):
        raise RuntimeError(f"Spec.lean: {n_cls} class lines but {len(classes)} parsed")
    return classes, rows


# ----------------------------------------------------------------------------------------------- struct parser
_pp_cache = {}


def preprocessed(include):
    if include not in _pp_cache:
        r = subprocess.run(["g++", "-E", "-P", "-std=c++11", "-I" + os.path.join(REPO, "include"), "-x", "c++",
                            os.path.join(REPO, "include", include)], stdout=subprocess.PIPE, stderr=subprocess.PIPE, text=True)
        if r.returncode != 0:
            raise RuntimeError("preprocess failed: " + r.stderr[-2000:])
        _pp_cache[include] = r.stdout
    return _pp_cache[include]


def find_struct_body(text, name):
    """body of `struct name { ... }`; `name#2` selects the second definition of that name in the header.
    For a `class name { private: <data members> public: <functions> }` only the data members are returned."""
    nth = 1
    if "#" in name:
        name, n = name.split("#")
        nth = int(n)
    ms = list(re.finditer(r"\b(struct|union|class)\s+" + re.escape(name) + r"\s*\{", text))
    if len(ms) < nth:
        return None
    m = ms[nth - 1]
    i, depth = m.end(), 1
    while depth and i < len(text):
        depth += {"{": 1, "}": -1}.get(text[i], 0)
        i += 1
    body = text[m.end():i - 1]
    if m.group(1) == "class":
        body = body.split("public:")[0].replace("private:", " ")
    return body


def parse_members(text, body, prefix=""):
    """leaf members of a struct body: list of (path, 'bf'|'int'|'arr', bit-field width or 0)"""
    out, i, n = [], 0, len(body)
    toks = re.findall(r"[A-Za-z_][A-Za-z_0-9]*(?:::[A-Za-z_][A-Za-z_0-9]*)*|\d+|[{}\[\];:,()]|\S", body)
    pos = 0

    def parse_block(pos, prefix):
        res = []
        while pos < len(toks) and toks[pos] != "}":
            if toks[pos] in ("struct", "union"):
                pos += 1
                if toks[pos] != "{":
                    pos += 1                       # tag name
                assert toks[pos] == "{", toks[pos:pos + 5]
                inner_start = pos + 1
                # find matching brace
                d, j = 1, pos + 1
                while d:
                    d += {"{": 1, "}": -1}.get(toks[j], 0)
                    j += 1
                inner_end = j - 1
                pos = j
                while toks[pos] == "__attribute__":    # __attribute__((packed))
                    d2, pos = 0, pos + 1
                    while True:
                        d2 += {"(": 1, ")": -1}.get(toks[pos], 0)
                        pos += 1
                        if d2 == 0:
                            break
                name = ""
                if toks[pos] != ";":
                    name = toks[pos]; pos += 1
                assert toks[pos] == ";", toks[pos - 3:pos + 3]
                pos += 1
                sub, _ = parse_block_tokens(toks[inner_start:inner_end], prefix + (name + "." if name else ""))
                res += sub
                continue
            # ordinary declaration: type tokens then declarators
            j = pos
            while toks[j] != ";":
                j += 1
            decl = toks[pos:j]
            pos = j + 1
            # split declarators on top-level commas
            parts, cur = [], []
            for t in decl:
                if t == ",":
                    parts.append(cur); cur = []
                else:
                    cur.append(t)
            parts.append(cur)
            first = parts[0]
            # first part = type tokens + first declarator
            if ":" in first:
                k = first.index(":")
                tname, dname, rest = first[:k - 1], first[k - 1], first[k:]
            elif "[" in first:
                k = first.index("[")
                tname, dname, rest = first[:k - 1], first[k - 1], first[k:]
            else:
                tname, dname, rest = first[:-1], first[-1], []
            decls = [(dname, rest)] + [(p[0], p[1:]) for p in parts[1:]]
            tstr = " ".join(tname)
            for dname, rest in decls:
                if rest and rest[0] == ":":
                    res.append((prefix + dname, "bf", int(rest[1])))
                elif rest and rest[0] == "[":
                    res.append((prefix + dname, "arr", 0))
                elif re.fullmatch(r"(unsigned |signed )?(u?int(8|16|32|64)_t|char|short|int|long|unsigned)", tstr):
                    res.append((prefix + dname, "int", 0))
                else:
                    sub_body = find_struct_body(text, tname[-1].split("::")[-1])
                    if sub_body is None:
                        res.append((prefix + dname, "opaque", 0))
                    else:
                        res += parse_members(text, sub_body, prefix + dname + ".")
        return res, pos

    def parse_block_tokens(tk, prefix):
        nonlocal toks
        saved = toks
        toks = tk + ["}"]
        r = parse_block(0, prefix)
        toks = saved
        return r

    toks = toks + ["}"]
    res, _ = parse_block(0, prefix)
    return res


# ----------------------------------------------------------------------------------------------- accessor recogniser
def strip_comments(s):
    s = re.sub(r"/\*.*?\*/", " ", s, flags=re.S)
    return re.sub(r"//[^\n]*", " ", s)


def le_branch(body):
    """keep the little-endian branch of #if TINS_IS_LITTLE_ENDIAN / #if TINS_IS_BIG_ENDIAN blocks"""
    out, keep, stack = [], True, []
    for line in body.split("\n"):
        t = line.strip()
        m = re.match(r"#\s*(if|elif)\s+(.*)", t)
        if m and "TINS_IS_LITTLE_ENDIAN" in m.group(2):
            if m.group(1) == "if":
                stack.append(keep)
            keep = stack[-1] and True
            continue
        if m and "TINS_IS_BIG_ENDIAN" in m.group(2):
            if m.group(1) == "if":
                stack.append(keep)
            keep = False
            continue
        if re.match(r"#\s*else", t) and stack:
            keep = stack[-1] and not keep
            continue
        if re.match(r"#\s*endif", t) and stack:
            keep = stack.pop()
            continue
        if keep:
            out.append(line)
    return "\n".join(out)


def norm(body):
    return re.sub(r"\s+", " ", le_branch(strip_comments(body))).strip()


def find_function(texts, cls, name, setter, bases=()):
    """(body text, parameter name, class it was found in) of the setter `void cls::name(T p)` / getter
    `R cls::name() const` (looked up in the class, then in its base classes)"""
    for c in [cls] + list(bases):
        r = find_function1(texts, c, name, setter)
        if r[0] is not None:
            return r[0], r[1], c.split("::")[-1]
    return None, None, None


def class_scope(txt, short):
    """text of `class short { ... }` (brace matched), or None"""
    cm = re.search(r"\bclass\s+(?:TINS_API\s+)?" + re.escape(short) + r"\b[^;{]*\{", txt)
    if not cm:
        return None
    i, depth = cm.end(), 1
    while depth and i < len(txt):
        depth += {"{": 1, "}": -1}.get(txt[i], 0)
        i += 1
    return txt[cm.start():i]


def find_function1(texts, cls, name, setter):
    short = cls.split("::")[-1]
    for txt in texts:
        if setter:
            pats = [r"\bvoid\s+" + re.escape(short) + r"::" + re.escape(name) + r"\s*\(([^)]*)\)\s*\{",
                    r"\bvoid\s+" + re.escape(name) + r"\s*\(([^)]+)\)\s*\{"]
        else:
            pats = [r"\b" + re.escape(short) + r"::" + re.escape(name) + r"\s*\(\s*\)\s*(?:const)?\s*\{",
                    r"[\w:<>]+\s*[&*]?\s+" + re.escape(name) + r"\s*\(\s*\)\s*(?:const)?\s*\{",
                    r"[\w:<>]+\s*[&*]\s*" + re.escape(name) + r"\s*\(\s*\)\s*(?:const)?\s*\{"]
        for k, p in enumerate(pats):
            scope = txt
            if k >= 1:
                # inline definition: restrict to the text of the class
                scope = class_scope(txt, short)
                if scope is None:
                    continue
            m = re.search(p, scope)
            if not m:
                continue
            i, depth = m.end(), 1
            while depth and i < len(scope):
                depth += {"{": 1, "}": -1}.get(scope[i], 0)
                i += 1
            body = norm(scope[m.end():i - 1])
            param = ""
            if setter:
                pm = re.search(r"(\w+)\s*$", strip_comments(m.group(1)).strip())
                param = pm.group(1) if pm else ""
            return body, param
    return None, None


GET_PATS = [("none", r"return {M};"),
            ("be", r"return Endian::be_to_host(?:<\w+>)?\({M}\);"),
            ("le", r"return Endian::le_to_host(?:<\w+>)?\({M}\);"),
            ("none", r"return (?:\w+_type|\w*[aA]ddress\w*)\({M}\);"),
            ("none", r"return \((?:\w+)\)\s*{M};"),
            ("none", r"return static_cast<\s*\w+\s*>\({M}\);"),
            ("be", r"return \((?:\w+)\)\s*Endian::be_to_host(?:<\w+>)?\({M}\);"),
            ("be", r"return static_cast<\s*\w+\s*>\(Endian::be_to_host(?:<\w+>)?\({M}\)\);")]
SET_PATS = [("none", r"{M} = {P};"),
            ("none", r"\w+ = {M} = {P};"),
            ("none", r"{M} = static_cast<\s*\w+\s*>\({P}\);"),
            ("be", r"{M} = Endian::host_to_be(?:<\w+>)?\({P}\);"),
            ("le", r"{M} = Endian::host_to_le(?:<\w+>)?\({P}\);"),
            ("bool01", r"{M} = \({P}\)\s*\? 1 : 0;"),
            ("bytes", r"{P}\.copy\({M}\);"),
            # whole-array copies from a pointer (the size must be the size of the destination array)
            ("bytes", r"memcpy\({M}, {P}, sizeof\((?P<szof>[\w\.>-]+)\)\);"),
            ("bytes", r"memcpy\({M}, {P}, (?P<szname>[A-Za-z_]\w*)\);"),
            ("bytes", r"(?:std::)?copy\({P}, {P} \+ sizeof\((?P<szof>[\w\.>-]+)\), {M}\);"),
            # BootP::chaddr<n>: `min(n, sizeof field)` bytes of the address, the rest of the field zero-filled
            ("bytes_zfill", r"size_t copy_threshold = std::min\(n, sizeof\((?P<szof>[\w\.>-]+)\)\); "
                            r"for \(size_t i = 0; i < sizeof\((?P<szof2>[\w\.>-]+)\); \+\+i\) \{ if \(i < copy_threshold\) \{ {M}\[i\] = {P}\[i\]; \} "
                            r"else \{ (?P<dst2>[\w\.>-]+)\[i\] = 0; \} \}")]


def classify(cls, conf, row, texts, raw_texts):
    """('simple', image index, path, conv) or ('custom', reason); plus the class the accessor was found in"""
    fld = row["fld"]
    entries = [img_entry(e) for e in conf["image"]]
    if fld in conf["sub"]:
        objacc, nested, src, prefix, nname = conf["sub"][fld]
        # the object accessor must return the nested object stored in the image
        obody, _, _ = find_function(texts, conf["type"], objacc.rstrip("()"), False, conf["bases"])
        if obody is None or norm(obody) != f"return {src}.{prefix};":
            return ("custom", f"object accessor {objacc}: {obody}"), nested
        idx = [i for i, e in enumerate(entries) if e["src"] == src][0]
        gbody, _, _ = find_function(texts, nested, nname, False)
        sbody, p, _ = find_function(texts, nested, nname, True)
        if gbody is None or sbody is None:
            return ("custom", "nested accessor not found"), nested
        mg = re.fullmatch(r"return (\w+);", gbody)
        ms = re.fullmatch(r"(\w+) = " + re.escape(p) + r";", sbody)
        if not mg or not ms or mg.group(1) != ms.group(1):
            return ("custom", f"nested accessor: {gbody} / {sbody}"), nested
        return ("simple", idx, prefix + "." + mg.group(1), "none"), nested
    gname, sname = conf["names"].get(fld, (fld, fld))
    gbody, _, gcls = find_function(texts, conf["type"], gname, False, conf["bases"])
    if gbody is None:
        return ("custom", "getter not found"), None
    own = conf["type"].split("::")[-1]

    def visible(found_in):
        return [(i, e) for i, e in enumerate(entries) if e["owner"] is None or e["owner"] == found_in]

    def M_of(found_in):
        names = sorted({e["src"] for _, e in visible(found_in)}, key=len, reverse=True)
        return r"(?:this->)?(?P<img>" + "|".join(re.escape(nm) for nm in names) + r")\.(?P<path>[\w\.]+(?:\[\d+\])?)"

    def selfnorm(b, found_in):
        for _, e in visible(found_in):
            if e["st"].startswith("@"):
                b = re.sub(r"(?<![\w\.])" + re.escape(e["src"]) + r"\b(?!\.)", e["src"] + "." + e["src"], b)
        return b

    def img_index(found_in, src):
        return [i for i, e in visible(found_in) if e["src"] == src][0]

    gbody = selfnorm(gbody, gcls)
    gconv = None
    for conv, pat in GET_PATS:
        m = re.fullmatch(pat.replace("{M}", M_of(gcls)), gbody)
        if m:
            gconv, gimg, gpath = conv, img_index(gcls, m.group("img")), m.group("path")
            break
    if gconv is None:
        return ("custom", "getter: " + gbody[:80]), gcls
    if row["access"] == "ro":
        conv = "bytes" if row["kind"] == "bytes" else gconv
        return ("simple", gimg, gpath, conv), gcls
    sbody, p, scls = find_function(texts, conf["type"], sname, True, conf["bases"])
    if sbody is None:
        return ("custom", "setter not found"), gcls
    sbody = selfnorm(sbody, scls)
    P = re.escape(p)
    sconv = None
    for conv, pat in SET_PATS:
        m = re.fullmatch(pat.replace("{M}", M_of(scls), 1).replace("{M}", r"(?P=img)\.(?P=path)").replace("{P}", P), sbody)
        if m:
            d = m.groupdict()
            dst = f"{m.group('img')}.{m.group('path')}"
            ok = all(d.get(k) in (None, dst) for k in ("szof", "szof2", "dst2"))
            if ok and d.get("szname"):
                # `memcpy(dst, p, name)`: the destination must be declared `dst[name]`
                leaf = m.group("path").split(".")[-1]
                ok = any(re.search(r"\b" + re.escape(leaf) + r"\s*\[\s*" + re.escape(d["szname"]) + r"\s*\]", t) for t in raw_texts)
            if not ok:
                continue
            sconv, simg, spath = conv, img_index(scls, m.group("img")), m.group("path")
            break
    if sconv is None:
        return ("custom", "setter: " + sbody[:80]), gcls
    if (simg, spath) != (gimg, gpath):
        return ("custom", f"getter reads {gimg}.{gpath}, setter writes {simg}.{spath}"), gcls
    if row["kind"] == "bytes":
        if sconv == "bytes_zfill" and row["scale"] != 1:
            return ("custom", "copy of a shorter address, rest of the field zero-filled"), gcls
        if sconv in ("none", "bytes", "bytes_zfill") and gconv == "none":
            return ("simple", simg, spath, "bytes"), gcls
        return ("custom", "address accessor with conversion"), gcls
    if sconv == "bool01" and gconv == "none":
        return ("simple", simg, spath, "bool01"), gcls
    if sconv != gconv:
        return ("custom", f"setter conv {sconv}, getter conv {gconv}"), gcls
    return ("simple", simg, spath, sconv), gcls


# ----------------------------------------------------------------------------------------------- C++ shared text
CPP_COMMON = r'''
#include <cstdint>
#include <cstdio>
#include <cstring>
#include <string>
#include <vector>
#include <type_traits>
#include <memory>
#include <functional>
#include <tins/tins.h>
#include <tins/small_uint.h>
#include <tins/rtp.h>
#include <tins/icmp_extension.h>

struct Val { bool is_bytes; unsigned long long n; std::vector<uint8_t> b; Val() : is_bytes(false), n(0) {} };
struct DomainError { };

template <class T, class E = void> struct Conv;
template <class T> struct Conv<T, typename std::enable_if<std::is_integral<T>::value && !std::is_same<T, bool>::value>::type> {
    static T from(const Val& v) {
        if (v.is_bytes || (sizeof(T) < 8 && (v.n >> (8 * sizeof(T))) != 0)) throw DomainError();
        return static_cast<T>(v.n);
    }
    static std::string info() { return "int " + std::to_string(8 * sizeof(T)); }
};
template <> struct Conv<bool> {
    static bool from(const Val& v) { if (v.is_bytes || v.n > 1) throw DomainError(); return v.n != 0; }
    static std::string info() { return "int 1"; }
};
template <class T> struct Conv<T, typename std::enable_if<std::is_enum<T>::value>::type> {
    static T from(const Val& v) { if (v.is_bytes) throw DomainError(); return static_cast<T>(v.n); }
    static std::string info() { return "enum " + std::to_string(8 * sizeof(T)); }
};
template <size_t n> struct Conv<Tins::small_uint<n> > {
    typedef typename Tins::small_uint<n>::repr_type R;
    static Tins::small_uint<n> from(const Val& v) { return Tins::small_uint<n>(Conv<R>::from(v)); }   // may throw value_too_large
    static std::string info() { return "small " + std::to_string(n) + " " + std::to_string(8 * sizeof(R)); }
};
template <> struct Conv<Tins::IPv4Address> {
    static Tins::IPv4Address from(const Val& v) {
        if (!v.is_bytes || v.b.size() != 4) throw DomainError();
        uint32_t x; memcpy(&x, v.b.data(), 4); return Tins::IPv4Address(x);
    }
    static std::string info() { return "bytes 4"; }
};
template <size_t n> struct Conv<Tins::HWAddress<n> > {
    static Tins::HWAddress<n> from(const Val& v) {
        if (!v.is_bytes || v.b.size() != n) throw DomainError();
        return Tins::HWAddress<n>(v.b.data());
    }
    static std::string info() { return "bytes " + std::to_string(n); }
};
template <> struct Conv<Tins::IPv6Address> {
    static Tins::IPv6Address from(const Val& v) {
        if (!v.is_bytes || v.b.size() != 16) throw DomainError();
        return Tins::IPv6Address(v.b.data());
    }
    static std::string info() { return "bytes 16"; }
};
template <> struct Conv<Tins::STP::bpdu_id_type> {
    static Tins::STP::bpdu_id_type from(const Val& v) {
        if (v.is_bytes) throw DomainError();
        uint8_t mac[6];
        for (int i = 0; i < 6; ++i) mac[i] = uint8_t(v.n >> (8 * (5 - i)));
        return Tins::STP::bpdu_id_type(uint8_t(v.n >> 60), uint16_t((v.n >> 48) & 0xfff), Tins::HWAddress<6>(mac));
    }
    static std::string info() { return "int 64"; }
};
// a value of an n-bit domain (pseudo-rows that drive one part of a split field through the public pair)
static inline unsigned bits(const Val& v, unsigned n) {
    if (v.is_bytes || (v.n >> n) != 0) throw DomainError();
    return unsigned(v.n);
}
// setters that take `const uint8_t*` to an array of known size
static inline const uint8_t* byte_ptr(const Val& v, size_t n) {
    if (!v.is_bytes || v.b.size() != n) throw DomainError();
    return v.b.data();
}

static inline std::string hexs(const uint8_t* p, size_t n) {
    static const char* d = "0123456789abcdef";
    std::string s;
    for (size_t i = 0; i < n; ++i) { s.push_back(d[p[i] >> 4]); s.push_back(d[p[i] & 15]); }
    return s;
}
template <class T> typename std::enable_if<std::is_integral<T>::value || std::is_enum<T>::value, std::string>::type
to_val(T x) { return std::to_string((unsigned long long)(x)); }
template <size_t n> std::string to_val(Tins::small_uint<n> x) { return std::to_string((unsigned long long)(typename Tins::small_uint<n>::repr_type)(x)); }
static inline std::string to_val(Tins::IPv4Address a) { uint32_t x = a; uint8_t b[4]; memcpy(b, &x, 4); return "x" + hexs(b, 4); }
template <size_t n> std::string to_val(const Tins::HWAddress<n>& a) { return "x" + hexs(a.begin(), n); }
static inline std::string to_val(const Tins::IPv6Address& a) { return "x" + hexs(a.begin(), 16); }
static inline std::string to_val(const Tins::STP::bpdu_id_type& id) {
    unsigned long long v = ((unsigned long long)(uint8_t)(id.priority) << 60) | ((unsigned long long)(uint16_t)(id.ext_id) << 48);
    for (int i = 0; i < 6; ++i) v |= (unsigned long long)(id.id[i]) << (8 * (5 - i));
    return std::to_string(v);
}

template <class C, class B, class A> void do_set(C& o, void (B::*m)(A), const Val& v) {
    (o.*m)(Conv<typename std::decay<A>::type>::from(v));
}
template <class C, class B, class R> std::string do_get(C& o, R (B::*m)() const) { return to_val((o.*m)()); }
template <class C, class B, class R> std::string do_get(C& o, R (B::*m)()) { return to_val((o.*m)()); }
template <class B, class A> std::string arg_info(void (B::*)(A)) { return Conv<typename std::decay<A>::type>::info(); }
'''


def member_ident(cls, path):
    return cls + "_" + re.sub(r"[^\w]", "_", path)


def piece_size(e):
    """C++ expression for the number of image bytes the entry contributes (`o` is the object)"""
    if e["st"].startswith("@bytes:"):
        return e["st"].split(":")[1]
    return f"sizeof(o.{e['lv']})"


def build_tables():
    classes, rows = parse_spec()
    tables = {}
    for cname, k in classes.items():
        if cname not in CONFIG:
            raise RuntimeError(f"class {cname} of Spec.lean has no C++ configuration in gen_layout.py")
        conf = CONFIG[cname]
        pp = preprocessed(conf["include"])
        members = []        # dict(idx, lv, st, path, kind, w, ident)
        used = set()
        for idx, raw in enumerate(conf["image"]):
            e = img_entry(raw)
            if e["st"].startswith("@"):                 # a scalar / address member of the class, not a struct
                found = [(e["src"], "selfint" if e["st"] == "@int" else "selfarr", 0)]
            else:
                body = find_struct_body(pp, e["st"])
                if body is None:
                    raise RuntimeError(f"struct {e['st']} not found in {conf['include']}")
                found = parse_members(pp, body)
            for path, kind, w in found:
                ident = member_ident(cname, path)
                if ident in used:
                    ident += f"_i{idx}"
                used.add(ident)
                members.append(dict(idx=idx, lv=e["lv"], st=e["st"], path=path, kind=kind, w=w, ident=ident))
        raw_texts = [open(os.path.join(REPO, f)).read() for f in conf["files"]]
        texts = [strip_comments(t) for t in raw_texts]
        crow = [r for r in rows if r["cls"] == cname]
        accs, found_in = {}, {}
        for r in crow:
            accs[r["fld"]], found_in[r["fld"]] = classify(cname, conf, r, texts, raw_texts)
        tables[cname] = dict(cls=k, conf=conf, members=members, rows=crow, accs=accs, found_in=found_in)
    extra = sorted(set(CONFIG) - set(classes))
    if extra:
        raise RuntimeError("classes configured in gen_layout.py but missing from Spec.lean: " + ", ".join(extra))
    return classes, rows, tables


# ----------------------------------------------------------------------------------------------- probe
def includes_of(tables):
    return sorted({t["conf"]["include"] for t in tables.values()})


def probe_source(tables):
    s = ["// GENERATED by translator/gen_layout.py — layout probe (compiled with -fno-access-control)", CPP_COMMON]
    s += [f"#include <{i}>" for i in includes_of(tables)]
    s.append(r'''
static long single_bit(const unsigned char* p, size_t n) {
    long pos = -1;
    for (size_t i = 0; i < n; ++i) for (int b = 0; b < 8; ++b) if (p[i] >> b & 1) { if (pos >= 0) return -2; pos = long(i) * 8 + b; }
    return pos;
}
#define P_INT(cls, key, base, S, path) P_BF(cls, key, base, S, path, int(8 * sizeof(((S*)0)->path)))
#define P_BF(cls, key, base, S, path, W) do { S s; int w = (W); long p0 = -1; int ok = 1; \
    for (int j = 0; j < w; ++j) { memset((void*)&s, 0, sizeof s); s.path = (unsigned long long)(1) << j; \
        long p = single_bit((const unsigned char*)&s, sizeof s); if (j == 0) p0 = p; if (p < 0 || p != p0 + j) ok = 0; } \
    printf("M %s %s %ld %d %d\n", cls, key, long(base) * 8 + p0, w, ok); } while (0)
#define P_ARR(cls, key, base, S, path) do { S s; printf("A %s %s %ld %zu\n", cls, key, long(base) + long((char*)s.path - (char*)&s), sizeof(s.path)); } while (0)
int main() {''')
    for cname, t in sorted(tables.items()):
        conf = t["conf"]
        T = conf["type"]
        s.append(f"  {{ typedef {T} T; std::unique_ptr<T> op({conf['ctor']}); T& o = *op; size_t base = 0; std::string img;")
        for idx, raw in enumerate(conf["image"]):
            e = img_entry(raw)
            lv = e["lv"]
            S = f"std::remove_reference<decltype(o.{lv})>::type"
            sz = piece_size(e)
            s.append(f"    printf(\"S {cname} {idx} %zu %zu\\n\", base, size_t({sz}));")
            for mb in t["members"]:
                if mb["idx"] != idx:
                    continue
                key, path = mb["ident"], mb["path"]
                if mb["kind"] == "selfint":
                    s.append(f"    printf(\"M {cname} {key} %zu %zu 1\\n\", base * 8, 8 * size_t({sz}));")
                elif mb["kind"] == "selfarr":
                    s.append(f"    printf(\"A {cname} {key} %zu %zu\\n\", base, size_t({sz}));")
                elif mb["kind"] == "int":
                    s.append(f"    P_INT(\"{cname}\", \"{key}\", base, {S}, {path});")
                elif mb["kind"] == "bf":
                    s.append(f"    P_BF(\"{cname}\", \"{key}\", base, {S}, {path}, {mb['w']});")
                elif mb["kind"] == "arr":
                    s.append(f"    P_ARR(\"{cname}\", \"{key}\", base, {S}, {path});")
            s.append(f"    img += hexs((const uint8_t*)&o.{lv}, {sz}); base += {sz};")
        s.append(f"    printf(\"D {cname} %s\\n\", img.c_str());")
        for r in t["rows"]:
            if r["access"] != "rw":
                continue
            f = r["fld"]
            if f in conf["arg"]:
                s.append(f"    printf(\"R {cname} {f} {conf['arg'][f]}\\n\");")
            elif f in conf["sub"]:
                objacc, nested, _, _, nname = conf["sub"][f]
                s.append(f"    printf(\"R {cname} {f} %s\\n\", arg_info(&std::remove_reference<decltype(o.{objacc})>::type::{nname}).c_str());")
            else:
                sname = conf["names"].get(f, (f, f))[1]
                s.append(f"    printf(\"R {cname} {f} %s\\n\", arg_info(&T::{sname}).c_str());")
        s.append("  }")
    s.append("  return 0;\n}\n")
    return "\n".join(s)


def run_probe(tables):
    src = probe_source(tables)
    h = hashlib.sha256((src + core.repo_hash()).encode()).hexdigest()[:16]
    d = os.path.join(core.WORK, "c15")
    os.makedirs(d, exist_ok=True)
    outp = os.path.join(d, f"probe-{h}.out")
    with core.Lock("c15-probe"):
        if not os.path.exists(outp):
            cpp = os.path.join(d, f"probe-{h}.cpp")
            exe = os.path.join(d, f"probe-{h}")
            open(cpp, "w").write(src)
            lib, err = core.build_impl("asan")
            if lib is None:
                raise RuntimeError("implementation does not build: " + err[-2000:])
            r = subprocess.run(["g++", "-std=c++11", "-O0", "-w", "-fno-access-control", f"-D{core.GUARD}",
                                "-fsanitize=address,undefined", "-I" + os.path.join(REPO, "include"), cpp, lib, "-o", exe]
                               + core.LINK_LIBS, stdout=subprocess.PIPE, stderr=subprocess.PIPE, text=True)
            if r.returncode != 0:
                raise RuntimeError("layout probe does not compile:\n" + r.stderr[-4000:])
            r = subprocess.run([exe], stdout=subprocess.PIPE, stderr=subprocess.PIPE, text=True,
                               env=dict(os.environ, ASAN_OPTIONS="detect_leaks=0"))
            if r.returncode != 0:
                raise RuntimeError("layout probe failed:\n" + r.stderr[-4000:])
            open(outp + ".tmp", "w").write(r.stdout)
            os.rename(outp + ".tmp", outp)
            for f in os.listdir(d):                       # keep only the current probe
                if f.startswith("probe-") and not f.startswith(f"probe-{h}"):
                    os.remove(os.path.join(d, f))
    res = dict(mem={}, arr={}, size={}, default={}, arg={})
    for line in open(outp):
        w = line.split()
        if w[0] == "M":
            res["mem"][(w[1], w[2])] = (int(w[3]), int(w[4]), int(w[5]))
        elif w[0] == "A":
            res["arr"][(w[1], w[2])] = (int(w[3]), int(w[4]))
        elif w[0] == "S":
            res["size"][(w[1], int(w[2]))] = (int(w[3]), int(w[4]))
        elif w[0] == "D":
            res["default"][w[1]] = w[2]
        elif w[0] == "R":
            res["arg"][(w[1], w[2])] = w[3:]
    return res


# ----------------------------------------------------------------------------------------------- Lean output
def lean_tables(classes, rows, tables, pr):
    L = ["import TinsModel.Fields.Layout",
         "/- GENERATED by translator/gen_layout.py from the repo's current source — do not edit.",
         "   members: layout probe (compiler decides);  simple: one-statement accessors recognised in the C++ text;",
         "   custom: accessors the translator does not recognise (hand-written models in Fields/Custom.lean);",
         "   args: parameter domain of every public setter (deduced by the C++ compiler in the probe). -/",
         "namespace Tins.Fields.Gen", ""]
    L.append("namespace M")
    memtab = []
    for cname in sorted(tables):
        for mb in tables[cname]["members"]:
            ident, kind = mb["ident"], mb["kind"]
            if kind in ("int", "bf", "selfint"):
                pos, width, ok = pr["mem"][(cname, ident)]
                if not ok:
                    L.append(f"-- {cname}.{mb['path']}: NOT contiguous in memory bit order (unsupported)")
                    continue
                L.append(f"def {ident} : Mem := ⟨{pos // 8}, {pos % 8}, {width}⟩")
                memtab.append((cname, mb["path"], pos // 8, pos % 8, width))
            elif kind in ("arr", "selfarr"):
                off, size = pr["arr"][(cname, ident)]
                L.append(f"def {ident} : Mem := ⟨{off}, 0, {8 * size}⟩")
                memtab.append((cname, mb["path"], off, 0, 8 * size))
                for e in range(size if size <= 4 else 0):
                    L.append(f"def {ident}_{e} : Mem := ⟨{off + e}, 0, 8⟩")
    L.append("end M\n")
    L.append("def members : List (String × String × Mem) := [")
    L.append(",\n".join(f'  ("{c}", "{p}", ⟨{a}, {b}, {w}⟩)' for c, p, a, b, w in memtab) + "]\n")
    simple, custom = [], []
    for cname in sorted(tables):
        t = tables[cname]
        by_key = {(mb["idx"], mb["path"]): mb for mb in t["members"]}
        for r in t["rows"]:
            a = t["accs"][r["fld"]]
            if a[0] == "simple":
                idx, path = a[1], a[2]
                em = re.fullmatch(r"([\w\.]+)\[(\d+)\]", path)
                mb = by_key.get((idx, em.group(1) if em else path))
                key = (cname, mb["ident"]) if mb else None
                if key in pr["mem"] and pr["mem"][key][2] and not em:
                    pos, width, _ = pr["mem"][key]
                    mem = (pos // 8, pos % 8, width)
                elif key in pr["arr"]:
                    off, size = pr["arr"][key]
                    mem = (off + int(em.group(2)), 0, 8) if em else (off, 0, 8 * size)
                else:
                    custom.append((cname, r["fld"], "member not probed: " + path))
                    continue
                simple.append((cname, r["fld"], mem, a[3], path))
            else:
                custom.append((cname, r["fld"], a[1]))
    L.append("/-- accessors with a body the translator does not recognise -/")
    L.append("def custom : List (String × String) := [")
    L.append(",\n".join(f'  ("{c}", "{f}")   /- {why.replace("-/", "- /")[:100]} -/' for c, f, why in custom) + "]\n")
    args = []
    for cname in sorted(tables):
        for r in tables[cname]["rows"]:
            if r["access"] != "rw":
                continue
            info = pr["arg"][(cname, r["fld"])]
            if info[0] == "small":
                args.append((cname, r["fld"], int(info[2]), f"some {info[1]}"))
            elif info[0] == "bytes":
                args.append((cname, r["fld"], 8 * int(info[1]), "none"))
            elif info[0] == "enum":
                args.append((cname, r["fld"], min(int(info[1]), r["width"]), "none"))
            else:
                args.append((cname, r["fld"], int(info[1]), "none"))
    L.append("/-- per class: sizeof of the header image, recognised one-statement accessors, setter parameter domains -/")
    L.append("def byClass : List ClassGen := [")
    blocks = []
    for cname in sorted(tables):
        tot = sum(pr["size"][(cname, i)][1] for i in range(len(tables[cname]["conf"]["image"])))
        sm = ",\n".join(f'      ⟨"{c}", "{f}", ⟨{m[0]}, {m[1]}, {m[2]}⟩, .{cv}⟩   /- {p} -/' for c, f, m, cv, p in simple if c == cname)
        ar = ",\n".join(f'      ⟨"{c}", "{f}", {d}, {sm_}⟩' for c, f, d, sm_ in args if c == cname)
        blocks.append(f'  ⟨"{cname}", {tot},\n    [\n{sm}],\n    [\n{ar}]⟩')
    L.append(",\n".join(blocks) + "]\n")
    L.append("def imageLen : List (String × Nat) := byClass.map (fun g => (g.name, g.imageLen))")
    L.append("def simple : List SimpleAcc := byClass.flatMap (·.simple)")
    L.append("def args : List ArgInfo := byClass.flatMap (·.args)\n")
    # the class blocks of Spec.rows, in table order (every class must be one contiguous block)
    segs = []
    for r in rows:
        if segs and segs[-1][0] == r["cls"]:
            segs[-1][1] += 1
        else:
            segs.append([r["cls"], 1])
    if len({c for c, _ in segs}) != len(segs):
        raise RuntimeError("Spec.rows: the rows of a class are not contiguous")
    L.append("/-- the class blocks of `Spec.rows` (class, number of rows), in table order -/")
    L.append("def segments : List (String × Nat) := [" + ", ".join(f'("{c}", {n})' for c, n in segs) + "]\n")
    L.append("end Tins.Fields.Gen\n")
    return "\n".join(L), simple, custom, args


# ----------------------------------------------------------------------------------------------- harness output
def harness_source(classes, rows, tables):
    s = ["// GENERATED by translator/gen_layout.py from lean/TinsModel/Fields/Spec.lean — do not edit.",
         "// C15 correspondence harness (compile with -fno-access-control): drives the real getters / setters.",
         "//   init <Class> <image hex> <mask hex>   poke the header image into a fresh object",
         "//   set <field> <decimal | x<hex bytes>>  call the public setter",
         "// answer: r=<ok|value_too_large|domain|throw:..> get=<every getter of the class> hdr=<image> ser=<serialisation & ~mask>",
         '#include "common.h"', CPP_COMMON]
    s += [f"#include <{i}>" for i in includes_of(tables)]
    s.append(r'''
using namespace vh;
struct Obj {
    std::shared_ptr<void> root;                               // owns the object (the object itself, or its parent PDU)
    void* obj;
    std::function<bool(bytes&, size_t&)> ser;                 // serialisation of the root and the offset of the object in it
    Obj() : obj(0) {}
};
struct RowDef {
    std::string name;
    std::function<std::string(void*)> get;
    std::function<void(void*, const Val&)> set;               // empty for read-only rows
};
struct ClassDef {
    std::string name;
    size_t len;
    std::function<Obj()> make;
    std::function<void(void*, const uint8_t*)> load;
    std::function<void(void*, uint8_t*)> image;
    std::vector<RowDef> rows;
};
static std::vector<ClassDef> classes;
static std::string guarded_get(const RowDef& r, void* o) {
    try { return r.get(o); }
    catch (const Tins::value_too_large&) { return "!value_too_large"; }
    catch (const std::exception& e) { return "!" + exc_name(e); }
}
static void register_classes() {''')
    for cname in sorted(tables):
        t = tables[cname]
        conf = t["conf"]
        T = conf["type"]
        entries = [img_entry(e) for e in conf["image"]]
        s.append(f"  {{ typedef {T} T; ClassDef c; c.name = \"{cname}\";")
        s.append("    { std::unique_ptr<T> tmp(" + conf["ctor"] + "); T& o = *tmp; c.len = " + " + ".join(piece_size(e) for e in entries) + "; }")
        mk = f"T* p = {conf['ctor']}; Obj r; r.obj = p;"
        if conf["pdu"]:
            if conf["inner"]:
                mk += f" p->inner_pdu(new Tins::RawPDU(std::string({conf['payload']}, 'P')));"
            if conf["parent"]:
                mk += f" Tins::PDU* root = {conf['parent']}; root->inner_pdu(p);"
            else:
                mk += " Tins::PDU* root = p;"
            mk += " std::shared_ptr<Tins::PDU> sp(root); r.root = sp;"
            if conf["serial"]:
                mk += (" r.ser = [sp, p](bytes& out, size_t& off) -> bool { std::unique_ptr<Tins::PDU> cl(sp->clone()); out = cl->serialize();"
                       f" off = (sp.get() == static_cast<Tins::PDU*>(p) ? 0 : sp->header_size()) + {conf['ser_skip']}; return true; }};")
        else:
            mk += " std::shared_ptr<T> sp(p); r.root = sp;"
            mk += (" r.ser = [sp](bytes& out, size_t& off) -> bool { T o(*sp); "
                   f"out = {conf['ser_expr']}; off = {conf['ser_skip']}; return true; }};")
        s.append(f"    c.make = []() -> Obj {{ {mk} return r; }};")
        ld = " ".join(f"memcpy((void*)&o.{e['lv']}, b, {piece_size(e)}); b += {piece_size(e)};" for e in entries)
        s.append(f"    c.load = [](void* vp, const uint8_t* b) {{ T& o = *static_cast<T*>(vp); {ld} {conf['fixup']} }};")
        im = " ".join(f"memcpy(b, (const void*)&o.{e['lv']}, {piece_size(e)}); b += {piece_size(e)};" for e in entries)
        s.append(f"    c.image = [](void* vp, uint8_t* b) {{ T& o = *static_cast<T*>(vp); {im} }};")
        for r in t["rows"]:
            f = r["fld"]
            gname, sname = conf["names"].get(f, (f, f))
            if f in conf["exprs"]:
                ge, se = conf["exprs"][f]
            elif f in conf["sub"]:
                objacc, nested, _, _, nname = conf["sub"][f]
                ge = f"to_val(static_cast<const T&>(o).{objacc}.{nname}())"
                se = f"o.{objacc}.{nname}(Conv<bool>::from(v))"
            else:
                ge, se = f"do_get(o, &T::{gname})", f"do_set(o, &T::{sname}, v)"
            s.append(f"    {{ RowDef r; r.name = \"{f}\"; r.get = [](void* vp) -> std::string {{ T& o = *static_cast<T*>(vp); return {ge}; }};")
            if r["access"] == "rw":
                s.append(f"      r.set = [](void* vp, const Val& v) {{ T& o = *static_cast<T*>(vp); {se}; }};")
            s.append("      c.rows.push_back(r); }")
        s.append("    classes.push_back(c); }")
    s.append(r'''}

int main() {
    register_classes();
    const ClassDef* cur = 0;
    Obj cobj;
    bytes mask;
    auto state = [&](const std::string& res) -> std::string {
        std::string out = "r=" + res + " get=";
        for (size_t i = 0; i < cur->rows.size(); ++i) { if (i) out += ","; out += guarded_get(cur->rows[i], cobj.obj); }
        bytes img(cur->len);
        cur->image(cobj.obj, img.data());
        out += " hdr=" + hexs(img.data(), img.size()) + " ser=";
        try {
            bytes ser; size_t off = 0;
            if (!cobj.ser) { ser = img; }                     // parse-only class: the image stands for the serialisation
            else cobj.ser(ser, off);
            if (ser.size() < off + cur->len) out += "short";
            else { for (size_t i = 0; i < cur->len; ++i) ser[off + i] &= uint8_t(~mask[i]); out += hexs(ser.data() + off, cur->len); }
        } catch (const std::exception& e) { out += "!" + exc_name(e); }
        return out;
    };
    return line_loop([&](const std::string& line) -> std::string {
        auto w = words(line);
        if (w.size() >= 4 && w[0] == "init") {
            cur = 0;
            for (auto& c : classes) if (c.name == w[1]) cur = &c;
            bytes img;
            if (!cur || !parse_hex(w[2], img) || !parse_hex(w[3], mask) || img.size() != cur->len || mask.size() != cur->len) { cur = 0; return "bad-op"; }
            cobj = cur->make();
            cur->load(cobj.obj, img.data());
            return state("init");
        }
        if (w.size() >= 3 && w[0] == "set" && cur) {
            const RowDef* r = 0;
            for (auto& x : cur->rows) if (x.name == w[1]) r = &x;
            if (!r || !r->set) return "bad-op";
            Val v;
            if (w[2][0] == 'x') { v.is_bytes = true; if (!parse_hex(w[2].substr(1), v.b)) return "bad-op"; }
            else v.n = std::stoull(w[2]);
            std::string res = "ok";
            try { r->set(cobj.obj, v); }
            catch (const Tins::value_too_large&) { res = "value_too_large"; }
            catch (const DomainError&) { res = "domain"; }
            catch (const std::exception& e) { res = "throw:" + exc_name(e); }
            return state(res);
        }
        return "bad-op";
    });
}
''')
    return "\n".join(s)


def write_if_changed(path, content):
    os.makedirs(os.path.dirname(path), exist_ok=True)
    if os.path.exists(path) and open(path).read() == content:
        return False
    open(path + ".tmp", "w").write(content)
    os.rename(path + ".tmp", path)
    return True


# ----------------------------------------------------------------------------------------------- coverage statistics
SCALAR_T = (r"(?:const\s+)?(?:u?int(?:8|16|32|64)_t|bool|small_uint<\s*\d+\s*>|\w*address_type|HWAddress<\s*\w+\s*>|IPv4Address|IPv6Address|"
            r"bpdu_id_type)\s*&?|const\s+uint8_t\s*\*")
# a pair is not a header field when its setter stores the value in an option / tag / list, or outside the header
OPTION_CALLS = re.compile(r"add_option|add_tagged_option|internal_add_option|add_tag\b|add_pdu_option|search_option|options_|"
                          r"Utils::|writer\.|option\(")
NOT_HEADER = {("RTP", "padding_size"): "trailer length, not a header field",
              ("Dot1Q", "append_padding"): "serialisation option (pad the frame to 60 bytes), not a header field",
              ("LLC", "type"): "selects the control field format (changes the shape of the header); the getter reads a cached member"}


def scan_headers():
    """every public (setter, getter) pair with a scalar parameter of every class below include/tins, from the headers:
    list of dict(cls, name, bases, why_excluded or None)"""
    inc = os.path.join(REPO, "include", "tins")
    files = sorted(os.path.join(dp, f) for dp, _, fs in os.walk(inc) for f in fs if f.endswith(".h"))
    srcs = {}
    for dp, _, fs in os.walk(os.path.join(REPO, "src")):
        for f in fs:
            if f.endswith(".cpp"):
                srcs[os.path.join(dp, f)] = strip_comments(open(os.path.join(dp, f)).read())
    bases, bodies, where = {}, {}, {}
    for path in files:
        txt = strip_comments(open(path).read())
        for m in re.finditer(r"\bclass\s+(?:TINS_API\s+)?(\w+)\s*(?::\s*public\s+([\w:]+))?\s*\{", txt):
            i, depth = m.end(), 1
            while depth and i < len(txt):
                depth += {"{": 1, "}": -1}.get(txt[i], 0)
                i += 1
            bodies[m.group(1)] = txt[m.end():i - 1]
            bases[m.group(1)] = (m.group(2) or "").split("::")[-1] or None
            where[m.group(1)] = txt
    # remove nested class bodies from their parents
    for c, b in list(bodies.items()):
        for c2, b2 in bodies.items():
            if c2 != c and b2 in b and len(b2) < len(b):
                bodies[c] = bodies[c].replace(b2, " ")

    def chain(c):
        out = []
        while c:
            out.append(c)
            c = bases.get(c)
        return out

    pairs = []
    for c in sorted(bodies):
        body = le_branch(bodies[c])
        enums = set(re.findall(r"\benum\s+(\w+)\s*\{", body))
        ptype = SCALAR_T + ("|(?:" + "|".join(sorted(enums)) + r")\b" if enums else "")
        setters = {}
        for m in re.finditer(r"\bvoid\s+(\w+)\s*\(\s*((?:" + ptype + r"))\s*(\w+)?\s*\)\s*[;{]", body):
            setters.setdefault(m.group(1), m.group(2))
        getters = set(m.group(1) for m in re.finditer(r"[\w:<>]+\s*[&*]?\s+(\w+)\s*\(\s*\)\s*(?:const)?\s*[;{]", body))
        getters |= set(m.group(1) for m in re.finditer(r"[\w:<>]+\s*[&*]\s*(\w+)\s*\(\s*\)\s*(?:const)?\s*[;{]", body))
        is_pdu = "PDU" in chain(c)
        for name in sorted(setters):
            if name not in getters:
                continue
            why = None
            if (c, name) in NOT_HEADER:
                why = NOT_HEADER[(c, name)]
            elif not (is_pdu or c in ("ICMPExtension", "ICMPExtensionsStructure", "capability_information")):
                why = "not a protocol header class"
            else:
                sb, _ = find_function1([where[c]] + list(srcs.values()), c, name, True)
                if sb is None:
                    why = None
                elif OPTION_CALLS.search(sb):
                    why = "stored in an option / tag, not in the header"
            pairs.append(dict(cls=c, name=name, chain=chain(c), why=why))
    return pairs, bases


def coverage_stats(tables):
    pairs, bases = scan_headers()

    def derives(t, c):
        while t:
            if t == c:
                return True
            t = bases.get(t)
        return False
    covered = set()
    for cname, t in tables.items():
        conf = t["conf"]
        ctype = conf["type"].split("::")[-1]
        for r in t["rows"]:
            f = r["fld"]
            if f in conf["sub"]:
                covered.add((conf["sub"][f][1], conf["sub"][f][4]))
                continue
            for nm in set(conf["names"].get(f, (f, f))) | ({f} if f not in conf["exprs"] else set()):
                for p in pairs:
                    if p["name"] == nm and derives(ctype, p["cls"]):
                        covered.add((p["cls"], nm))
            if f in conf["exprs"]:
                for nm in re.findall(r"o\.(\w+)\(", " ".join(conf["exprs"][f])) + re.findall(r"&T::(\w+)", " ".join(conf["exprs"][f])):
                    for p in pairs:
                        if p["name"] == nm and derives(ctype, p["cls"]):
                            covered.add((p["cls"], nm))
    header_pairs = [p for p in pairs if p["why"] is None]
    cov = [p for p in header_pairs if (p["cls"], p["name"]) in covered]
    unc = [p for p in header_pairs if (p["cls"], p["name"]) not in covered]
    cls_all = sorted({p["cls"] for p in header_pairs})
    cls_cov = sorted({p["cls"] for p in header_pairs if all((q["cls"], q["name"]) in covered for q in header_pairs if q["cls"] == p["cls"])})
    return dict(pairs_total=len(header_pairs), pairs_covered=len(cov),
                pairs_uncovered=sorted(f"{p['cls']}::{p['name']}" for p in unc),
                classes_with_pairs=cls_all, classes_fully_covered=cls_cov,
                excluded=sorted(f"{p['cls']}::{p['name']} ({p['why']})" for p in pairs if p["why"]))


def generate():
    """returns dict(classes, rows, simple, custom, args, defaults, ...)"""
    classes, rows, tables = build_tables()
    pr = run_probe(tables)
    for cname, t in tables.items():
        tot = sum(pr["size"][(cname, i)][1] for i in range(len(t["conf"]["image"])))
        t["sizeof"] = tot
    lean, simple, custom, args = lean_tables(classes, rows, tables, pr)
    write_if_changed(GEN_LEAN, lean)
    write_if_changed(GEN_HARNESS, harness_source(classes, rows, tables))
    # rows whose accessor code is the one already exercised at full strength in an earlier class (inherited accessors,
    # variants of one C++ class): the generators sample them lightly
    seen, light = set(), set()
    for cname in sorted(tables, key=lambda c: (len(tables[c]["conf"]["bases"]), len(tables[c]["conf"]["image"]), c)):
        t = tables[cname]
        for r in t["rows"]:
            key = (t["found_in"].get(r["fld"]) or t["conf"]["type"], t["conf"]["names"].get(r["fld"], (r["fld"],))[0], r["off"], r["width"])
            if key in seen:
                light.add((cname, r["fld"]))
            seen.add(key)
    return dict(classes=classes, rows=rows, simple=simple, custom=custom, args=args, defaults=pr["default"],
                sizeof={c: t["sizeof"] for c, t in tables.items()}, light=light,
                fix={c: t["conf"]["fix"] for c, t in tables.items()}, avoid={c: t["conf"]["avoid"] for c, t in tables.items()},
                cpp_type={c: t["conf"]["type"] for c, t in tables.items()}, stats=coverage_stats(tables))


def main(argv):
    g = generate()
    st = g["stats"]
    print(f"C15 translator: {len(g['classes'])} classes, {len(g['rows'])} rows, {len(g['simple'])} simple accessors, "
          f"{len(g['custom'])} custom: " + ", ".join(f"{c}.{f}" for c, f, _ in g["custom"]))
    print(f"  header-field accessor pairs found in include/tins: {st['pairs_total']}, covered by Spec rows: {st['pairs_covered']}; "
          f"classes with pairs: {len(st['classes_with_pairs'])}, fully covered: {len(st['classes_fully_covered'])}")
    if st["pairs_uncovered"]:
        print("  uncovered: " + ", ".join(st["pairs_uncovered"]))
    if "-v" in argv:
        print("  excluded: " + "; ".join(st["excluded"]))
    return 0


if __name__ == "__main__":
    sys.exit(main(sys.argv[1:]))
