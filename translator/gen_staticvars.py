#!/usr/bin/env python3
"""gen_staticvars.py — regenerates lean/TinsModel/Gen/StaticVars.lean and lean/TinsModel/Gen/ExternCalls.lean (C18).

Source of truth (nothing is guessed; what cannot be accounted for is emitted into `unparsed`, and the
`decide` theorems of Props/C18 then fail — fail closed):

 1. clang-14 JSON AST (`-Xclang -ast-dump=json -Xclang -ast-dump-filter=Tins`) of every src/**/*.cpp of the repo's
    working tree, compiled like the library (all features, `-DTINS_VERIF_HOOKS`):
      * every VarDecl with static or thread storage duration (namespace scope, static data member, function-local
        `static`, `thread_local`), its type, top-level const-ness, initialiser kind, file;
      * every reference to such a variable (DeclRefExpr / MemberExpr), classified by walking up the expression:
        a use is a *read* only when that is syntactically certain (lvalue-to-rvalue load, subscript/field
        projection that ends in a load, call of a const or whitelisted non-mutating member, binding to a const
        reference, unevaluated operand).  Everything else (assignment, ++, non-const member call, operator[] of a
        class type, address-of, binding to a non-const reference/pointer, anything unknown) is a *write site*
        attributed to the enclosing function.
 2. `nm` over the compiled library (the TSan build the check runs anyway): every symbol in a data/bss/rodata/unique
    section must be accounted for by a row of (1) — a static the AST scan did not see (outside namespace Tins, behind
    a macro the filter hides, …) lands in `unparsed`.  Undefined symbols per object file give the external calls.
 3. the `#ifdef TINS_VERIF_HOOKS` line ranges of each file (variables declared inside are `hookOnly`).

Usage: gen_staticvars.py [--repo DIR] [--lib libtins_verif.a] [--out-dir lean/TinsModel/Gen] [--json cache.json]
"""
import argparse, glob, hashlib, json, os, re, subprocess, sys
from concurrent.futures import ProcessPoolExecutor

HERE = os.path.dirname(os.path.abspath(__file__))
VERIF = os.path.dirname(HERE)
GUARD = "TINS_VERIF_HOOKS"

# member functions of standard containers / atomics that do not modify the object even when the non-const overload
# is selected (the object expression is a non-const lvalue)
NONMUTATING = {"find", "count", "begin", "end", "cbegin", "cend", "rbegin", "rend", "size", "empty", "at",
               "lower_bound", "upper_bound", "equal_range", "load", "data", "c_str", "length", "front", "back",
               "max_size", "capacity", "key_comp", "get"}

FUNC_KINDS = {"FunctionDecl", "CXXMethodDecl", "CXXConstructorDecl", "CXXDestructorDecl", "CXXConversionDecl"}
CTX_KINDS = {"NamespaceDecl", "CXXRecordDecl", "ClassTemplateSpecializationDecl",
             "ClassTemplatePartialSpecializationDecl", "EnumDecl"} | FUNC_KINDS


# ------------------------------------------------------------------------------------------- clang AST of one TU

def clang_ast(repo, src):
    cmd = ["clang++-14", "-std=c++11", f"-D{GUARD}", "-I" + os.path.join(repo, "include"), "-w", "-fsyntax-only",
           "-Xclang", "-ast-dump=json", "-Xclang", "-ast-dump-filter=Tins", src]
    r = subprocess.run(cmd, stdout=subprocess.PIPE, stderr=subprocess.PIPE, text=True)
    if r.returncode != 0:
        return None, r.stderr[-2000:]
    dec = json.JSONDecoder()
    s, i, objs = r.stdout, 0, []
    n = len(s)
    while i < n:
        while i < n and s[i].isspace():
            i += 1
        if i >= n:
            break
        try:
            o, i = dec.raw_decode(s, i)
        except json.JSONDecodeError as e:
            return None, f"AST JSON of {src} not decodable at {i}: {e}"
        objs.append(o)
    return objs, None


def top_const(qt):
    """Top-level const-ness of a (desugared) type spelling.  Arrays: const-ness of the element type.
    Returns True only when certain."""
    t = qt.strip()
    t = re.sub(r"(\s*\[[^\]]*\])+$", "", t).strip()         # array extents
    if t.endswith("&"):
        return False                                        # a reference variable: judged by its referent, not here
    if "*" in t or "(" in t:
        tail = t[t.rfind("*") + 1:] if "(" not in t else ""
        return tail.strip() == "const"                      # `T *const`; function pointers etc.: not const
    return t.startswith("const ") or t.endswith(" const")


def is_const_ref_or_value(qt):
    """type of a parameter / variable a static is bound to: safe iff by value, or reference/pointer to const"""
    t = qt.strip()
    if t.endswith("&&"):
        return False
    if t.endswith("&"):
        return top_const(t[:-1])
    if t.endswith("*") or t.endswith("*const"):
        base = t[:t.rfind("*")]
        return top_const(base)
    return True   # by value (copy)


class TU:
    """Walk of one translation unit."""

    def __init__(self, repo, src):
        self.repo, self.src = repo, src
        self.ctx = {}          # decl id -> (qualified name, kind)
        self.vars = {}         # var decl id -> row dict
        self.uses = []         # (var id, enclosing function qname, classification, file:line, detail)
        self.cur_file = src
        self.cur_line = 0
        self.problems = []
        self.mutable_records = set()   # qualified names of records with a `mutable` field

    # -- location tracking (clang emits file/line only when they change)
    def note_loc(self, n):
        for key in ("loc",):
            l = n.get(key)
            if isinstance(l, dict):
                l = l.get("expansionLoc", l)
                if "file" in l:
                    self.cur_file = l["file"]
                if "line" in l:
                    self.cur_line = l["line"]
        rg = n.get("range", {}).get("begin")
        if isinstance(rg, dict):
            rg = rg.get("expansionLoc", rg)
            if "file" in rg:
                self.cur_file = rg["file"]
            if "line" in rg:
                self.cur_line = rg["line"]

    def rel(self, f):
        f = os.path.normpath(f if os.path.isabs(f) else os.path.join(self.repo, f))
        rp = os.path.relpath(f, self.repo)
        return rp

    # -- pass 1: contexts and variables
    def pass1(self, n, path, qual):
        if not isinstance(n, dict):
            return
        k = n.get("kind")
        self.note_loc(n)
        q = qual
        if k in CTX_KINDS or k in ("ClassTemplateDecl", "FunctionTemplateDecl"):
            name = n.get("name")
            if k in ("ClassTemplateDecl", "FunctionTemplateDecl"):
                q = qual                      # the templated decl inside carries the name
            else:
                base = qual
                pid = n.get("parentDeclContextId")
                if pid and pid in self.ctx:
                    base = self.ctx[pid][0]
                if name is None:
                    name = "(anonymous)" if k == "NamespaceDecl" else "(unnamed)"
                q = (base + "::" if base else "") + name
                self.ctx.setdefault(n["id"], (q, k))
                prev = n.get("previousDecl")
                if prev:
                    self.ctx.setdefault(prev, (q, k))
        if k == "FieldDecl" and n.get("mutable"):
            self.mutable_records.add(qual)
        if k == "VarDecl":
            in_func = any(p.get("kind") in FUNC_KINDS or p.get("kind") in ("LambdaExpr", "BlockDecl") for p in path)
            sc = n.get("storageClass")
            tls = n.get("tls")
            static_duration = (not in_func and sc != "register") or sc == "static" or (in_func and sc == "extern") or bool(tls)
            if static_duration:
                base = qual
                pid = n.get("parentDeclContextId")
                if pid and pid in self.ctx:
                    base = self.ctx[pid][0]
                elif pid and pid not in self.ctx:
                    self.problems.append(f"{self.rel(self.cur_file)}:{self.cur_line}: static `{n.get('name')}` has an unknown semantic parent")
                qn = (base + "::" if base else "") + (n.get("name") or "(unnamed)")
                ty = n.get("type", {})
                qt = ty.get("desugaredQualType") or ty.get("qualType") or ""
                has_init = "init" in n
                inner = [c for c in n.get("inner", []) if isinstance(c, dict) and c.get("kind") and not c["kind"].endswith("Attr")]
                self.vars[n["id"]] = dict(
                    qname=qn, mangled=n.get("mangledName"), type=ty.get("qualType", ""), dtype=qt,
                    const=top_const(qt) and not self.has_mutable_hint(qt), tls=bool(tls), local=in_func,
                    file=self.rel(self.cur_file), line=self.cur_line, is_def=(sc != "extern") and (has_init or not self.in_record(path)),
                    has_init=has_init, init_node=inner[0] if (has_init and inner) else None,
                    constexpr=bool(n.get("constexpr")), dependent=("mangledName" not in n))
        for c in n.get("inner", []) or []:
            self.pass1(c, path + [n], q)

    @staticmethod
    def in_record(path):
        return bool(path) and path[-1].get("kind") in ("CXXRecordDecl", "ClassTemplateSpecializationDecl",
                                                       "ClassTemplatePartialSpecializationDecl")

    @staticmethod
    def has_mutable_hint(qt):
        return False   # `mutable` members of const objects are not visible in the type spelling; see trusted base

    # -- pass 2: uses
    def pass2(self, n, path, func):
        if not isinstance(n, dict):
            return
        k = n.get("kind")
        self.note_loc(n)
        f = func
        if k in FUNC_KINDS:
            f = self.ctx.get(n.get("id"), (None,))[0] or ((func + "::" if func else "") + (n.get("name") or "?"))
        if k == "VarDecl" and n.get("id") in self.vars and not self.vars[n["id"]]["local"]:
            f = "(initializer of " + self.vars[n["id"]]["qname"] + ")"
        ref = None
        if k == "DeclRefExpr":
            ref = n.get("referencedDecl", {}).get("id")
        elif k == "MemberExpr":
            ref = n.get("referencedMemberDecl")
        if ref and ref in self.vars:
            cls, detail = self.classify(n, path)
            self.uses.append((ref, f or "(file scope)", cls, f"{self.rel(self.cur_file)}:{self.cur_line}", detail))
        for c in n.get("inner", []) or []:
            self.pass2(c, path + [n], f)

    def classify(self, node, path):
        """'read' only when certain; otherwise 'write' (assignment-like) or 'escape' (alias may be written) or 'unknown'."""
        cur = node
        for parent in reversed(path):
            k = parent.get("kind")
            inner = [c for c in parent.get("inner", []) if isinstance(c, dict)]
            if k in ("ParenExpr", "ExprWithCleanups", "MaterializeTemporaryExpr", "CXXBindTemporaryExpr",
                     "ConstantExpr", "CXXFunctionalCastExpr", "SubstNonTypeTemplateParmExpr"):
                cur = parent
                continue
            if k == "UnaryExprOrTypeTraitExpr" or k == "CXXNoexceptExpr" or k == "CXXTypeidExpr":
                return "read", "unevaluated operand"
            if k == "ImplicitCastExpr" or k == "CStyleCastExpr" or k == "CXXStaticCastExpr":
                ck = parent.get("castKind")
                if ck == "LValueToRValue":
                    return "read", "load"
                if ck == "ArrayToPointerDecay":
                    cur = parent
                    continue
                if ck in ("NoOp", "DerivedToBase", "UncheckedDerivedToBase"):
                    qt = parent.get("type", {}).get("desugaredQualType") or parent.get("type", {}).get("qualType", "")
                    if ck == "NoOp" and k == "ImplicitCastExpr" and top_const(qt) and "*" not in qt:
                        return "read", "viewed as const"
                    cur = parent
                    continue
                return "unknown", f"cast {ck}"
            if k == "CXXConstCastExpr" or k == "CXXReinterpretCastExpr":
                return "escape", k
            if k == "ArraySubscriptExpr":
                cur = parent
                continue
            if k == "MemberExpr":
                # `cur` is the object expression of a member access
                mty = parent.get("type", {}).get("qualType", "")
                if "bound member function" in mty or "(" in mty and ")" in mty and not mty.endswith("]"):
                    name = parent.get("name", "")
                    fty = mty
                    # clang prints `<bound member function type>`; const-ness comes from the referenced decl when present
                    if name in NONMUTATING:
                        return "read", f"call of non-mutating member {name}"
                    return "write", f"call of member {name}"
                cur = parent
                continue
            if k in ("CXXDependentScopeMemberExpr", "UnresolvedMemberExpr"):
                name = parent.get("member") or parent.get("name") or ""
                if name in NONMUTATING:
                    return "read", f"call of non-mutating member {name} (dependent)"
                return "write", f"dependent member {name}"
            if k == "UnaryOperator":
                op = parent.get("opcode")
                if op == "*":
                    cur = parent
                    continue
                if op in ("++", "--"):
                    return "write", op
                if op == "&":
                    return "escape", "address taken"
                if op in ("!", "-", "+", "~"):
                    return "read", op
                return "unknown", f"unary {op}"
            if k in ("BinaryOperator", "CompoundAssignOperator"):
                op = parent.get("opcode", "")
                if k == "CompoundAssignOperator" or op == "=":
                    if inner and inner[0] is cur:
                        return "write", op
                    return "unknown", f"rhs of {op} without load"
                if op in ("+", "-") and cur.get("kind") == "ImplicitCastExpr":   # pointer arithmetic on a decayed array
                    cur = parent
                    continue
                if op == ",":
                    cur = parent
                    continue
                return "unknown", f"binary {op}"
            if k == "CXXOperatorCallExpr":
                # inner[0] is the callee (operator), the rest are operands
                callee = inner[0] if inner else {}
                opname = ""
                stack = [callee]
                while stack:
                    x = stack.pop()
                    if x.get("kind") == "DeclRefExpr":
                        opname = x.get("referencedDecl", {}).get("name", "")
                        fty = x.get("referencedDecl", {}).get("type", {}).get("qualType", "")
                        break
                    stack += [c for c in x.get("inner", []) if isinstance(c, dict)]
                if cur is callee:
                    return "unknown", "static used as an operator callee"
                if opname in ("operator==", "operator!=", "operator<", "operator<=", "operator>", "operator>=", "operator<<") \
                        and len(inner) >= 2 and inner[1] is not cur:
                    return "unknown", f"{opname} operand"
                if opname and fty.rstrip().endswith("const"):
                    return "read", f"const {opname}"
                return "write", opname or "operator call"
            if k in ("CallExpr", "CXXMemberCallExpr", "CXXConstructExpr", "CXXTemporaryObjectExpr", "InitListExpr",
                     "CXXUnresolvedConstructExpr", "ReturnStmt", "VarDecl", "FieldDecl", "CXXNewExpr", "LambdaExpr",
                     "ConditionalOperator"):
                return "escape", f"bound without a load in {k}"
            if k in ("CompoundStmt", "IfStmt", "ForStmt", "WhileStmt", "DoStmt", "SwitchStmt", "CaseStmt",
                     "DefaultStmt", "CXXForRangeStmt"):
                if k == "CXXForRangeStmt":
                    return "escape", "range-for over the static"
                return "read", "discarded value"
            return "unknown", f"parent {k}"
        return "unknown", "no parent"


def scan_tu(args):
    repo, src = args
    objs, err = clang_ast(repo, src)
    if objs is None:
        return dict(src=src, error=err)
    tu = TU(repo, src)
    for o in objs:
        tu.cur_file = src
        tu.pass1(o, [], "")
    for o in objs:
        tu.cur_file = src
        tu.pass2(o, [], None)
    # constant-initialiser check: an initialiser made only of literals / init lists / implicit casts
    def literal_only(n):
        if n is None:
            return True
        k = n.get("kind")
        if k in ("IntegerLiteral", "CharacterLiteral", "FloatingLiteral", "StringLiteral", "CXXBoolLiteralExpr",
                 "CXXNullPtrLiteralExpr", "ImplicitValueInitExpr", "GNUNullExpr"):
            return True
        if k in ("InitListExpr", "ImplicitCastExpr", "ParenExpr", "UnaryOperator", "BinaryOperator", "ConstantExpr",
                 "CStyleCastExpr", "CXXStaticCastExpr", "CXXFunctionalCastExpr", "UnaryExprOrTypeTraitExpr",
                 "SubstNonTypeTemplateParmExpr"):
            return all(literal_only(c) for c in n.get("inner", []) if isinstance(c, dict))
        if k == "DeclRefExpr":
            rk = n.get("referencedDecl", {}).get("kind")
            return rk in ("EnumConstantDecl", "NonTypeTemplateParmDecl")
        return False

    def literal_values(n, out):
        if n.get("kind") == "IntegerLiteral":
            out.append(int(n.get("value", "0")))
        for c in n.get("inner", []) or []:
            if isinstance(c, dict):
                literal_values(c, out)

    rows = {}
    for vid, v in tu.vars.items():
        r = dict(v)
        node = r.pop("init_node")
        r["const_init"] = (not r["has_init"] and not r["is_def"]) or literal_only(node) if r["has_init"] else None
        vals = []
        if node is not None and r["qname"].endswith("crc_table"):
            literal_values(node, vals)
        r["values"] = vals
        rows[vid] = r
    return dict(src=src, vars=rows, uses=tu.uses, problems=tu.problems, mutable=sorted(tu.mutable_records))


# ------------------------------------------------------------------------------------------- guard ranges

def guarded_ranges(path):
    """line ranges (1-based, inclusive) inside `#ifdef TINS_VERIF_HOOKS` / `#if defined(TINS_VERIF_HOOKS)`"""
    out, stack = [], []
    try:
        lines = open(path, errors="replace").read().split("\n")
    except OSError:
        return out
    for i, l in enumerate(lines, 1):
        s = l.strip()
        m = re.match(r"#\s*(ifdef|ifndef|if|elif|else|endif)\b(.*)", s)
        if not m:
            continue
        d, rest = m.group(1), m.group(2)
        if d in ("ifdef", "ifndef", "if"):
            on = (d == "ifdef" and rest.strip().split()[0:1] == [GUARD]) or \
                 (d == "if" and re.fullmatch(r"\s*defined\s*\(?\s*" + GUARD + r"\s*\)?\s*", rest or "") is not None)
            stack.append([on, i])
        elif d in ("else", "elif"):
            if stack:
                on, st = stack[-1]
                if on:
                    out.append((st, i))
                stack[-1] = [False, i]
        elif d == "endif":
            if stack:
                on, st = stack.pop()
                if on:
                    out.append((st, i))
    return out


# ------------------------------------------------------------------------------------------- nm

DATA_SECTIONS = set("bBdDrRuGgsS")      # bss, data, rodata, unique-global, small-object sections
IGNORED_SYMBOL = re.compile(r"^(_ZTS|_ZTI|_ZTV|_ZTT|_ZGV|_ZGR|\.LC|__tsan_|__asan_|__ubsan_|_ZStL8__ioinit$|_ZStL19piecewise_construct$|"
                            r"_ZN9__gnu_cxx|__dso_handle|_ZNSt|_ZSt|__odr_asan)")
RUNTIME_UNDEF = re.compile(r"^(__tsan_|__asan_|__ubsan_|__sanitizer_|_Unwind_|__gxx_personality|__cxa_|__dso_handle|_GLOBAL_OFFSET_TABLE_|"
                           r"__stack_chk_fail|_ZTV|_ZTI|_ZTS|_ZTT|_ITM_|__gcc_|__dynamic_cast|__cxa)")


def nm_library(lib):
    """(data symbols: {mangled: section letter}, undefined: {object file: sorted symbols}, thread-local: set)"""
    r = subprocess.run(["nm", "-A", lib], stdout=subprocess.PIPE, stderr=subprocess.PIPE, text=True)
    if r.returncode != 0:
        raise RuntimeError("nm failed: " + r.stderr[-500:])
    data, undef = {}, {}
    for line in r.stdout.split("\n"):
        m = re.match(r"^[^:]*:([^:]+):\s*([0-9a-fA-F]*)\s+(\S)\s+(\S+)$", line)
        if not m:
            continue
        obj, sec, sym = m.group(1), m.group(3), m.group(4)
        obj = re.sub(r"^[0-9a-f]{8}_", "", obj)
        if sec == "U":
            if not RUNTIME_UNDEF.match(sym):
                undef.setdefault(obj, set()).add(sym)
        elif sec in DATA_SECTIONS:
            if not IGNORED_SYMBOL.match(sym):
                data[sym] = sec
    return data, {k: sorted(v) for k, v in undef.items()}


def demangle(names):
    if not names:
        return {}
    r = subprocess.run(["c++filt"], input="\n".join(names) + "\n", stdout=subprocess.PIPE, text=True)
    return dict(zip(names, r.stdout.split("\n")))


def strip_targs(s):
    """drop template argument lists and function parameter lists: Tins::A<x>::f(int)::v -> Tins::A::f::v"""
    for a, b in (("operator<<=", "operator\x01shl="), ("operator>>=", "operator\x01shr="), ("operator<<", "operator\x01shl"),
                 ("operator>>", "operator\x01shr"), ("operator->", "operator\x01arrow"), ("operator<=", "operator\x01le"),
                 ("operator>=", "operator\x01ge"), ("operator<", "operator\x01lt"), ("operator>", "operator\x01gt"),
                 ("operator()", "operator\x01call")):
        s = s.replace(a, b)
    out, depth_a, depth_p = [], 0, 0
    for ch in s:
        if ch == "<":
            depth_a += 1
        elif ch == ">":
            depth_a -= 1
        elif ch == "(" and depth_a == 0:
            depth_p += 1
        elif ch == ")" and depth_a == 0:
            depth_p -= 1
        elif depth_a == 0 and depth_p == 0:
            out.append(ch)
    t = "".join(out).replace("\x01", "_")
    t = re.sub(r"\s*\[clone [^\]]*\]", "", t)
    t = re.sub(r"\s+const\b", "", t)
    return t.strip()


# ------------------------------------------------------------------------------------------- merge + emit

def lean_str(s):
    return '"' + s.replace("\\", "\\\\").replace('"', '\\"') + '"'


def lean_list(xs):
    return "[" + ", ".join(xs) + "]"


def collect(repo, lib, jobs=6):
    srcs = sorted(glob.glob(os.path.join(repo, "src", "**", "*.cpp"), recursive=True))
    with ProcessPoolExecutor(jobs) as ex:
        results = list(ex.map(scan_tu, [(repo, s) for s in srcs]))
    unparsed = []
    merged = {}     # qname -> row
    mutable_records = set()
    for res in results:
        mutable_records |= set(res.get("mutable", []))
    for res in results:
        if "error" in res:
            unparsed.append(f"clang could not parse {os.path.relpath(res['src'], repo)}: {res['error'].strip().splitlines()[-1] if res['error'].strip() else '?'}")
            continue
        for p in res["problems"]:
            unparsed.append(p)
        idq = {}
        for vid, v in res["vars"].items():
            q = v["qname"]
            idq[vid] = q
            m = merged.setdefault(q, dict(qname=q, mangled=set(), types=set(), const=True, tls=False, local=v["local"],
                                          decl_files=set(), def_file=None, def_line=0, const_init=None, has_def=False,
                                          uses=set(), values=[]))
            if v["mangled"]:
                m["mangled"].add(v["mangled"])
            m["types"].add(v["type"])
            m["const"] = m["const"] and v["const"]
            m["tls"] = m["tls"] or v["tls"]
            m["decl_files"].add((v["file"], v["line"]))
            if v["is_def"] or v["has_init"]:
                if v["has_init"] or not m["has_def"]:
                    m["def_file"], m["def_line"] = v["file"], v["line"]
                m["has_def"] = True
                if v["has_init"]:
                    ci = bool(v["const_init"])
                    m["const_init"] = ci if m["const_init"] is None else (m["const_init"] and ci)
            if v["values"]:
                m["values"] = v["values"]
        for vid, fn, cls, where, detail in res["uses"]:
            merged[idq[vid]]["uses"].add((fn, cls, where, detail))
    # a const object of a class with `mutable` members is not read-only
    for m in merged.values():
        for rec in mutable_records:
            short = rec.split("::")[-1]
            if any(re.search(r"\b" + re.escape(short) + r"\b", t) for t in m["types"]):
                m["const"] = False
    # hook-only: every declaration lies inside a guarded region
    ranges = {}
    for m in merged.values():
        hook = True
        for f, line in m["decl_files"]:
            if f not in ranges:
                ranges[f] = guarded_ranges(os.path.join(repo, f))
            if not any(a <= line <= b for a, b in ranges[f]):
                hook = False
        m["hook"] = hook and bool(m["decl_files"])
    # nm cross-check
    data, undef = nm_library(lib)
    dem = demangle(sorted(data))
    known_mangled = {mg: q for q, m in merged.items() for mg in m["mangled"]}
    by_stripped = {}
    for q in merged:
        by_stripped.setdefault(strip_targs(q), q)
    for sym in sorted(data):
        q = known_mangled.get(sym)
        if q is None:
            q = by_stripped.get(strip_targs(dem.get(sym, sym)))
        if q is None:
            unparsed.append(f"symbol in the compiled library not found by the AST scan: {dem.get(sym, sym)} [{data[sym]}]")
            continue
        merged[q].setdefault("sections", set()).add(data[sym])
    return merged, undef, sorted(set(unparsed)), srcs


def render(repo, merged, undef, unparsed):
    rows = []
    crc_vals = []
    for q in sorted(merged):
        m = merged[q]
        if q.endswith("::crc_table"):
            crc_vals = m["values"]
        # through a const object every access is a read unless const is cast away (mutable members: handled above)
        def is_write(cls, detail):
            if m["const"]:
                return cls == "escape" and detail in ("CXXConstCastExpr", "CXXReinterpretCastExpr")
            return cls != "read"
        writes = sorted({fn for fn, cls, _, detail in m["uses"] if is_write(cls, detail)})
        wdetail = sorted({f"{fn} @ {where}: {cls} ({detail})" for fn, cls, where, detail in m["uses"] if is_write(cls, detail)})
        reads = len({(fn, where) for fn, cls, where, detail in m["uses"] if not is_write(cls, detail)})
        ty = sorted(m["types"])[0] if m["types"] else ""
        atomic = any("atomic" in t for t in m["types"])
        f = m["def_file"] or (sorted(m["decl_files"])[0][0] if m["decl_files"] else "?")
        secs = "".join(sorted(m.get("sections", set())))
        rows.append(dict(name=q, file=f, type=ty, isConst=m["const"], threadLocal=m["tls"], funcLocal=m["local"],
                         constInit=bool(m["const_init"]) if m["const_init"] is not None else (not m["has_def"]),
                         hookOnly=m["hook"], atomic=atomic, sections=secs, writeSites=writes, readSites=reads,
                         wdetail=wdetail))
    L = []
    L.append("/- GENERATED by translator/gen_staticvars.py from the repo's working tree — do not edit.")
    L.append("   Every variable with static or thread storage duration declared in namespace Tins (clang-14 AST of all")
    L.append("   src/**/*.cpp, hooks on), cross-checked against the data symbols of the compiled library (nm). -/")
    L.append("namespace Tins.Gen.StaticVars")
    L.append("")
    L.append("structure StaticVar where")
    L.append("  name : String          -- qualified name (template arguments dropped)")
    L.append("  file : String          -- file of the definition")
    L.append("  type : String")
    L.append("  isConst : Bool         -- top-level const (arrays: const elements) in every declaration")
    L.append("  threadLocal : Bool")
    L.append("  funcLocal : Bool       -- function-local `static`")
    L.append("  constInit : Bool       -- initialiser consists of literals only (no dynamic / lazy initialisation)")
    L.append("  hookOnly : Bool        -- declared only inside `#ifdef TINS_VERIF_HOOKS`")
    L.append("  atomic : Bool          -- std::atomic<…>")
    L.append("  sections : String      -- nm section letters of the symbol in the compiled library (\"\" = no symbol emitted)")
    L.append("  writeSites : List String   -- functions containing a use that is not certainly a read")
    L.append("  readSites : Nat")
    L.append("  deriving Repr, DecidableEq")
    L.append("")
    L.append("def all : List StaticVar := [")
    for i, r in enumerate(rows):
        b = lambda x: "true" if x else "false"
        for d in r["wdetail"]:
            L.append("  -- write site: " + d.replace("\n", " "))
        L.append("  { name := %s, file := %s, type := %s,\n    isConst := %s, threadLocal := %s, funcLocal := %s, constInit := %s, hookOnly := %s, atomic := %s,\n"
                 "    sections := %s, writeSites := %s, readSites := %d }%s" % (
                     lean_str(r["name"]), lean_str(r["file"]), lean_str(r["type"]), b(r["isConst"]), b(r["threadLocal"]),
                     b(r["funcLocal"]), b(r["constInit"]), b(r["hookOnly"]), b(r["atomic"]), lean_str(r["sections"]),
                     lean_list([lean_str(w) for w in r["writeSites"]]), r["readSites"], "," if i + 1 < len(rows) else ""))
    L.append("]")
    L.append("")
    L.append("/-- what the scan could not account for (must be empty for the `decide` theorems of Props/C18 to hold) -/")
    L.append("def unparsed : List String := " + lean_list([lean_str(u[:300]) for u in unparsed]))
    L.append("")
    L.append("/-- initialiser of `Tins::Utils::crc32::crc_table` (the one non-const static on the property paths) -/")
    L.append("def crcTableInit : List Nat := " + lean_list([str(v) for v in crc_vals]))
    L.append("")
    L.append("end Tins.Gen.StaticVars")
    sv = "\n".join(L) + "\n"

    E = []
    E.append("/- GENERATED by translator/gen_staticvars.py — undefined (external) symbols of every object file of the")
    E.append("   compiled library, demangled, sanitizer/unwinder/C++-runtime support symbols dropped; operator new/delete and")
    E.append("   libstdc++ out-of-line members are kept (they are listed in the MT-safe table of Props/C18). -/")
    E.append("namespace Tins.Gen.ExternCalls")
    E.append("")
    allsyms = sorted({s for v in undef.values() for s in v})
    dem = demangle(allsyms)
    # object name inside the archive -> source file (vlib/core.py names objects md5(src)[:8]_<base>.o; nm_library strips the prefix)
    src_of = {}
    for sp in sorted(glob.glob(os.path.join(repo, "src", "**", "*.cpp"), recursive=True)):
        src_of.setdefault(os.path.basename(sp)[:-4] + ".o", []).append(os.path.relpath(sp, repo))
    E.append("/-- (source file, C-linkage external callees, C++ runtime (libstdc++/libsupc++) external callees) -/")
    E.append("def perFile : List (String × List String × List String) := [")
    objs = sorted(undef)
    ents = []
    for o in objs:
        names = sorted({short_extern(dem.get(s, s)) for s in undef[o]} - {""})
        cxx = [n for n in names if n.startswith("std::") or " std::" in n or n.startswith("operator new") or n.startswith("operator delete")
               or n.startswith("__gnu_cxx::")]
        cc = [n for n in names if n not in cxx]
        srcs_ = src_of.get(o, [])
        key = srcs_[0] if len(srcs_) == 1 else "object:" + o        # ambiguous / unknown object: keeps its own (unlisted) name
        ents.append((key, cc, cxx))
    ents.sort()
    for i, (key, cc, cxx) in enumerate(ents):
        E.append("  (%s, %s,\n     %s)%s" % (lean_str(key), lean_list([lean_str(n) for n in cc]), lean_list([lean_str(n) for n in cxx]),
                                           "," if i + 1 < len(ents) else ""))
    E.append("]")
    E.append("")
    E.append("end Tins.Gen.ExternCalls")
    ec = "\n".join(E) + "\n"
    return sv, ec, rows


def short_extern(d):
    """demangled external symbol -> comparable name: C functions as is; C++ ones without parameter lists;
    symbols of the library itself (Tins::…) are dropped"""
    t = strip_targs(d)
    if t.startswith("Tins::") or " Tins::" in t or t.startswith("vtable for") or t.startswith("typeinfo"):
        return ""
    t = re.sub(r"^(non-virtual thunk to |virtual thunk to )", "", t)
    return t


def write_if_changed(path, text):
    os.makedirs(os.path.dirname(path), exist_ok=True)
    try:
        if open(path).read() == text:
            return False
    except OSError:
        pass
    with open(path + ".tmp", "w") as f:
        f.write(text)
    os.replace(path + ".tmp", path)
    return True


def generate(repo, lib, out_dir, cache_dir=None, key=None, jobs=6):
    """Returns (rows, unparsed, changed files).  With cache_dir+key the rendered text is reused for an unchanged tree."""
    cpath = os.path.join(cache_dir, f"staticvars-{key}.json") if cache_dir and key else None
    blob = None
    if cpath and os.path.exists(cpath):
        try:
            blob = json.load(open(cpath))
        except (OSError, ValueError):
            blob = None
    if blob is None:
        merged, undef, unparsed, srcs = collect(repo, lib, jobs)
        sv, ec, rows = render(repo, merged, undef, unparsed)
        blob = dict(sv=sv, ec=ec, rows=rows, unparsed=unparsed, nsrc=len(srcs))
        if cpath:
            os.makedirs(cache_dir, exist_ok=True)
            for old in glob.glob(os.path.join(cache_dir, "staticvars-*.json")):
                os.remove(old)
            with open(cpath + ".tmp", "w") as f:
                json.dump(blob, f)
            os.replace(cpath + ".tmp", cpath)
    changed = []
    if write_if_changed(os.path.join(out_dir, "StaticVars.lean"), blob["sv"]):
        changed.append("StaticVars.lean")
    if write_if_changed(os.path.join(out_dir, "ExternCalls.lean"), blob["ec"]):
        changed.append("ExternCalls.lean")
    return blob["rows"], blob["unparsed"], changed, blob["nsrc"]


def main(argv=None):
    ap = argparse.ArgumentParser()
    ap.add_argument("--repo", default=os.environ.get("VERIF_REPO", "/repo"))
    ap.add_argument("--lib")
    ap.add_argument("--out-dir", default=os.path.join(VERIF, "lean", "TinsModel", "Gen"))
    ap.add_argument("--jobs", type=int, default=6)
    a = ap.parse_args(argv)
    lib = a.lib
    if not lib:
        sys.path.insert(0, VERIF)
        os.environ["VERIF_REPO"] = a.repo
        from vlib import core
        lib, err = core.build_impl("tsan")
        if lib is None:
            sys.stderr.write(err)
            return 1
    rows, unparsed, changed, nsrc = generate(a.repo, lib, a.out_dir, jobs=a.jobs)
    print(f"{len(rows)} static variables from {nsrc} translation units, {len(unparsed)} unparsed, changed: {changed}")
    for u in unparsed:
        print("  unparsed:", u)
    return 0


if __name__ == "__main__":
    sys.exit(main())
