#!/usr/bin/env python3
"""Translator for C17: regenerates lean/TinsModel/Gen/Capture.lean from the repo's current source.

Everything in the capture model that is a *table* or a *fact about declarations* comes from here:
  * the `switch (iface_type)` of BaseSniffer::next_packet (DLT value -> per-frame handler),
  * the handler used when `extract_raw_` is set,
  * the exception types caught by `safe_alloc`, by the Dot11 handler and by `sniff_loop`,
  * `DataLinkType<T>::type` and `enum PacketWriter::LinkType` (what the writer can put into a file header),
  * the snapshot length `PacketWriter::init` declares in the file header,
  * the DLT_* values (this platform's <pcap/dlt.h>) of the link types the property names.
The sources are run through the preprocessor (`g++ -E`, same include path and config.h as the build), so `#ifdef`
branches and DLT_* macros are resolved exactly as they are for the implementation under test.
"""
import hashlib, os, re, subprocess, sys, tempfile

VERIF = os.path.dirname(os.path.dirname(os.path.abspath(__file__)))
REPO = os.environ.get("VERIF_REPO", "/repo")
OUT = os.path.join(VERIF, "lean", "TinsModel", "Gen", "Capture.lean")
GUARD = "TINS_VERIF_HOOKS"

PROPERTY_LINK_TYPES = ["EN10MB", "IEEE802_11", "IEEE802_11_RADIO", "NULL", "LINUX_SLL", "RAW", "PPI"]


def preprocess(text):
    with tempfile.NamedTemporaryFile("w", suffix=".cpp", delete=False) as f:
        f.write(text)
        name = f.name
    try:
        r = subprocess.run(["g++", "-std=c++11", "-E", "-P", f"-D{GUARD}", "-I" + os.path.join(REPO, "include"), name],
                           stdout=subprocess.PIPE, stderr=subprocess.PIPE, text=True)
        if r.returncode != 0:
            raise RuntimeError("preprocessing failed: " + r.stderr[-2000:])
        return r.stdout
    finally:
        os.unlink(name)


def body_after(src, start_pat):
    """text of the brace block that follows the first match of start_pat"""
    m = re.search(start_pat, src)
    if not m:
        raise RuntimeError(f"pattern not found: {start_pat}")
    i = src.index("{", m.end() - 1) if src[m.end() - 1] != "{" else m.end() - 1
    depth, j = 0, i
    while j < len(src):
        if src[j] == "{":
            depth += 1
        elif src[j] == "}":
            depth -= 1
            if depth == 0:
                return src[i:j + 1]
        j += 1
    raise RuntimeError("unbalanced braces after " + start_pat)


def handler_kind(expr):
    expr = expr.strip().lstrip("&").strip()
    m = re.match(r"sniff_loop_handler\s*<\s*(?:Tins::)?(\w+)\s*>$", expr)
    if m:
        return f'.generic "{m.group(1)}"'
    return {"sniff_loop_eth_handler": ".eth", "sniff_loop_raw_handler": ".raw",
            "sniff_loop_dot11_handler": ".dot11"}.get(expr, f'.unknown "{expr}"')


def catches(block):
    return [re.sub(r"^Tins::", "", c) for c in re.findall(r"catch\s*\(\s*(?:const\s+)?([\w:]+)\s*&?\s*\w*\s*\)", block)]


def extract():
    marker = "int verif_c17_marker_begin;"
    pre = preprocess(f'#include <tins/sniffer.h>\n#include <tins/packet_writer.h>\n#include <tins/data_link_type.h>\n'
                     f'{marker}\n#include "{os.path.join(REPO, "src", "sniffer.cpp")}"\n'
                     f'#include "{os.path.join(REPO, "src", "packet_writer.cpp")}"\n'
                     "int verif_c17_dlts[] = {" + ", ".join("DLT_" + n for n in PROPERTY_LINK_TYPES) + "};\n")
    head, tail = pre.split(marker, 1)
    facts = {}
    # --- next_packet: the switch over the link type
    np = body_after(tail, r"PtrPacket\s+BaseSniffer::next_packet\s*\(\s*\)\s*\{")
    # the handler selection may sit in next_packet itself or in a helper it calls: look for it in the whole file, in
    # either form (`handler = &f;` / `return &f;`).  Nothing is guessed: what is not found is emitted as unknown / empty
    # and the table theorems of Props/C17 fail, which sends the check to its search step.
    m = re.search(r"if\s*\(\s*extract_raw_\s*\)\s*\{\s*(?:handler\s*=|return)\s*([^;]+);", tail)
    facts["extract_raw"] = handler_kind(m.group(1)) if m else '.unknown "?"'
    try:
        sw = body_after(tail, r"switch\s*\(\s*(?:iface_type|pcap_datalink\s*\(\s*handle_\s*\))\s*\)\s*\{")
    except RuntimeError:
        sw = ""
    table, pending = [], []
    for tok in re.finditer(r"case\s+(-?\d+)\s*:|default\s*:|(?:handler\s*=|return)\s*(&[^;]+);|throw\s+(\w+)\s*\(\s*\)\s*;", sw):
        if tok.group(1) is not None:
            pending.append(int(tok.group(1)))
        elif tok.group(2) is not None:
            for v in pending:
                table.append((v, handler_kind(tok.group(2))))
            pending = []
        elif tok.group(3) is not None:
            for v in pending:
                table.append((v, f'.throws "{tok.group(3)}"'))
            pending = []
            if tok.group(0).startswith("throw") and "default" in sw[max(0, tok.start() - 40):tok.start()]:
                facts["default_throws"] = tok.group(3)
        else:
            pending = []          # `default:` — what follows is recorded through default_throws
    facts.setdefault("default_throws", "unknown_link_type")
    facts["dispatch"] = table
    # --- exception filters
    facts["safe_alloc_catches"] = catches(body_after(tail, r"\bsafe_alloc\s*\(\s*const\s+u_char\s*\*\s*\w+\s*,\s*bpf_u_int32\s+\w+\s*\)\s*\{"))
    try:
        facts["dot11_catches"] = catches(body_after(tail, r"void\s+sniff_loop_dot11_handler\s*\([^)]*\)\s*\{"))
    except RuntimeError:
        facts["dot11_catches"] = []
    facts["sniff_loop_catches"] = catches(body_after(head, r"void\s+Tins::BaseSniffer::sniff_loop\s*\([^)]*\)\s*\{"))
    # --- the loop condition pieces of next_packet that are plain facts
    facts["error_test"] = (re.search(r"pcap_sniffing_method_\s*\(.*?\)\s*(<=|<|==|!=|>=|>)\s*(-?\d+)", np, re.S) or [None, "?", "?"])
    # --- writer side
    facts["data_link_types"] = [(m.group(1), int(m.group(2))) for m in re.finditer(
        r"struct\s+DataLinkType\s*<\s*(\w+)\s*>\s*\{\s*static\s+const\s+int\s+type\s*=\s*(-?\d+)\s*;", head)]
    en = re.search(r"enum\s+LinkType\s*\{([^}]*)\}", head)
    facts["writer_enum"] = [(a, int(b)) for a, b in re.findall(r"(\w+)\s*=\s*(-?\d+)", en.group(1))] if en else []
    init = body_after(tail, r"void\s+PacketWriter::init\s*\([^)]*\)\s*\{")
    m = re.search(r"pcap_open_dead\s*\(\s*\w+\s*,\s*(\d+)\s*\)", init)
    facts["writer_snaplen"] = int(m.group(1)) if m else 0
    m = re.search(r"verif_c17_dlts\[\]\s*=\s*\{([^}]*)\}", tail)
    facts["property_dlts"] = list(zip(PROPERTY_LINK_TYPES, [int(x) for x in m.group(1).split(",")]))
    return facts


def lean_list(items, indent="  "):
    if not items:
        return "[]"
    return "[\n" + ",\n".join(indent + "  " + i for i in items) + "]"


def cmpop(s):
    return {"<": ".lt", "<=": ".le", "==": ".eq", "!=": ".ne", ">": ".gt", ">=": ".ge"}.get(s, ".unknown")


def intlit(s):
    try:
        v = int(s)
    except (TypeError, ValueError):
        return "0"
    return str(v) if v >= 0 else f"({v})"


def render(f):
    q = lambda s: '"' + s + '"'
    et = f["error_test"]
    return f"""/- GENERATED by translator/gen_c17.py from src/sniffer.cpp, include/tins/sniffer.h, src/packet_writer.cpp,
   include/tins/packet_writer.h, include/tins/data_link_type.h and <pcap/dlt.h> — do not edit. -/
namespace Tins.Gen.Capture

/-- the per-frame callbacks of src/sniffer.cpp -/
inductive HandlerKind where
  | generic (cls : String)   -- sniff_loop_handler<cls>
  | eth                      -- sniff_loop_eth_handler
  | raw                      -- sniff_loop_raw_handler
  | dot11                    -- sniff_loop_dot11_handler
  | throws (exc : String)    -- the case throws instead of selecting a handler
  | unknown (name : String)  -- a handler the translator does not know
deriving Repr, DecidableEq

/-- `switch (iface_type)` of `BaseSniffer::next_packet`: DLT value ↦ handler, in source order -/
def dispatchTable : List (Nat × HandlerKind) := {lean_list([f"({v}, {k})" for v, k in f["dispatch"]])}

/-- exception thrown by the `default:` label of that switch -/
def defaultThrows : String := {q(f["default_throws"])}

/-- handler selected when `extract_raw_` is set -/
def extractRawHandler : HandlerKind := {f["extract_raw"]}

/-- exception types caught inside `safe_alloc<T>` -/
def safeAllocCatches : List String := [{", ".join(q(c) for c in f["safe_alloc_catches"])}]

/-- exception types caught inside `sniff_loop_dot11_handler` -/
def dot11Catches : List String := [{", ".join(q(c) for c in f["dot11_catches"])}]

/-- exception types caught around the functor call in `BaseSniffer::sniff_loop` -/
def sniffLoopCatches : List String := [{", ".join(q(c) for c in f["sniff_loop_catches"])}]

/-- comparison operators of C -/
inductive CmpOp where
  | lt | le | eq | ne | gt | ge | unknown
deriving Repr, DecidableEq

/-- the test applied to the sniffing method's return value in the loop of `next_packet`
    (`if (pcap_sniffing_method_(...) {et[1]} {et[2]}) return PtrPacket(0, Timestamp());`): operator and constant -/
def errorTest : CmpOp × Int := ({cmpop(et[1])}, {intlit(et[2])})

/-- `DataLinkType<T>::type` -/
def dataLinkTypes : List (String × Nat) := {lean_list([f"({q(a)}, {b})" for a, b in f["data_link_types"]])}

/-- `enum PacketWriter::LinkType` -/
def writerEnum : List (String × Nat) := {lean_list([f"({q(a)}, {b})" for a, b in f["writer_enum"]])}

/-- snapshot length `PacketWriter::init` passes to `pcap_open_dead` (written into every file header) -/
def writerSnaplen : Nat := {f["writer_snaplen"]}

/-- DLT_* values (this platform) of the link types the property names -/
def propertyLinkTypes : List (String × Nat) := {lean_list([f"({q(a)}, {b})" for a, b in f["property_dlts"]])}

end Tins.Gen.Capture
"""


def main(argv=None):
    text = render(extract())
    os.makedirs(os.path.dirname(OUT), exist_ok=True)
    old = open(OUT).read() if os.path.exists(OUT) else None
    if old != text:
        with open(OUT, "w") as fh:
            fh.write(text)
        return True
    return False


if __name__ == "__main__":
    changed = main(sys.argv[1:])
    print("regenerated" if changed else "unchanged", OUT)
