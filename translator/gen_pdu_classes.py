#!/usr/bin/env python3
"""Translator for property C13: regenerates, from the CURRENT headers of the repo,

  * lean/TinsModel/Gen/PduClasses.lean  -- one row per class derived from Tins::PDU (and one per
    PDUCacher<X> instantiation): bases, own `pdu_flag` initialiser, own `pdu_type()` body, own
    `matches_flag()` body as an expression tree, plus the whole PDU::PDUType enum;
  * harness/c13_classes_gen.h           -- the same class list as X-macros for the C++ harness.

Source of truth is the clang-14 JSON AST (never regexes over the source) of a translation unit that includes
EVERY header below include/tins.  Two passes: pass 1 finds the classes, pass 2 adds one probe function per
class X that instantiates PDUCacher<X> (its pdu_flag, pdu_type, matches_flag) so the wrapper rows are read from
real instantiations, not from the template pattern.

Anything outside the small grammar
      flag == <enumerator | pdu_flag> | flag == pdu_type() | Base::matches_flag(flag) | matches_flag(flag)
    | member_.matches_flag(flag) | e || e
is emitted as `.unparsed "<source text>"`; the Lean evaluation of such a row is `none` and the table theorems
fail -- the translator never guesses.

Deterministic: rows are sorted (bases first, then by name); the files are written only when their content changed.
The result is cached in .work/ keyed by the content of include/tins/** and of this file.
"""
import glob, hashlib, json, os, re, subprocess, sys

HERE = os.path.dirname(os.path.abspath(__file__))
VERIF = os.path.dirname(HERE)
CLANG = os.environ.get("VERIF_CLANG", "clang++-14")
WRAPPER = "PDUCacher"


# ----------------------------------------------------------------------------- clang AST loading

def header_list(repo):
    inc = os.path.join(repo, "include")
    hs = sorted(glob.glob(os.path.join(inc, "tins", "**", "*.h"), recursive=True))
    return [os.path.relpath(h, inc) for h in hs]


def run_clang(repo, tu_text, workdir, tag):
    os.makedirs(workdir, exist_ok=True)
    tu = os.path.join(workdir, f"c13_tu_{tag}.cpp")
    with open(tu, "w") as f:
        f.write(tu_text)
    cmd = [CLANG, "-std=gnu++11", "-fsyntax-only", "-w", "-I" + os.path.join(repo, "include"),
           "-Xclang", "-ast-dump=json", "-Xclang", "-ast-dump-filter=Tins", tu]
    r = subprocess.run(cmd, stdout=subprocess.PIPE, stderr=subprocess.PIPE, text=True)
    if r.returncode != 0:
        raise RuntimeError("clang failed on the translator TU:\n" + r.stderr[-3000:])
    dec = json.JSONDecoder()
    txt, i, docs = r.stdout, 0, []
    n = len(txt)
    while True:
        while i < n and txt[i] in " \r\n\t":
            i += 1
        if i >= n:
            break
        o, i = dec.raw_decode(txt, i)
        docs.append(o)
    return docs


class Ast:
    """Indexes the filtered dump: fills in the file names clang elides, records parents and ids."""

    def __init__(self, docs):
        self.by_id = {}
        self.parent = {}
        self.cur_file = None
        self.docs = docs
        for d in docs:
            self._index(d, None)

    def _loc(self, d):
        # clang prints "file" only when it differs from the previously printed location
        for key in ("spellingLoc", "expansionLoc"):
            if key in d and isinstance(d[key], dict):
                self._loc(d[key])
        if "offset" in d:
            if "file" in d:
                self.cur_file = d["file"]
            else:
                d["file"] = self.cur_file

    def _index(self, n, parent):
        if not isinstance(n, dict):
            return
        if "loc" in n and isinstance(n["loc"], dict):
            self._loc(n["loc"])
        if "range" in n and isinstance(n["range"], dict):
            for k in ("begin", "end"):
                if isinstance(n["range"].get(k), dict):
                    self._loc(n["range"][k])
        if "id" in n and "kind" in n:
            # the same id can be printed again as a bare reference; keep the full node (the one with more keys)
            old = self.by_id.get(n["id"])
            if old is None or len(n) > len(old):
                self.by_id[n["id"]] = n
            if parent is not None and n["id"] not in self.parent:
                self.parent[n["id"]] = parent
        for c in n.get("inner", []) or []:
            self._index(c, n)

    def qualname(self, n):
        parts = []
        while n is not None:
            if n.get("kind") in ("NamespaceDecl", "CXXRecordDecl", "ClassTemplateSpecializationDecl") and n.get("name"):
                parts.append(n["name"])
            n = self.parent.get(n.get("id"))
        return "::".join(reversed(parts))


_SRC = {}


def src_text(rng):
    """source text of an AST range (begin.offset .. end.offset + tokLen), or None"""
    try:
        b, e = rng["begin"], rng["end"]
        b = b.get("expansionLoc", b)
        e = e.get("expansionLoc", e)
        f = b["file"]
        if e.get("file") != f:
            return None
        if f not in _SRC:
            _SRC[f] = open(f, "rb").read()
        return _SRC[f][b["offset"]: e["offset"] + e.get("tokLen", 0)].decode("utf-8", "replace")
    except (KeyError, TypeError, OSError):
        return None


def children(n):
    return [c for c in (n.get("inner") or []) if isinstance(c, dict) and not c.get("kind", "").endswith("Comment")]


def strip_casts(e):
    while e.get("kind") in ("ImplicitCastExpr", "ParenExpr", "ConstantExpr", "ExprWithCleanups") and children(e):
        e = children(e)[0]
    return e


# ----------------------------------------------------------------------------- class extraction

class Cls:
    def __init__(self, key, name, node):
        self.key = key            # display name without the Tins:: prefix, e.g. IP or PDUCacher<IP>
        self.cxx = name           # C++ spelling, e.g. Tins::IP
        self.node = node
        self.bases = []           # keys
        self.other_bases = 0      # bases that are not PDU classes
        self.abstract = False
        self.default_ctor = False
        self.copy_ctor = True
        self.flag_decl = None     # VarDecl node of the own pdu_flag
        self.flag_public = True
        self.type_decl = None
        self.match_decl = None
        self.wraps = None
        self.idx = None


def norm_base(q):
    q = q.replace("class ", "").strip()
    return q if q.startswith("Tins::") else "Tins::" + q


def collect_records(ast):
    """every complete, non-template class definition inside namespace Tins, keyed by qualified name"""
    recs = {}

    def visit(n, in_template):
        k = n.get("kind")
        if k == "ClassTemplateDecl":
            for c in children(n):
                if c.get("kind") == "ClassTemplateSpecializationDecl":
                    visit(c, False)
            return                       # the pattern itself is not a class
        if k in ("ClassTemplatePartialSpecializationDecl", "FunctionTemplateDecl"):
            return
        if k in ("CXXRecordDecl", "ClassTemplateSpecializationDecl") and n.get("completeDefinition"):
            q = ast.qualname(n)
            if k == "ClassTemplateSpecializationDecl":
                args = [a.get("type", {}).get("qualType", "?") for a in n.get("inner", [])
                        if isinstance(a, dict) and a.get("kind") == "TemplateArgument"]
                q += "<" + ",".join(norm_base(a) for a in args) + ">"
            if q.startswith("Tins"):
                recs.setdefault(q, n)
        for c in children(n):
            if c.get("kind") in ("NamespaceDecl", "CXXRecordDecl", "ClassTemplateDecl", "ClassTemplateSpecializationDecl"):
                visit(c, in_template)

    for d in ast.docs:
        visit(d, False)
    return recs


def pdu_classes(ast):
    recs = collect_records(ast)
    root = "Tins::PDU"
    if root not in recs:
        raise RuntimeError("class Tins::PDU not found in the AST")

    def base_names(n):
        return [norm_base(b["type"].get("desugaredQualType", b["type"]["qualType"])) for b in n.get("bases", [])]

    derived = {root}
    changed = True
    while changed:
        changed = False
        for q, n in recs.items():
            if q not in derived and any(b in derived for b in base_names(n)):
                derived.add(q); changed = True
    out = {}
    for q in derived:
        n = recs[q]
        key = q[len("Tins::"):].replace("Tins::", "")
        c = Cls(key, q, n)
        for b in base_names(n):
            if b in derived:
                c.bases.append(b[len("Tins::"):].replace("Tins::", ""))
            else:
                c.other_bases += 1
        dd = n.get("definitionData", {})
        c.abstract = bool(dd.get("isAbstract"))
        m = re.match(r"^" + WRAPPER + r"<(.*)>$", key)
        if m:
            c.wraps = m.group(1)
        access = "private" if n.get("tagUsed") == "class" else "public"
        for mem in children(n):
            k = mem.get("kind")
            if k == "AccessSpecDecl":
                access = mem.get("access", access)
            elif k == "VarDecl" and mem.get("name") == "pdu_flag":
                c.flag_decl = mem; c.flag_public = (access == "public")
            elif k == "CXXMethodDecl" and mem.get("name") == "pdu_type":
                c.type_decl = mem
            elif k == "CXXMethodDecl" and mem.get("name") == "matches_flag":
                c.match_decl = mem
            elif k == "CXXConstructorDecl" and not mem.get("isImplicit"):
                params = [p for p in children(mem) if p.get("kind") == "ParmVarDecl"]
                deleted = mem.get("explicitlyDeleted") or mem.get("isDeleted")
                if access == "public" and not deleted and all("init" in p for p in params):
                    c.default_ctor = True
                if len(params) == 1 and re.search(r"const .*" + re.escape(n.get("name", "?")) + r".*&", params[0].get("type", {}).get("qualType", "")):
                    if deleted or access != "public":
                        c.copy_ctor = False
        out[key] = c
    return out


# ----------------------------------------------------------------------------- expression translation

class Tr:
    def __init__(self, ast, classes, enum):
        self.ast, self.classes, self.enum = ast, classes, enum
        self.var_owner = {}      # VarDecl id of a pdu_flag -> class key
        self.meth_owner = {}     # CXXMethodDecl id -> class key
        self.node_owner = {}
        for c in classes.values():
            if c.flag_decl is not None:
                self.var_owner[c.flag_decl["id"]] = c.key
            for d in (c.type_decl, c.match_decl):
                if d is not None:
                    self.meth_owner[d["id"]] = c.key

    def body_expr(self, meth):
        """the expression E of a body `{ return E; }`, or None"""
        body = [c for c in children(meth) if c.get("kind") == "CompoundStmt"]
        if len(body) != 1:
            return None
        st = children(body[0])
        if len(st) != 1 or st[0].get("kind") != "ReturnStmt" or len(children(st[0])) != 1:
            return None
        return children(st[0])[0]

    def const_ref(self, e):
        """('const', value, name) | ('flagOf', class key) | None  for an expression naming a PDUType constant"""
        e = strip_casts(e)
        if e.get("kind") != "DeclRefExpr":
            return None
        r = e.get("referencedDecl", {})
        if r.get("kind") == "EnumConstantDecl" and r.get("type", {}).get("qualType", "").endswith("PDU::PDUType"):
            if r.get("name") in self.enum:
                return ("const", self.enum[r["name"]], r["name"])
            return None
        if r.get("kind") == "VarDecl" and r.get("name") == "pdu_flag" and r.get("id") in self.var_owner:
            return ("flagOf", self.var_owner[r["id"]])
        return None

    def is_flag_param(self, e, meth):
        e = strip_casts(e)
        params = [p for p in children(meth) if p.get("kind") == "ParmVarDecl"]
        return (e.get("kind") == "DeclRefExpr" and len(params) == 1 and
                e.get("referencedDecl", {}).get("id") == params[0]["id"])

    def member_call(self, e, name, meth, nargs):
        """classify a call  <obj>.name(args):  ('this-virtual',) | ('this-qualified', class key) | ('member', class key)"""
        e = strip_casts(e)
        if e.get("kind") != "CXXMemberCallExpr":
            return None
        ch = children(e)
        if len(ch) != 1 + nargs:
            return None
        callee = ch[0]
        if callee.get("kind") != "MemberExpr" or callee.get("name") != name:
            return None
        if nargs == 1 and not self.is_flag_param(ch[1], meth):
            return None
        obj = strip_casts(children(callee)[0]) if children(callee) else {}
        text = src_text(callee.get("range", {}))
        if text is None:
            return None
        text = re.sub(r"\s+", "", text)
        target = self.meth_owner.get(callee.get("referencedMemberDecl"))
        if obj.get("kind") == "CXXThisExpr":
            if text == name or text == "this->" + name:
                return ("this-virtual",)
            m = re.match(r"^(?:this->)?(?:Tins::)?([A-Za-z_][A-Za-z_0-9]*)::" + name + "$", text)
            if m and m.group(1) in self.classes:
                # a qualified call is non-virtual; name lookup starts in the named class
                return ("this-qualified", m.group(1))
            return None
        if obj.get("kind") == "MemberExpr" and strip_casts(children(obj)[0]).get("kind") == "CXXThisExpr" \
                and "::" not in text and not obj.get("isArrow") is None:
            q = obj.get("type", {}).get("desugaredQualType", obj.get("type", {}).get("qualType", ""))
            q = q.replace("const ", "").strip()
            if q.endswith("*") or q.endswith("&"):
                return None               # a pointer/reference member could hold any dynamic type
            key = norm_base(q)[len("Tins::"):].replace("Tins::", "")
            if key in self.classes:
                return ("member", key)    # a by-value member: its dynamic type is its static type
        return None

    # -- the three things we read per class
    def flag_init(self, c):
        if c.flag_decl is None:
            return None
        d = c.flag_decl
        txt = (src_text(d.get("range", {})) or "?").split("=")[-1].strip()
        ok = d.get("storageClass") == "static" and c.flag_public and \
            d.get("type", {}).get("desugaredQualType", d.get("type", {}).get("qualType", "")).replace("Tins::", "") == "const PDU::PDUType"
        ch = children(d)
        r = self.const_ref(ch[0]) if (ok and len(ch) == 1) else None
        if r is None:
            return f'.unparsed "{lean_str(txt)}"'
        if r[0] == "const":
            return f".enumConst {r[1]} /- {r[2]} -/"
        return f".flagOfClass {self.classes[r[1]].idx} /- {r[1]}::pdu_flag -/"

    def type_body(self, c):
        m = c.type_decl
        if m is None:
            return None
        if m.get("pure"):
            return ".pureVirtual"
        txt = src_text(m.get("range", {})) or "?"
        e = self.body_expr(m)
        if e is None or [p for p in children(m) if p.get("kind") == "ParmVarDecl"]:
            return f'.unparsed "{lean_str(txt)}"'
        r = self.const_ref(e)
        if r is not None:
            if r[0] == "const":
                return f".retConst {r[1]} /- {r[2]} -/"
            return f".retFlagOf {self.classes[r[1]].idx} /- {r[1]}::pdu_flag -/"
        mc = self.member_call(e, "pdu_type", m, 0)
        if mc is not None and mc[0] == "member":
            return f".fwdMember {self.classes[mc[1]].idx} /- member of type {mc[1]} -/"
        return f'.unparsed "{lean_str(txt)}"'

    def mf(self, e, m):
        e = strip_casts(e)
        k = e.get("kind")
        if k == "BinaryOperator" and e.get("opcode") == "||":
            a, b = children(e)
            return f"(.or {self.mf(a, m)} {self.mf(b, m)})"
        if k == "BinaryOperator" and e.get("opcode") == "==":
            a, b = children(e)
            if not self.is_flag_param(a, m):
                a, b = b, a
            if self.is_flag_param(a, m):
                r = self.const_ref(b)
                if r is not None:
                    if r[0] == "const":
                        return f"(.flagEqConst {r[1]} /- {r[2]} -/)"
                    return f"(.flagEqFlagOf {self.classes[r[1]].idx} /- {r[1]}::pdu_flag -/)"
                mc = self.member_call(b, "pdu_type", m, 0)
                if mc == ("this-virtual",):
                    return "(.flagEqType)"
        mc = self.member_call(e, "matches_flag", m, 1)
        if mc is not None:
            if mc[0] == "this-virtual":
                return "(.callVirtual)"
            if mc[0] == "this-qualified":
                return f"(.callBase {self.classes[mc[1]].idx} /- {mc[1]}::matches_flag -/)"
            if mc[0] == "member":
                return f"(.fwdMember {self.classes[mc[1]].idx} /- member of type {mc[1]} -/)"
        txt = src_text(e.get("range", {})) or "?"
        return f'(.unparsed "{lean_str(txt)}")'

    def match_body(self, c):
        m = c.match_decl
        if m is None:
            return None
        txt = src_text(m.get("range", {})) or "?"
        if m.get("pure"):
            return f'(.unparsed "pure virtual matches_flag")'
        e = self.body_expr(m)
        if e is None:
            return f'(.unparsed "{lean_str(txt)}")'
        return self.mf(e, m)


def lean_str(s):
    s = re.sub(r"\s+", " ", s)[:160]
    return s.replace("\\", "\\\\").replace('"', '\\"')


def lean_ident(key):
    return re.sub(r"[^A-Za-z0-9_]", "_", key).strip("_")


def read_enum(ast):
    """name -> value for PDU::PDUType (sequential numbering with explicit values where given)"""
    for n in ast.by_id.values():
        if n.get("kind") == "EnumDecl" and n.get("name") == "PDUType" and ast.qualname(n).startswith("Tins::PDU"):
            vals, nxt, order = {}, 0, []
            for c in children(n):
                if c.get("kind") != "EnumConstantDecl":
                    continue
                init = children(c)
                if init:
                    v = None
                    stack = list(init)
                    while stack:
                        x = stack.pop(0)
                        if x.get("kind") == "ConstantExpr" and "value" in x:
                            v = int(x["value"]); break
                        stack += children(x)
                    if v is None:
                        raise RuntimeError("enumerator without a constant value: " + c.get("name", "?"))
                    nxt = v
                vals[c["name"]] = nxt
                order.append(c["name"])
                nxt += 1
            return vals, order
    raise RuntimeError("enum Tins::PDU::PDUType not found")


# ----------------------------------------------------------------------------- driver

def tu_text(headers, probes):
    t = "".join(f"#include <{h}>\n" for h in headers)
    if probes:
        t += "namespace c13_probe {\n"
        for i, x in enumerate(probes):
            t += (f"int probe_{i}(const Tins::{x}& x) {{ Tins::PDUCacher<Tins::{x}> c(x); "
                  f"int r = Tins::PDUCacher<Tins::{x}>::pdu_flag; r += c.pdu_type(); "
                  f"r += c.matches_flag(Tins::PDU::RAW); return r; }}\n")
        t += "}\n"
    return t


def topo(classes):
    depth = {}

    def d(k, seen=()):
        if k in depth:
            return depth[k]
        if k in seen:
            raise RuntimeError("cyclic bases at " + k)
        c = classes[k]
        depth[k] = 0 if not c.bases else 1 + max(d(b, seen + (k,)) for b in c.bases)
        return depth[k]

    keys = sorted(classes, key=lambda k: (classes[k].wraps is not None, d(k), k))
    for i, k in enumerate(keys):
        classes[k].idx = i
    return keys


def generate(repo, workdir):
    headers = header_list(repo)
    ast1 = Ast(run_clang(repo, tu_text(headers, []), workdir, "pass1"))
    cl1 = pdu_classes(ast1)
    # X can be wrapped when PDUCacher<X> compiles: concrete, copyable, and a pdu_flag is visible in X
    def has_flag(k):
        c = cl1[k]
        return c.flag_decl is not None or any(has_flag(b) for b in c.bases)
    wrappable = sorted(k for k, c in cl1.items() if not c.abstract and c.copy_ctor and has_flag(k) and c.wraps is None)
    ast = Ast(run_clang(repo, tu_text(headers, wrappable), workdir, "pass2"))
    classes = pdu_classes(ast)
    missing = [f"{WRAPPER}<{x}>" for x in wrappable if f"{WRAPPER}<{x}>" not in classes]
    if missing:
        raise RuntimeError("wrapper instantiations not found in the AST: " + ", ".join(missing[:5]))
    enum, enum_order = read_enum(ast)
    keys = topo(classes)
    tr = Tr(ast, classes, enum)
    rows = []
    for k in keys:
        c = classes[k]
        multi = (len(c.bases) + c.other_bases) > 1
        fi, tb, mb = tr.flag_init(c), tr.type_body(c), tr.match_body(c)
        if multi:
            # name lookup / final overriders through several bases are outside the model: make the row unusable
            fi = '.unparsed "multiple inheritance"'
        rows.append(dict(idx=c.idx, key=k, bases=[classes[b].idx for b in c.bases], abstract=c.abstract,
                         flag=fi, type=tb, match=mb, wraps=(classes[c.wraps].idx if c.wraps in classes else None),
                         default_ctor=c.default_ctor, wrapper=c.wraps is not None))
        if c.wraps is not None and c.wraps not in classes:
            rows[-1]["flag"] = '.unparsed "wrapped class unknown"'
    return dict(rows=rows, enum=[(n, enum[n]) for n in enum_order], headers=headers)


def opt(x):
    if x is None:
        return "none"
    x = str(x)
    return f"some {x}" if (x.startswith("(") or x.isdigit()) else f"some ({x})"


def render_lean(g):
    L = []
    L.append("/- GENERATED by translator/gen_pdu_classes.py from the clang-14 AST of every header in include/tins.")
    L.append("   Do not edit: the check regenerates this file on every run. -/")
    L.append("import TinsModel.Lookup.Syntax")
    L.append("namespace Tins.Gen.PduClasses")
    L.append("open Tins.Lookup")
    L.append("")
    L.append("/-- `enum PDU::PDUType` (name, value), in declaration order -/")
    L.append("def pduTypeEnum : List (String × Nat) := [")
    L.append(",\n".join(f'  ("{n}", {v})' for n, v in g["enum"]))
    L.append("]")
    L.append("")
    L.append("/-- one row per class derived from `Tins::PDU`; a class is referred to by its position in this list;")
    L.append("    bases always come before derived classes, wrapper instantiations after all plain classes -/")
    L.append("def classes : List ClassRow := [")
    items = []
    for r in g["rows"]:
        items.append(
            f"  /- {r['idx']} -/\n"
            f"  {{ name := \"{r['key']}\", bases := [{', '.join(map(str, r['bases']))}], "
            f"isAbstract := {'true' if r['abstract'] else 'false'},\n"
            f"    pduFlag := {opt(r['flag'])},\n"
            f"    pduType := {opt(r['type'])},\n"
            f"    matchesFlag := {opt(r['match'])},\n"
            f"    wraps := {opt(r['wraps'])} }}")
    L.append(",\n".join(items))
    L.append("]")
    L.append("")
    L.append("/- positions of the classes by (sanitised) name, for the hand-written theorems that name a class -/")
    L.append("namespace Idx")
    for r in g["rows"]:
        L.append(f"def {lean_ident(r['key'])} : Nat := {r['idx']}")
    L.append("end Idx")
    L.append("")
    L.append("end Tins.Gen.PduClasses")
    return "\n".join(L) + "\n"


def render_header(g):
    L = ["// GENERATED by translator/gen_pdu_classes.py -- do not edit (regenerated on every run of checks/C13.py)",
         "#ifndef C13_CLASSES_GEN_H", "#define C13_CLASSES_GEN_H"]
    for h in g["headers"]:
        L.append(f"#include <{h}>")
    L.append("// X(index, display name, C++ type)")
    def cxx(r):
        k = r["key"]
        m = re.match(r"^" + WRAPPER + r"<(.*)>$", k)
        return f"Tins::{WRAPPER}<Tins::{m.group(1)}>" if m else "Tins::" + k
    has_flag = {}
    rows = {r["idx"]: r for r in g["rows"]}
    def hf(i):
        r = rows[i]
        return r["flag"] is not None or any(hf(b) for b in r["bases"])
    L.append("// every class T a caller can name in find_pdu<T>/tins_cast<T*> (a pdu_flag is visible in T)")
    L.append("#define C13_FOR_EACH_T(X) \\")
    L.append(" \\\n".join(f"  X({r['idx']}, \"{r['key']}\", {cxx(r)})" for r in g["rows"] if hf(r["idx"])))
    L.append("// every concrete class K (objects are built by c13::make<K>())")
    L.append("#define C13_FOR_EACH_K(X) \\")
    L.append(" \\\n".join(f"  X({r['idx']}, \"{r['key']}\", {cxx(r)})" for r in g["rows"] if not r["abstract"]))
    L.append("// concrete classes with a public constructor callable without arguments")
    L.append("#define C13_FOR_EACH_DEFAULT_CONSTRUCTIBLE(X) \\")
    L.append(" \\\n".join(f"  X({r['idx']}, \"{r['key']}\", {cxx(r)})" for r in g["rows"]
                          if not r["abstract"] and r["default_ctor"]))
    L.append("// PDU::PDUType enumerators")
    L.append("#define C13_FOR_EACH_FLAG(X) \\")
    L.append(" \\\n".join(f"  X(\"{n}\", {v})" for n, v in g["enum"]))
    L.append(f"#define C13_NUM_CLASSES {len(g['rows'])}")
    L.append("#endif")
    return "\n".join(L) + "\n"


def write_if_changed(path, text):
    try:
        if open(path).read() == text:
            return False
    except OSError:
        pass
    os.makedirs(os.path.dirname(path), exist_ok=True)
    with open(path, "w") as f:
        f.write(text)
    return True


def include_hash(repo):
    h = hashlib.sha256()
    for f in sorted(glob.glob(os.path.join(repo, "include", "tins", "**", "*"), recursive=True)):
        if os.path.isfile(f):
            h.update(os.path.relpath(f, repo).encode())
            h.update(open(f, "rb").read())
    h.update(open(os.path.abspath(__file__), "rb").read())
    return h.hexdigest()[:16]


def main(repo=None, verif=VERIF, use_cache=True):
    """Regenerate both files.  Returns dict(rows=..., enum=..., changed=[paths], error=None|text)."""
    repo = repo or os.environ.get("VERIF_REPO", "/repo")
    work = os.path.join(verif, ".work", "c13_translator")
    os.makedirs(work, exist_ok=True)
    cache = os.path.join(work, include_hash(repo) + ".json")
    g = None
    if use_cache and os.path.exists(cache):
        try:
            g = json.load(open(cache))
        except ValueError:
            g = None
    if g is None:
        g = generate(repo, work)
        for old in glob.glob(os.path.join(work, "*.json")):
            os.remove(old)
        with open(cache, "w") as f:
            json.dump(g, f)
    changed = []
    if write_if_changed(os.path.join(verif, "lean", "TinsModel", "Gen", "PduClasses.lean"), render_lean(g)):
        changed.append("lean/TinsModel/Gen/PduClasses.lean")
    if write_if_changed(os.path.join(verif, "harness", "c13_classes_gen.h"), render_header(g)):
        changed.append("harness/c13_classes_gen.h")
    g["changed"] = changed
    return g


if __name__ == "__main__":
    pos = [a for a in sys.argv[1:] if not a.startswith("--")]
    g = main(pos[0] if pos else None, use_cache="--no-cache" not in sys.argv)
    print(f"{len(g['rows'])} classes ({sum(1 for r in g['rows'] if r['wrapper'])} wrapper instantiations), "
          f"{len(g['enum'])} enumerators; changed: {g['changed'] or 'nothing'}")
