#!/usr/bin/env python3
"""C09 translator: regenerates lean/TinsModel/Gen/C09Tables.lean from the repo's current source.

Tables: the CRC-32 nibble table of Utils::crc32 (src/utils/checksum_utils.cpp) and the TKIP S-box
`sbox_table[2][256]` (src/crypto.cpp); literal limits of the decrypt guards (WEP `<= 8`, TKIP `<= 20`,
CCMP `<= 16`); the literals of the key derivation in `SessionKeys::SessionKeys(const RSNHandshake&, const pmk_type&)`
and `SupplicantData` (label, PKE buffer size and offsets, number and stride of the HMAC calls, the counter expression,
the zeroed MIC range, KCK length, PMK size, PBKDF2 iteration count).  If something cannot be extracted the
corresponding Lean definition is emitted empty / 0, so the dependent `decide` theorems fail and the check goes to its
search step.
"""
import os, re, sys


def _strip_comments(s):
    s = re.sub(r"/\*.*?\*/", "", s, flags=re.S)
    return re.sub(r"//[^\n]*", "", s)


def _ints(body):
    return [int(x, 0) for x in re.findall(r"0[xX][0-9a-fA-F]+|\d+", body)]


def extract(repo):
    crypto = _strip_comments(open(os.path.join(repo, "src", "crypto.cpp")).read())
    cks = _strip_comments(open(os.path.join(repo, "src", "utils", "checksum_utils.cpp")).read())
    out = {"crc": [], "sbox0": [], "sbox1": [], "wep_min": 0, "tkip_min": 0, "ccmp_min": 0}
    m = re.search(r"uint32_t\s+crc32\s*\([^)]*\)\s*\{.*?crc_table\s*\[\s*\]\s*=\s*\{([^}]*)\}", cks, re.S)
    if m:
        v = _ints(m.group(1))
        if len(v) == 16 and all(0 <= x < 2**32 for x in v):
            out["crc"] = v
    m = re.search(r"sbox_table\s*\[\s*2\s*\]\s*\[\s*256\s*\]\s*=\s*\{\s*\{([^}]*)\}\s*,\s*\{([^}]*)\}\s*\}", crypto, re.S)
    if m:
        a, b = _ints(m.group(1)), _ints(m.group(2))
        if len(a) == 256 and len(b) == 256 and all(0 <= x < 65536 for x in a + b):
            out["sbox0"], out["sbox1"] = a, b

    def guard(func, expr):
        fm = re.search(re.escape(func) + r"\s*\([^)]*\)\s*(const\s*)?\{(.*?)\n\}", crypto, re.S)
        if not fm:
            return 0
        g = re.search(re.escape(expr) + r"\s*<=\s*(\d+)\s*\)\s*\{\s*return\s+0\s*;", fm.group(2))
        return int(g.group(1)) if g else 0
    out["kdf"] = extract_kdf(crypto)
    out["wep_min"] = guard("PDU* WEPDecrypter::decrypt", "pload.size()")
    out["tkip_min"] = guard("SNAP* SessionKeys::tkip_decrypt_unicast", "raw.payload_size()")
    out["ccmp_min"] = guard("SNAP* SessionKeys::ccmp_decrypt_unicast", "raw.payload_size()")
    return out


KDF_KEYS = ["pke_size", "addr_off1", "addr_off2", "nonce_off1", "nonce_off2", "counter_off", "prf_rounds", "prf_stride",
            "mic_off", "mic_len", "kck_len", "pmk_size", "ptk_size", "pbkdf2_iter"]


def extract_kdf(crypto):
    """literals of the PTK derivation, each found at a named anchor (function + normalised expression)"""
    k = {x: 0 for x in KDF_KEYS}
    k["label"] = []
    k["counter_is_index"] = False
    k["sorted_nonce_first"] = False
    k["mic_compare_full"] = False
    fm = re.search(r"SessionKeys::SessionKeys\s*\(\s*const\s+RSNHandshake\s*&\s*hs\s*,\s*const\s+pmk_type\s*&\s*pmk\s*\)(.*?)\n\}", crypto, re.S)
    if fm:
        b = fm.group(1)
        m = re.search(r'uint8_t\s+PKE\s*\[\s*(\d+)\s*\]\s*=\s*"([^"]*)"', b)
        if m:
            k["pke_size"] = int(m.group(1)); k["label"] = list(m.group(2).encode())
        m = re.search(r"min\s*\(hs\.client_address\(\)\s*,\s*hs\.supplicant_address\(\)\)\.copy\(PKE\s*\+\s*(\d+)\)", b)
        if m: k["addr_off1"] = int(m.group(1))
        m = re.search(r"max\s*\(hs\.client_address\(\)\s*,\s*hs\.supplicant_address\(\)\)\.copy\(PKE\s*\+\s*(\d+)\)", b)
        if m: k["addr_off2"] = int(m.group(1))
        m = re.search(r"if\s*\(\s*lexicographical_compare\(nonce1\s*,\s*nonce1\s*\+\s*32\s*,\s*nonce2\s*,\s*nonce2\s*\+\s*32\)\s*\)\s*\{\s*"
                      r"copy\(nonce1\s*,\s*nonce1\s*\+\s*32\s*,\s*PKE\s*\+\s*(\d+)\);\s*copy\(nonce2\s*,\s*nonce2\s*\+\s*32\s*,\s*PKE\s*\+\s*(\d+)\);", b)
        if m:
            k["nonce_off1"], k["nonce_off2"] = int(m.group(1)), int(m.group(2)); k["sorted_nonce_first"] = True
        m = re.search(r"for\s*\(\s*int\s+i\s*\(\s*0\s*\)\s*;\s*i\s*<\s*(\d+)\s*;\s*\+\+i\s*\)\s*\{\s*PKE\s*\[\s*(\d+)\s*\]\s*=\s*([^;]+);\s*"
                      r"HMAC\(EVP_sha1\(\)\s*,\s*&pmk\[0\]\s*,\s*pmk\.size\(\)\s*,\s*PKE\s*,\s*(\d+)\s*,\s*&ptk_\[0\]\s*\+\s*i\s*\*\s*(\d+)\s*,\s*0\)", b)
        if m:
            k["prf_rounds"], k["counter_off"], k["prf_stride"] = int(m.group(1)), int(m.group(2)), int(m.group(5))
            k["counter_is_index"] = m.group(3).strip() == "i" and int(m.group(4)) == k["pke_size"]
        m = re.search(r"fill\(buffer\.begin\(\)\s*\+\s*(\d+)\s*,\s*buffer\.begin\(\)\s*\+\s*(\d+)\s*\+\s*(\d+)\s*,\s*0\)", b)
        if m and m.group(1) == m.group(2):
            k["mic_off"], k["mic_len"] = int(m.group(1)), int(m.group(3))
        k["mic_compare_full"] = re.search(
            r"if\s*\(\s*!equal\(MIC\s*,\s*MIC\s*\+\s*RSNEAPOL::mic_size\s*,\s*last_hs\.mic\(\)\)\s*\)\s*\{\s*throw\s+invalid_handshake\(\);",
            b) is not None
        ms = re.findall(r"HMAC\(EVP_(?:sha1|md5)\(\)\s*,\s*&ptk_\[0\]\s*,\s*(\d+)\s*,\s*&buffer\[0\]\s*,\s*buffer\.size\(\)\s*,\s*MIC\s*,\s*0\)", b)
        if len(ms) == 2 and ms[0] == ms[1]:
            k["kck_len"] = int(ms[0])
    m = re.search(r"SessionKeys::PTK_SIZE\s*=\s*(\d+)", crypto)
    if m: k["ptk_size"] = int(m.group(1))
    m = re.search(r"SessionKeys::PMK_SIZE\s*=\s*(\d+)", crypto)
    if m: k["pmk_size"] = int(m.group(1))
    m = re.search(r"PKCS5_PBKDF2_HMAC_SHA1\s*\(\s*psk\.c_str\(\)\s*,\s*psk\.size\(\)\s*,\s*\(unsigned char \*\)ssid\.c_str\(\)\s*,\s*ssid\.size\(\)\s*,\s*(\d+)\s*,"
                  r"\s*pmk_\.size\(\)", crypto)
    if m: k["pbkdf2_iter"] = int(m.group(1))
    return k


def render(t):
    def lst(vals, per, w, suffix=""):
        rows = [", ".join(f"0x{x:0{w}X}{suffix}" for x in vals[i:i + per]) for i in range(0, len(vals), per)]
        return "[\n  " + ",\n  ".join(rows) + "]" if rows else "[]"
    return f"""/- GENERATED by translator/gen_c09.py from src/crypto.cpp and src/utils/checksum_utils.cpp — do not edit. -/
namespace Tins.Crypto.Gen

/-- `crc_table` of `Utils::crc32` -/
def crcTable : List (BitVec 32) := {lst(t['crc'], 4, 8, '#32')}

/-- `sbox_table[0]` -/
def sboxTable0 : List UInt16 := {lst(t['sbox0'], 8, 4)}

/-- `sbox_table[1]` -/
def sboxTable1 : List UInt16 := {lst(t['sbox1'], 8, 4)}

/-- `if (pload.size() <= wepMin) return 0;` in `WEPDecrypter::decrypt(RawPDU&, …)` (0 = guard not found) -/
def wepMin : Nat := {t['wep_min']}
/-- `if (raw.payload_size() <= tkipMin) return 0;` in `tkip_decrypt_unicast` (0 = guard not found) -/
def tkipMin : Nat := {t['tkip_min']}
/-- `if (raw.payload_size() <= ccmpMin) return 0;` in `ccmp_decrypt_unicast` (0 = guard not found) -/
def ccmpMin : Nat := {t['ccmp_min']}

/-! literals of `SessionKeys::SessionKeys(const RSNHandshake&, const pmk_type&)` and `SupplicantData` (0 / [] / false = not found) -/
/-- the string literal `PKE` is initialised with -/
def kdfLabel : List UInt8 := [{", ".join(str(x) for x in t['kdf']['label'])}]
def kdfPkeSize : Nat := {t['kdf']['pke_size']}
def kdfAddrOff1 : Nat := {t['kdf']['addr_off1']}
def kdfAddrOff2 : Nat := {t['kdf']['addr_off2']}
def kdfNonceOff1 : Nat := {t['kdf']['nonce_off1']}
def kdfNonceOff2 : Nat := {t['kdf']['nonce_off2']}
def kdfCounterOff : Nat := {t['kdf']['counter_off']}
def kdfRounds : Nat := {t['kdf']['prf_rounds']}
def kdfStride : Nat := {t['kdf']['prf_stride']}
/-- `PKE[counterOff] = i` with `i` the loop index, and the HMAC runs over all `kdfPkeSize` octets -/
def kdfCounterIsIndex : Bool := {'true' if t['kdf']['counter_is_index'] else 'false'}
/-- the `lexicographical_compare(nonce1, …, nonce2, …)` branch copies nonce1 to the lower offset -/
def kdfSmallerNonceFirst : Bool := {'true' if t['kdf']['sorted_nonce_first'] else 'false'}
/-- `if (!equal(MIC, MIC + RSNEAPOL::mic_size, last_hs.mic())) throw invalid_handshake();` -/
def kdfMicCompareFull : Bool := {'true' if t['kdf']['mic_compare_full'] else 'false'}
def kdfMicOff : Nat := {t['kdf']['mic_off']}
def kdfMicLen : Nat := {t['kdf']['mic_len']}
def kdfKckLen : Nat := {t['kdf']['kck_len']}
def kdfPmkSize : Nat := {t['kdf']['pmk_size']}
def kdfPtkSize : Nat := {t['kdf']['ptk_size']}
def kdfPbkdf2Iter : Nat := {t['kdf']['pbkdf2_iter']}

end Tins.Crypto.Gen
"""


def main(argv=None):
    here = os.path.dirname(os.path.dirname(os.path.abspath(__file__)))
    repo = os.environ.get("VERIF_REPO", "/repo")
    dst = os.path.join(here, "lean", "TinsModel", "Gen", "C09Tables.lean")
    text = render(extract(repo))
    os.makedirs(os.path.dirname(dst), exist_ok=True)
    old = open(dst).read() if os.path.exists(dst) else None
    if old != text:
        with open(dst, "w") as f:
            f.write(text)
    return 0


if __name__ == "__main__":
    sys.exit(main(sys.argv[1:]))
