#!/usr/bin/env python3
"""Regenerates lean/TinsModel/Gen/RadioTapMeta.lean from the repo's current source:
   * RADIOTAP_METADATA (size, alignment per present bit)      src/utils/radiotap_parser.cpp
   * RadioTap::PresentFlags (name -> bit)                      include/tins/radiotap.h
   * for every field setter / getter of RadioTap: the present flag it writes / looks up and the number of
     bytes it writes / converts to                             src/radiotap.cpp (+ struct sizes from radiotap.h)
   Anything outside the small grammar understood here is emitted with bit/width 99 (`unparsed`), which makes the
   dependent `decide` theorems fail — the translator never guesses."""
import os, re, sys

HERE = os.path.dirname(os.path.abspath(__file__))
VERIF = os.path.dirname(HERE)
OUT = os.path.join(VERIF, "lean", "TinsModel", "Gen", "RadioTapMeta.lean")
UNPARSED = 99
INT_W = {"uint8_t": 1, "int8_t": 1, "uint16_t": 2, "int16_t": 2, "uint32_t": 4, "int32_t": 4, "uint64_t": 8, "int64_t": 8}


def strip_comments(s):
    s = re.sub(r"/\*.*?\*/", " ", s, flags=re.S)
    return re.sub(r"//[^\n]*", " ", s)


def parse_meta(src):
    m = re.search(r"RADIOTAP_METADATA\s*\[\s*\]\s*=\s*\{(.*?)\}\s*;", src, re.S)
    if not m:
        return None
    rows = re.findall(r"\{\s*(\d+)\s*,\s*(\d+)\s*\}", m.group(1))
    rest = re.sub(r"\{\s*\d+\s*,\s*\d+\s*\}", "", m.group(1))
    if re.sub(r"[\s,]", "", rest):
        return None                       # something in the initialiser that is not `{ n, m }`
    return [(int(a), int(b)) for a, b in rows]


def parse_flags(hdr):
    m = re.search(r"enum\s+PresentFlags\s*\{(.*?)\}", hdr, re.S)
    out = []
    if not m:
        return out
    for name, bit in re.findall(r"(\w+)\s*=\s*1\s*<<\s*(\d+)", m.group(1)):
        out.append((name, int(bit)))
    return out


def struct_sizes(hdr):
    """packed structs of integral members declared in radiotap.h"""
    out = {}
    for name, body in re.findall(r"struct\s+(\w+)\s*\{([^{}]*)\}", hdr):
        total, ok = 0, True
        for decl in [d.strip() for d in body.split(";") if d.strip()]:
            mm = re.fullmatch(r"(\w+)\s+(\w+)", decl)
            if not mm or mm.group(1) not in INT_W:
                ok = False
                break
            total += INT_W[mm.group(1)]
        if ok and total:
            out[name] = total
    return out


def functions(src):
    """(return type, name, params, body) of every `T RadioTap::name(params) [const] { body }`"""
    out = []
    for m in re.finditer(r"([\w:]+(?:\s*[&*])?)\s+RadioTap::(\w+)\s*\(([^)]*)\)\s*(const)?\s*\{", src):
        i, depth = m.end(), 1
        while i < len(src) and depth:
            depth += {"{": 1, "}": -1}.get(src[i], 0)
            i += 1
        out.append((m.group(1).strip(), m.group(2), m.group(3).strip(), src[m.end():i - 1]))
    return out


def type_width(t, structs):
    t = re.sub(r"\bconst\b|&|RadioTap::", "", t).strip()
    return INT_W.get(t, structs.get(t, UNPARSED))


def width_of_expr(e, params, locals_, structs):
    e = e.strip()
    mm = re.fullmatch(r"\(\s*(\w+)\s*\)\s*\w+", e)         # (uint8_t)x
    if mm:
        return INT_W.get(mm.group(1), UNPARSED)
    if e in params:
        return type_width(params[e], structs)
    if e in locals_:
        return locals_[e]
    return UNPARSED


def size_expr(e, params, structs):
    e = e.strip()
    mm = re.fullmatch(r"sizeof\s*\(\s*(\w+)\s*\)\s*\*\s*(\d+)", e)
    if mm:
        w = INT_W.get(mm.group(1), None) or (type_width(params[mm.group(1)], structs) if mm.group(1) in params else UNPARSED)
        return w * int(mm.group(2)) if w != UNPARSED else UNPARSED
    mm = re.fullmatch(r"sizeof\s*\(\s*(\w+)\s*\)", e)
    if mm:
        n = mm.group(1)
        if n in INT_W:
            return INT_W[n]
        if n in params:
            return type_width(params[n], structs)
        return structs.get(n, UNPARSED)
    return int(e) if e.isdigit() else UNPARSED


def accessors(src, flags, structs):
    bit = dict(flags)
    setters, getters = [], []
    for ret, name, params, body in functions(src):
        pmap = {}
        for p in [p.strip() for p in params.split(",") if p.strip()]:
            mm = re.fullmatch(r"(.+?)\s*[&]?\s*(\w+)", p)
            if mm:
                pmap[mm.group(2)] = mm.group(1)
        if ret == "void":
            mm = re.search(r"add_integral_option\s*\(\s*\*this\s*,\s*(\w+)\s*,\s*([^;]+?)\)\s*;", body)
            if mm:
                setters.append((name, bit.get(mm.group(1), UNPARSED), width_of_expr(mm.group(2), pmap, {}, structs)))
                continue
            mm = re.search(r"add_option\s*\(\s*(?:RadioTap::)?option\s*\(\s*(\w+)\s*,\s*sizeof\s*\(\s*(\w+)\s*\)\s*,\s*(\w+)\s*\)\s*\)", body)
            if mm and mm.group(2) == mm.group(3):
                arr = re.search(r"uint8_t\s+" + mm.group(2) + r"\s*\[([^\]]+)\]", body)
                w = size_expr(arr.group(1), pmap, structs) if arr else UNPARSED
                setters.append((name, bit.get(mm.group(1), UNPARSED), w))
                continue
            if "add_option" in body and name != "add_option":
                setters.append((name, UNPARSED, UNPARSED))
        else:
            for mm in re.finditer(r"do_find_option\s*\(\s*(\w+)\s*\)", body):
                if name == "do_find_option":
                    continue
                conv = re.search(r"do_find_option\s*\(\s*\w+\s*\)\s*\.\s*to\s*<\s*(\w+)\s*>", body)
                if conv:
                    w = INT_W.get(conv.group(1), UNPARSED)
                elif re.search(r"memcpy\s*\(\s*&output\s*,\s*opt\.data_ptr\(\)\s*,\s*sizeof\s*\(\s*output\s*\)\s*\)", body):
                    w = type_width(ret, structs)          # whole-struct copy
                else:
                    # partial reads of the field (channel_freq / channel_type): width = highest byte read
                    offs = re.findall(r"memcpy\s*\(\s*&output\s*,\s*opt\.data_ptr\(\)\s*(?:\+\s*sizeof\s*\(\s*(\w+)\s*\))?\s*,\s*sizeof\s*\(\s*(\w+)\s*\)\s*\)", body)
                    w = UNPARSED
                    if offs:
                        o, n = offs[0]
                        w = (INT_W.get(o, 0) if o else 0) + INT_W.get(n, UNPARSED)
                getters.append((name, bit.get(mm.group(1), UNPARSED), w))
                break
    return setters, getters


def render(meta, flags, setters, getters):
    L = ["/- GENERATED by translator/gen_radiotap.py from src/utils/radiotap_parser.cpp, include/tins/radiotap.h and",
         "   src/radiotap.cpp — do not edit. 99 = the translator could not parse the construct. -/",
         "namespace Tins.RT.Gen", "",
         "/-- `RadioTapParser::RADIOTAP_METADATA`: (size, alignment) per present bit -/",
         "def radiotapMetadata : List (Nat × Nat) := ["]
    L.append(",\n".join(f"  ({a}, {b})" for a, b in meta) + "]")
    L += ["", "/-- `RadioTapParser::MAX_RADIOTAP_FIELD` = sizeof(RADIOTAP_METADATA) / sizeof(FieldMetadata) -/",
          f"def maxRadiotapField : Nat := {len(meta)}", "",
          "/-- `RadioTap::PresentFlags`: enumerator name, bit -/",
          "def presentFlags : List (String × Nat) := ["]
    L.append(",\n".join(f'  ("{n}", {b})' for n, b in flags) + "]")
    L += ["", "/-- field setters of `RadioTap`: name, present bit written, bytes written -/",
          "def setters : List (String × Nat × Nat) := ["]
    L.append(",\n".join(f'  ("{n}", {b}, {w})' for n, b, w in sorted(setters)) + "]")
    L += ["", "/-- field getters of `RadioTap`: name, present bit looked up, bytes of the field the getter consumes -/",
          "def getters : List (String × Nat × Nat) := ["]
    L.append(",\n".join(f'  ("{n}", {b}, {w})' for n, b, w in sorted(getters)) + "]")
    L += ["", "end Tins.RT.Gen", ""]
    return "\n".join(L)


def main(argv=None):
    repo = os.environ.get("VERIF_REPO", "/repo")
    def rd(p):
        try:
            return strip_comments(open(os.path.join(repo, p)).read())
        except OSError:
            return ""
    meta = parse_meta(rd("src/utils/radiotap_parser.cpp")) or []
    hdr = rd("include/tins/radiotap.h")
    flags = parse_flags(hdr)
    setters, getters = accessors(rd("src/radiotap.cpp"), flags, struct_sizes(hdr))
    text = render(meta, flags, setters, getters)
    os.makedirs(os.path.dirname(OUT), exist_ok=True)
    old = open(OUT).read() if os.path.exists(OUT) else None
    if old != text:
        with open(OUT, "w") as f:
            f.write(text)
    return 0


if __name__ == "__main__":
    sys.exit(main(sys.argv[1:]))
