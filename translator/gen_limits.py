#!/usr/bin/env python3
"""translator/gen_limits.py — protocol constants and limits of the C++ source -> lean/TinsModel/Gen/Limits.lean.

Every numeric constant a Lean model hard-codes (defaults of the stream follower, the DNS pointer-jump cap, minimum
frame sizes, RFC 4884 minimum, small-buffer size, header-length maxima, length units, ...) is extracted from the repo's
CURRENT source at a *named anchor* and written as a Lean definition.  `lean/TinsModel/Props/Limits/Cxx.lean` ties each
of them to the numeral the model / spec of property Cxx uses (theorems `limits_agree_*`), so a changed constant breaks a
proof obligation of exactly the properties it concerns.

Two extraction methods, both decided by the compiler, not by a guess:

  probe   a C++ expression evaluated by a probe program compiled against the current headers (-fno-access-control) and
          linked with the current build of the library: `static const` members, `sizeof`, default-constructed objects'
          private members, sizes of default-constructed packets (`EthernetII().size()`), ...
  text    a literal inside a function body: the source file goes through the C preprocessor (`g++ -E -P`, same include
          path and config.h as the build), the body of the named function is located, and a normalised expression with
          one capture group is searched in it.  All matches must agree and there must be exactly the expected number of
          them.  The captured text is an integer literal, or a C constant expression which is then evaluated by the
          probe program (e.g. `sizeof(uint32_t) * 3`).

A constant whose anchor is not found (or whose sites disagree) is emitted as 0 and its name is listed in
`notFound`/`notFoundCxx`; the theorems `limits_found_Cxx` and `limits_agree_*` then fail and the check goes to its
search step — the translator never guesses.

`values()` gives the same table to the generators of the checks (boundary cases at the value the source currently says).
"""
import hashlib, json, os, re, subprocess, sys

HERE = os.path.dirname(os.path.abspath(__file__))
VERIF = os.path.dirname(HERE)
sys.path.insert(0, VERIF)
from vlib import core

REPO = core.REPO
OUT = os.path.join(VERIF, "lean", "TinsModel", "Gen", "Limits.lean")

# ------------------------------------------------------------------------------------------------ the table
# name, properties, doc, then either probe=<C++ expression> (+ setup=<statements before it>) or
# text=(file, function anchor regex, pattern with one group, expected number of matches or None for ">= 1")


def P(name, props, doc, expr, setup="", includes=()):
    return dict(name=name, props=props, doc=doc, how="probe", expr=expr, setup=setup, includes=list(includes))


def T(name, props, doc, file, func, pat, count=None):
    return dict(name=name, props=props, doc=doc, how="text", file=file, func=func, pat=pat, count=count)


FOLLOWER_H = ["tins/tcp_ip/stream_follower.h"]

LIMITS = []      # filled below (kept in one list so the order of the generated file is the order of this file)


def _add(*rows):
    LIMITS.extend(rows)


# --- C07 / C06 / C19: stream follower, flows, trackers
_add(
    P("followerMaxChunks", ["C07"], "`max_buffered_chunks_` of a default-constructed `StreamFollower` (`DEFAULT_MAX_BUFFERED_CHUNKS`)",
      "f.max_buffered_chunks_", "Tins::TCPIP::StreamFollower f;", FOLLOWER_H),
    P("followerMaxBytes", ["C07"], "`max_buffered_bytes_` of a default-constructed `StreamFollower` (`DEFAULT_MAX_BUFFERED_BYTES`)",
      "f.max_buffered_bytes_", "Tins::TCPIP::StreamFollower f;", FOLLOWER_H),
    P("followerKeepAliveUs", ["C07"], "`stream_keep_alive_` of a default-constructed `StreamFollower`, in microseconds (`DEFAULT_KEEP_ALIVE`)",
      "std::chrono::duration_cast<std::chrono::microseconds>(f.stream_keep_alive_).count()", "Tins::TCPIP::StreamFollower f;",
      FOLLOWER_H),
    P("followerConstMaxChunks", ["C07"], "`StreamFollower::DEFAULT_MAX_BUFFERED_CHUNKS`",
      "Tins::TCPIP::StreamFollower::DEFAULT_MAX_BUFFERED_CHUNKS", "", FOLLOWER_H),
    P("followerConstMaxBytes", ["C07"], "`StreamFollower::DEFAULT_MAX_BUFFERED_BYTES`",
      "Tins::TCPIP::StreamFollower::DEFAULT_MAX_BUFFERED_BYTES", "", FOLLOWER_H),
    P("followerConstMaxSacked", ["C07"], "`StreamFollower::DEFAULT_MAX_SACKED_INTERVALS`",
      "Tins::TCPIP::StreamFollower::DEFAULT_MAX_SACKED_INTERVALS", "", FOLLOWER_H),
    P("followerConstKeepAliveUs", ["C07"], "`StreamFollower::DEFAULT_KEEP_ALIVE` in microseconds",
      "std::chrono::duration_cast<std::chrono::microseconds>(Tins::TCPIP::StreamFollower::DEFAULT_KEEP_ALIVE).count()", "",
      FOLLOWER_H),
)

# ------------------------------------------------------------------------------------------------ text extraction
_pp_cache = {}


def preprocessed(relfile):
    """the file after `g++ -E -P`; headers it includes are cut off at a marker so that only the file's own text is searched"""
    if relfile in _pp_cache:
        return _pp_cache[relfile]
    path = os.path.join(REPO, relfile)
    if not os.path.exists(path):
        _pp_cache[relfile] = None
        return None
    marker = "int verif_limits_marker_begin;"
    src = open(path, errors="replace").read()
    # the marker goes after the last top-level #include of the file (all includes of libtins sources / headers come first)
    lines = src.split("\n")
    last = max([i for i, l in enumerate(lines) if re.match(r"\s*#\s*include\b", l)] or [-1])
    depth_ok = last + 1
    # do not cut inside an #if block that is still open after the last include: move on to the matching #endif
    depth = 0
    for i, l in enumerate(lines[:depth_ok]):
        if re.match(r"\s*#\s*if", l):
            depth += 1
        elif re.match(r"\s*#\s*endif", l):
            depth -= 1
    j = depth_ok
    while depth > 0 and j < len(lines):
        if re.match(r"\s*#\s*if", lines[j]):
            depth += 1
        elif re.match(r"\s*#\s*endif", lines[j]):
            depth -= 1
        j += 1
    # a marker inside a conditional block could be dropped by the preprocessor; only place it when depth is back to 0
    text = "\n".join(lines[:j] + [marker] + lines[j:])
    r = subprocess.run(["g++", "-std=c++11", "-E", "-P", f"-D{core.GUARD}", "-I" + os.path.join(REPO, "include"),
                        "-I" + os.path.dirname(path), "-x", "c++", "-"], input=text, stdout=subprocess.PIPE,
                       stderr=subprocess.PIPE, text=True)
    out = None
    if r.returncode == 0 and marker in r.stdout:
        out = r.stdout.split(marker, 1)[1]
    elif r.returncode == 0:
        out = r.stdout
    _pp_cache[relfile] = out
    return out


def body_after(src, start_pat):
    """text of the first brace block that follows the first match of start_pat (None if absent / unbalanced)"""
    i = -1
    for m in re.finditer(start_pat, src):
        k = src.find("{", m.end() - 1)
        # a `;` between the match and the brace means a declaration was matched, not a definition: look further
        if k >= 0 and ";" not in src[m.end():k]:
            i = k
            break
    if i < 0:
        return None
    depth, j = 0, i
    while j < len(src):
        if src[j] == "{":
            depth += 1
        elif src[j] == "}":
            depth -= 1
            if depth == 0:
                return src[i:j + 1]
        j += 1
    return None


_INT = re.compile(r"^(0[xX][0-9a-fA-F]+|\d+)[uUlL]*$")


def extract_text(row):
    """-> ('lit', int) | ('expr', C expression) | ('missing', reason)"""
    src = preprocessed(row["file"])
    if src is None:
        return "missing", f"{row['file']} does not preprocess"
    body = body_after(src, row["func"]) if row["func"] else src
    if body is None:
        return "missing", f"anchor `{row['func']}` not found in {row['file']}"
    found = [m.group(1).strip() for m in re.finditer(row["pat"], body, re.S)]
    if not found:
        return "missing", f"expression `{row['pat']}` not found at anchor `{row['func']}` in {row['file']}"
    if row["count"] is not None and len(found) != row["count"]:
        return "missing", f"{len(found)} sites instead of {row['count']} for `{row['pat']}` at `{row['func']}` in {row['file']}"
    norm = {re.sub(r"\s+", "", f) for f in found}
    if len(norm) != 1:
        return "missing", f"sites disagree ({sorted(norm)}) for `{row['pat']}` at `{row['func']}` in {row['file']}"
    tok = norm.pop()
    m = _INT.match(tok)
    if m:
        return "lit", int(m.group(1), 0)
    return "expr", found[0]


# ------------------------------------------------------------------------------------------------ probe
PROBE_INCLUDES = ["cstdint", "cstdio", "chrono", "tins/tins.h"]


def probe_source(items):
    """items: list of (name, setup, expr, includes)"""
    incs = list(PROBE_INCLUDES)
    for _, _, _, extra in items:
        for i in extra:
            if i not in incs:
                incs.append(i)
    L = [f"#include <{i}>" for i in incs]
    L += ["using namespace Tins;", "template <class V> static void put(const char* n, V v) {",
          "    std::printf(\"%s %llu\\n\", n, (unsigned long long)v);", "}", "int main() {"]
    for name, setup, expr, _ in items:
        L.append("    { " + setup + " put(\"" + name + "\", (" + expr + ")); }")
    L += ["    return 0;", "}", ""]
    return "\n".join(L)


def run_probe(items, lib):
    """compile + run; returns ({name: value}, {name: error})"""
    if not items:
        return {}, {}
    bdir = os.path.dirname(lib)
    src = probe_source(items)
    key = hashlib.sha256(src.encode()).hexdigest()[:12]
    cache = os.path.join(bdir, f"limits-probe-{key}.json")
    with core.Lock("limits-probe"):
        if os.path.exists(cache):
            d = json.load(open(cache))
            return d["values"], d["errors"]
        values, errors = _compile_and_run(items, lib, bdir, key)
        if len(items) > 1 and not values:
            # one bad expression fails the whole translation unit: find out which by compiling them one by one
            values, errors = {}, {}
            for it in items:
                v, e = _compile_and_run([it], lib, bdir, key + "-" + it[0])
                values.update(v)
                errors.update(e)
        with open(cache + ".tmp", "w") as f:
            json.dump({"values": values, "errors": errors}, f)
        os.rename(cache + ".tmp", cache)
        return values, errors


def _compile_and_run(items, lib, bdir, key):
    cpp = os.path.join(bdir, f"limits-probe-{key}.cpp")
    exe = os.path.join(bdir, f"limits-probe-{key}")
    with open(cpp, "w") as f:
        f.write(probe_source(items))
    flags = ["-std=c++11", f"-D{core.GUARD}", "-I" + os.path.join(REPO, "include"), "-I" + os.path.join(REPO, "src"),
             "-w", "-fno-access-control"] + core.SAN_FLAGS["asan"]
    r = core._run(["g++"] + flags + [cpp, lib, "-o", exe] + core.LINK_LIBS)
    if r.returncode != 0:
        err = r.stderr[-1500:]
        return {}, {it[0]: "probe does not compile: " + err for it in items}
    env = dict(os.environ, ASAN_OPTIONS="detect_leaks=0")
    try:
        rr = subprocess.run([exe], stdout=subprocess.PIPE, stderr=subprocess.PIPE, text=True, timeout=120, env=env)
    except subprocess.TimeoutExpired:
        return {}, {it[0]: "probe hangs" for it in items}
    values = {}
    for line in rr.stdout.split("\n"):
        w = line.split(" ")
        if len(w) == 2 and w[1].isdigit():
            values[w[0]] = int(w[1])
    errors = {it[0]: "probe aborted: " + rr.stderr[-600:] for it in items if it[0] not in values}
    for p in (cpp, exe):
        try:
            os.remove(p)
        except OSError:
            pass
    return values, errors


# ------------------------------------------------------------------------------------------------ extraction + rendering
def extract():
    """-> list of (row, value or None, reason or None)"""
    lib, err = core.build_impl("asan")
    res, items = {}, []
    for row in LIMITS:
        if row["how"] == "probe":
            items.append((row["name"], row["setup"], row["expr"], row["includes"]))
        else:
            kind, v = extract_text(row)
            if kind == "lit":
                res[row["name"]] = (v, None)
            elif kind == "expr":
                items.append((row["name"], "", v, []))
            else:
                res[row["name"]] = (None, v)
    if lib is None:
        for it in items:
            res[it[0]] = (None, "the implementation does not build")
    else:
        values, errors = run_probe(items, lib)
        for it in items:
            if it[0] in values:
                res[it[0]] = (values[it[0]], None)
            else:
                res[it[0]] = (None, errors.get(it[0], "no value")[:300])
    return [(row,) + res[row["name"]] for row in LIMITS]


def anchor_of(row):
    if row["how"] == "probe":
        return "probe: " + (row["setup"] + " " if row["setup"] else "") + row["expr"]
    return f"text: {row['file']} @ {row['func'] or '(file scope)'} : {row['pat']}"


def lean_str(s):
    return '"' + s.replace("\\", "\\\\").replace('"', '\\"').replace("\n", " ") + '"'


def render(rows):
    props = sorted({p for row, _, _ in rows for p in row["props"]})
    L = ["/- GENERATED by translator/gen_limits.py from the repo's current source (compiled probe + preprocessed function",
         "   bodies at named anchors) — do not edit.  A constant whose anchor was not found is 0 and listed in `notFound`. -/",
         "namespace Tins.Gen.Limits", ""]
    for row, v, why in rows:
        L.append(f"/-- {row['doc']}")
        L.append(f"    [{anchor_of(row)}]" + (f"  NOT FOUND: {why}" if v is None else "") + " -/")
        L.append(f"def {row['name']} : Nat := {0 if v is None else v}")
        L.append("")
    L.append("/-- constants whose anchor was not found in the current source (name, reason) -/")
    nf = [(row, why) for row, v, why in rows if v is None]
    L.append("def notFound : List (String × String) := [" +
             ", ".join(f"({lean_str(r['name'])}, {lean_str(w or '')})" for r, w in nf) + "]")
    L.append("")
    for p in props:
        names = [r["name"] for r, _ in nf if p in r["props"]]
        L.append(f"/-- the constants of property {p} that were not found -/")
        L.append(f"def notFound{p} : List String := [" + ", ".join(lean_str(n) for n in names) + "]")
    L.append("")
    L.append("/-- every constant with the properties it concerns (name, value, properties) -/")
    L.append("def table : List (String × Nat × List String) := [")
    L.append(",\n".join(f"  ({lean_str(row['name'])}, {0 if v is None else v}, [" + ", ".join(lean_str(p) for p in row["props"]) + "])"
                        for row, v, _ in rows) + "]")
    L += ["", "end Tins.Gen.Limits", ""]
    return "\n".join(L)


_values = None


def values(refresh=False):
    """{name: value or None} of the current source (for the generators of the checks)"""
    global _values
    if _values is None or refresh:
        _values = {row["name"]: v for row, v, _ in extract()}
    return _values


def main(argv=None):
    global _values
    rows = extract()
    _values = {row["name"]: v for row, v, _ in rows}
    text = render(rows)
    os.makedirs(os.path.dirname(OUT), exist_ok=True)
    old = open(OUT).read() if os.path.exists(OUT) else None
    if old != text:
        with open(OUT, "w") as fh:
            fh.write(text)
        return True
    return False


if __name__ == "__main__":
    changed = main(sys.argv[1:])
    print("regenerated" if changed else "unchanged", OUT)
    for row, v, why in extract():
        if v is None:
            print("NOT FOUND", row["name"], why)
