#!/usr/bin/env python3
"""translator/gen_limits.py — protocol constants and limits of the C++ source -> lean/TinsModel/Gen/Limits.lean.

Every numeric constant a Lean model hard-codes (defaults of the stream follower, the DNS pointer-jump cap, minimum
frame sizes, RFC 4884 minimum, small-buffer size, header-length maxima, length units, ...) is extracted from the repo's
CURRENT source at a *named anchor* and written as a Lean definition.  `lean/TinsModel/Props/Limits/Cxx.lean` ties each
of them to the numeral the model / spec of property Cxx uses (theorems `limits_agree_*`), so a changed constant breaks a
proof obligation of exactly the properties it concerns.

Two extraction methods, both decided by the compiler, not by a guess:

  probe   a C++ expression evaluated by a probe program compiled against the current headers (-fno-access-control) and
          linked with the current build of the library: `static const` members, `sizeof`, default-constructed objects'
          private members, sizes of default-constructed packets (`EthernetII().size()`), ...
  text    a literal inside a function body: the source file goes through the C preprocessor (`g++ -E -P`, same include
          path and config.h as the build), the body of the named function is located, and a normalised expression with
          one capture group is searched in it.  All matches must agree and there must be exactly the expected number of
          them.  The captured text is an integer literal, or a C constant expression which is then evaluated by the
          probe program (e.g. `sizeof(uint32_t) * 3`).

A constant whose anchor is not found (or whose sites disagree) is emitted as 0 and its name is listed in
`notFound`/`notFoundCxx`; the theorems `limits_found_Cxx` and `limits_agree_*` then fail and the check goes to its
search step — the translator never guesses.

`values()` gives the same table to the generators of the checks (boundary cases at the value the source currently says).
"""
import hashlib, json, os, re, subprocess, sys

HERE = os.path.dirname(os.path.abspath(__file__))
VERIF = os.path.dirname(HERE)
sys.path.insert(0, VERIF)
from vlib import core

REPO = core.REPO
OUT = os.path.join(VERIF, "lean", "TinsModel", "Gen", "Limits.lean")

# ------------------------------------------------------------------------------------------------ the table
# name, properties, doc, then either probe=<C++ expression> (+ setup=<statements before it>) or
# text=(file, function anchor regex, pattern with one group, expected number of matches or None for ">= 1")


def P(name, props, doc, expr, setup="", includes=()):
    return dict(name=name, props=props, doc=doc, how="probe", expr=expr, setup=setup, includes=list(includes))


def T(name, props, doc, file, func, pat, count=None):
    return dict(name=name, props=props, doc=doc, how="text", file=file, func=func, pat=pat, count=count)


FOLLOWER_H = ["tins/tcp_ip/stream_follower.h"]

LIMITS = []      # filled below (kept in one list so the order of the generated file is the order of this file)


def _add(*rows):
    LIMITS.extend(rows)


# --- C07 / C06 / C19: stream follower, flows, trackers
_add(
    P("followerMaxChunks", ["C07"], "`max_buffered_chunks_` of a default-constructed `StreamFollower` (`DEFAULT_MAX_BUFFERED_CHUNKS`)",
      "f.max_buffered_chunks_", "Tins::TCPIP::StreamFollower f;", FOLLOWER_H),
    P("followerMaxBytes", ["C07"], "`max_buffered_bytes_` of a default-constructed `StreamFollower` (`DEFAULT_MAX_BUFFERED_BYTES`)",
      "f.max_buffered_bytes_", "Tins::TCPIP::StreamFollower f;", FOLLOWER_H),
    P("followerKeepAliveUs", ["C07"], "`stream_keep_alive_` of a default-constructed `StreamFollower`, in microseconds (`DEFAULT_KEEP_ALIVE`)",
      "std::chrono::duration_cast<std::chrono::microseconds>(f.stream_keep_alive_).count()", "Tins::TCPIP::StreamFollower f;",
      FOLLOWER_H),
    P("followerConstMaxChunks", ["C07"], "`StreamFollower::DEFAULT_MAX_BUFFERED_CHUNKS`",
      "Tins::TCPIP::StreamFollower::DEFAULT_MAX_BUFFERED_CHUNKS", "", FOLLOWER_H),
    P("followerConstMaxBytes", ["C07"], "`StreamFollower::DEFAULT_MAX_BUFFERED_BYTES`",
      "Tins::TCPIP::StreamFollower::DEFAULT_MAX_BUFFERED_BYTES", "", FOLLOWER_H),
    P("followerConstMaxSacked", ["C07"], "`StreamFollower::DEFAULT_MAX_SACKED_INTERVALS`",
      "Tins::TCPIP::StreamFollower::DEFAULT_MAX_SACKED_INTERVALS", "", FOLLOWER_H),
    P("followerConstKeepAliveUs", ["C07"], "`StreamFollower::DEFAULT_KEEP_ALIVE` in microseconds",
      "std::chrono::duration_cast<std::chrono::microseconds>(Tins::TCPIP::StreamFollower::DEFAULT_KEEP_ALIVE).count()", "",
      FOLLOWER_H),
)


# --- sequence numbers (C06 C07 C19)
_add(
    T("seqNumberDiff", ["C06", "C07", "C19"], "`seq_number_diff` of `Internals::seq_compare` (RFC 1982 half of the serial space)",
      "src/detail/sequence_number_helpers.cpp", r"\bint\s+seq_compare\s*\(", r"seq_number_diff\s*=\s*([0-9a-fA-FxXuUlL]+)\s*;", 1),
    P("uint32Max", ["C19"], "`std::numeric_limits<uint32_t>::max()` (AckTracker / AckedRange wrap tests)",
      "std::numeric_limits<uint32_t>::max()", "", ["limits"]),
)

# --- C08: IPv4 reassembly
_add(
    T("fragOffsetUnit", ["C08"], "`IPv4Stream::extract_offset`: bytes per unit of the fragment offset field",
      "src/ip_reassembler.cpp", r"IPv4Stream::extract_offset\s*\(", r"fragment_offset\s*\(\s*\)\s*\*\s*(\d+)", 1),
    T("reasmMaxDatagram", ["C08"], "`IPv4Stream::allocate_pdu`: largest datagram (header + payload) that is reassembled (RFC 791)",
      "src/ip_reassembler.cpp", r"IPv4Stream::allocate_pdu\s*\(", r"header_size\s*\(\s*\)\s*\+\s*total_size_\s*>\s*(\d+)", 1),
    P("ipMoreFragments", ["C08"], "`IP::MORE_FRAGMENTS`", "Tins::IP::MORE_FRAGMENTS"),
    P("ipDontFragment", ["C08"], "`IP::DONT_FRAGMENT`", "Tins::IP::DONT_FRAGMENT"),
    P("ipDefaultTtl", ["C08", "Wire"], "`ttl()` of a default-constructed `IP` (`IP::DEFAULT_TTL`)", "ip.ttl()", "Tins::IP ip;"),
)

# --- C10 (and C01 through the DNS accessors): names
_add(
    T("dnsPointerJumpCap", ["C10"], "`DNS::compose_name`: `if (pointer_counter++ > CAP) throw dns_decompression_pointer_loops()`",
      "src/dns.cpp", r"DNS::compose_name\s*\(", r"pointer_counter\s*\+\+\s*>\s*(\d+)", 1),
    T("dnsNameCap", ["C10"], "`DNS::compose_name`: `current_out_ptr - out_ptr + size + 1 > CAP` rejects the label",
      "src/dns.cpp", r"DNS::compose_name\s*\(", r"current_out_ptr\s*-\s*out_ptr\s*\+\s*size\s*\+\s*1\s*>\s*(\d+)", 1),
    T("dnsNameBuf", ["C10"], "the `char[N]` buffers `compose_name` writes into (`convert_records`: dname; `queries`: buffer)",
      "src/dns.cpp", None, r"char\s+(?:dname|buffer)\s*\[\s*(\d+)\s*\]", 2),
    T("dnsSmallAddrBuf", ["C10"], "`convert_records`: `small_addr_buf[N]`",
      "src/dns.cpp", r"void\s+DNS::convert_records\s*\(", r"small_addr_buf\s*\[\s*(\d+)\s*\]", 1),
    T("dnsDecodeCap", ["C10"], "`DNS::decode_domain_name`: `if (output.size() > CAP) throw invalid_domain_name()`",
      "src/dns.cpp", r"DNS::decode_domain_name\s*\(", r"output\s*\.\s*size\s*\(\s*\)\s*>\s*(\d+)", 1),
    T("dnsPointerMask", ["C10"], "`& 0x3fff`: the 14 offset bits of a compression pointer (compose_name, update_dname, skip_to_dname_end)",
      "src/dns.cpp", None, r"&\s*(0x3fff)\b", None),
    T("dnsPointerMax", ["C10"], "`DNS::update_dname`: `if (index + offset > MAX) throw malformed_packet()`",
      "src/dns.cpp", r"DNS::update_dname\s*\(", r"index\s*\+\s*offset\s*>\s*(0x[0-9a-fA-F]+|\d+)", 1),
    T("dnsPointerLow", ["C10"], "`DNS::compose_name`: `index < LOW` (a pointer into the header) is out of bounds; records_data_ starts at LOW",
      "src/dns.cpp", r"DNS::compose_name\s*\(", [r"index\s*<\s*(0x[0-9a-fA-F]+|\d+)", r"index\s*-\s*(0x[0-9a-fA-F]+|\d+)"], 3),
    P("dnsHeaderSize", ["C10", "Wire"], "`sizeof(DNS::dns_header)` = `DNS().header_size()`", "sizeof(Tins::DNS::dns_header)"),
    P("dnsTypeMX", ["C10"], "`DNS::MX`", "Tins::DNS::MX"),
    P("dnsTypeSOA", ["C10"], "`DNS::SOA`", "Tins::DNS::SOA"),
    P("dnsTypeA", ["C10"], "`DNS::A`", "Tins::DNS::A"),
    P("dnsTypeAAAA", ["C10"], "`DNS::AAAA`", "Tins::DNS::AAAA"),
    P("dnsTypeNS", ["C10"], "`DNS::NS`", "Tins::DNS::NS"),
    P("dnsTypeCNAME", ["C10"], "`DNS::CNAME`", "Tins::DNS::CNAME"),
    P("dnsTypePTR", ["C10"], "`DNS::PTR`", "Tins::DNS::PTR"),
)

# --- minimum frame sizes (C05; C02/C03 through the wire models)
_add(
    T("ethMinFrameText", ["C05", "Wire"], "`EthernetII::trailer_size`: `int32_t padding = MIN - sizeof(header_)`",
      "src/ethernetII.cpp", r"EthernetII::trailer_size\s*\(", r"padding\s*=\s*(\d+)\s*-\s*sizeof\s*\(\s*header_\s*\)", 1),
    P("ethMinFrame", ["C05", "Wire"], "`size()` of an `EthernetII` frame without payload (header + padding trailer)",
      "e.header_size() + e.trailer_size()", "Tins::EthernetII e;"),
    T("dot1qMinText", ["C05", "Wire"], "`Dot1Q::trailer_size`: `(total_size > MIN) ? 0 : (MIN - total_size)`",
      "src/dot1q.cpp", r"Dot1Q::trailer_size\s*\(", [r"total_size\s*>\s*(\d+)", r"\(\s*(\d+)\s*-\s*total_size\s*\)"], 2),
    P("dot1qMin", ["C05", "Wire"], "`header_size() + trailer_size()` of a padding `Dot1Q` tag without payload",
      "q.header_size() + q.trailer_size()", "Tins::Dot1Q q; q.append_padding(true);"),
)

# --- RFC 4884 (ICMP / ICMPv6 extensions)
_add(
    P("icmpMinPayload", ["C05", "Wire"], "`ICMPExtensionsStructure::MINIMUM_ICMP_PAYLOAD` (read by `try_parse_icmp_extensions`)",
      "Tins::ICMPExtensionsStructure::MINIMUM_ICMP_PAYLOAD"),
    T("icmpMinPayloadTrailer", ["C05", "Wire"], "`ICMP::trailer_size`: `adjusted_size > MIN ? adjusted_size : MIN`",
      "src/icmp.cpp", r"\bICMP::trailer_size\s*\(", r"adjusted_size\s*>\s*(\d+)U?\s*\?\s*adjusted_size\s*:\s*(\d+)U?", 2),
    T("icmpMinPayloadWrite", ["C05", "Wire"], "`ICMP::write_serialization`: every site of the 128-byte minimum "
      "(`length_value > MIN` x2, `: MIN`, `inner_pdu_size < MIN`, `MIN - inner_pdu_size`, `inner_pdu_size = MIN`)",
      "src/icmp.cpp", r"\bICMP::write_serialization\s*\(",
      [r"length_value\s*>\s*(\d+)U?", r"\?\s*length_value\s*:\s*(\d+)U?", r"inner_pdu_size\s*<\s*(\d+)U?",
       r"(\d+)U?\s*-\s*inner_pdu_size", r"inner_pdu_size\s*=\s*(\d+)U?\s*;"], 6),
    T("icmp6MinPayloadTrailer", ["C05", "Wire"], "`ICMPv6::trailer_size`: `get_adjusted_inner_pdu_size() > MIN ? ... : MIN`",
      "src/icmpv6.cpp", r"\bICMPv6::trailer_size\s*\(", [r"get_adjusted_inner_pdu_size\s*\(\s*\)\s*>\s*(\d+)U?\s*\)", r":\s*(\d+)U?\s*;"], 2),
    T("icmp6MinPayloadWrite", ["C05", "Wire"], "`ICMPv6::write_serialization`: every site of the 128-byte minimum",
      "src/icmpv6.cpp", r"\bICMPv6::write_serialization\s*\(",
      [r"length_value\s*>\s*(\d+)U?\s*\)", r"\?\s*length_value\s*:\s*(\d+)U?", r"inner_pdu_size\s*<\s*(\d+)U?",
       r"(\d+)U?\s*-\s*inner_pdu_size", r"inner_pdu_size\s*=\s*(\d+)U?\s*;"], 6),
    T("icmpLengthUnit", ["C05", "Wire"], "`ICMP`: unit of the RFC 4884 length field / padding alignment "
      "(`length_value / sizeof(uint32_t)`, `get_padded_icmp_inner_pdu_size(.., sizeof(uint32_t))`, `length() * sizeof(uint32_t)`)",
      "src/icmp.cpp", None,
      [r"rfc4884\s*\.\s*length\s*=\s*length_value\s*/\s*(sizeof\s*\(\s*\w+\s*\)|\d+)",
       r"get_padded_icmp_inner_pdu_size\s*\(\s*inner_pdu\s*\(\s*\)\s*,\s*(sizeof\s*\(\s*\w+\s*\)|\d+)\s*\)",
       r"length\s*\(\s*\)\s*\*\s*(sizeof\s*\(\s*\w+\s*\)|\d+)\s*,"], 3),
    T("icmp6LengthUnit", ["C05", "Wire"], "`ICMPv6`: unit of the RFC 4884 length field / padding alignment",
      "src/icmpv6.cpp", None,
      [r"rfc4884\s*\.\s*length\s*=\s*length_value\s*/\s*(sizeof\s*\(\s*\w+\s*\)|\d+)",
       r"get_padded_icmp_inner_pdu_size\s*\(\s*inner_pdu\s*\(\s*\)\s*,\s*(sizeof\s*\(\s*\w+\s*\)|\d+)\s*\)",
       r"length\s*\(\s*\)\s*\*\s*(sizeof\s*\(\s*\w+\s*\)|\d+)\s*,"], 3),
    P("icmpExtObjHeader", ["Wire"], "`ICMPExtension::BASE_HEADER_SIZE`", "Tins::ICMPExtension::BASE_HEADER_SIZE"),
    P("icmpExtStructHeader", ["Wire"], "`ICMPExtensionsStructure::BASE_HEADER_SIZE`", "Tins::ICMPExtensionsStructure::BASE_HEADER_SIZE"),
    P("icmpExtVersion", ["Wire"], "`version()` of a default-constructed `ICMPExtensionsStructure`", "x.version()", "Tins::ICMPExtensionsStructure x;"),
    P("icmpHdrTimestamp", ["C05", "Wire"], "`header_size()` of an ICMP timestamp request", "i.header_size()", "Tins::ICMP i(Tins::ICMP::TIMESTAMP_REQUEST);"),
    P("icmpHdrAddressMask", ["C05", "Wire"], "`header_size()` of an ICMP address mask request", "i.header_size()", "Tins::ICMP i(Tins::ICMP::ADDRESS_MASK_REQUEST);"),
)

# --- header-length fields: units and maxima
_add(
    T("ipMaxHeadLen", ["C05", "Wire"], "`IP::write_serialization`: `if (new_head_len > MAX) throw serialization_error()`",
      "src/ip.cpp", r"\bIP::write_serialization\s*\(", r"new_head_len\s*>\s*(\d+)", 1),
    T("ipHeadLenUnit", ["C05", "Wire"], "`IP::write_serialization`: `header_size() / UNIT`",
      "src/ip.cpp", r"\bIP::write_serialization\s*\(", r"new_head_len\s*=\s*header_size\s*\(\s*\)\s*/\s*(sizeof\s*\(\s*\w+\s*\)|\d+)", 1),
    T("tcpMaxDataOffset", ["C05", "Wire"], "`TCP::write_serialization`: `if (new_doff > MAX) throw serialization_error()`",
      "src/tcp.cpp", r"\bTCP::write_serialization\s*\(", r"new_doff\s*>\s*(\d+)", 1),
    T("tcpDataOffsetUnit", ["C05", "Wire"], "`TCP::write_serialization`: `(sizeof(tcp_header) + total_options_size) / UNIT`",
      "src/tcp.cpp", r"\bTCP::write_serialization\s*\(", r"total_options_size\s*\)\s*/\s*(sizeof\s*\(\s*\w+\s*\)|\d+)", 1),
    T("ipv6ExtUnit", ["C05", "Wire"], "IPv6 extension headers: `(len + 1) * UNIT` (both parser loops), `length_field() / UNIT`, "
      "`total_size / UNIT - 1` (write_header), `% UNIT` and `UNIT - padding` (get_padding_size)",
      "src/ipv6.cpp", None,
      [r"read\s*<\s*uint8_t\s*>\s*\(\s*\)\s*\)\s*\+\s*1\s*\)\s*\*\s*(\d+)", r"length_field\s*\(\s*\)\s*/\s*(\d+)",
       r"total_size\s*/\s*(\d+)\s*-\s*1", r"\*\s*2\s*\)\s*%\s*(\d+)", r"\(\s*(\d+)\s*-\s*padding\s*\)"], 6),
    T("ipv6MatchExtUnit", ["C14"], "`IPv6::matches_response`: `(ptr[1] + 1) * UNIT`",
      "src/ipv6.cpp", r"\bIPv6::matches_response\s*\(", r"ptr\s*\[\s*1\s*\]\s*\+\s*1\s*\)\s*\*\s*(\d+)", 3),
    P("optionMaxTotal", ["Wire"], "largest `length_field()` of a `PDUOption`: the first size `set_value`-style constructors reject is one more "
      "(`if (total_size > 65535) throw option_payload_too_large()`)",
      "probe_option_max()", "", []),
    P("optionSmallBuffer", ["C12", "Wire"], "`PDUOption<>::small_buffer_size`", "Tins::PDUOption<uint8_t, Tins::PDU>::small_buffer_size"),
)

# --- header sizes as the objects report them (`header_size()` of a default-constructed object = sizeof(header struct))
def _hdr(name, cls, ctor="", props=("C05", "Wire"), inc=()):
    return P("hdr" + name, list(props), f"`{cls}({ctor}).header_size()`", "o.header_size()", f"Tins::{cls} o{('(' + ctor + ')') if ctor else ''};", inc)


_add(
    _hdr("EthernetII", "EthernetII"), _hdr("Dot3", "Dot3"), _hdr("Dot1Q", "Dot1Q"), _hdr("Snap", "SNAP"), _hdr("Llc", "LLC", props=("Wire",)),
    _hdr("Mpls", "MPLS"), _hdr("PPPoE", "PPPoE"), _hdr("Sll", "SLL"), _hdr("Loopback", "Loopback"),
    P("hdrPpi", ["Wire"], "`sizeof(PPI::ppi_header)`", "sizeof(Tins::PPI::ppi_header)"),
    P("hdrPktap", ["Wire"], "`sizeof(PKTAP::pktap_header)`", "sizeof(Tins::PKTAP::pktap_header)"),
    _hdr("Ip", "IP"), _hdr("Ipv6", "IPv6"), _hdr("Tcp", "TCP"), _hdr("Udp", "UDP"), _hdr("Icmp", "ICMP"), _hdr("Icmpv6", "ICMPv6"),
    _hdr("IpsecAh", "IPSecAH"), _hdr("IpsecEsp", "IPSecESP"),
    _hdr("Arp", "ARP", props=("Wire",)), _hdr("BootP", "BootP", props=("Wire",)), _hdr("Stp", "STP", props=("Wire",)),
    _hdr("Vxlan", "VXLAN", props=("Wire",)), _hdr("Rtp", "RTP", props=("Wire",)),
    _hdr("Dhcpv6", "DHCPv6", props=("Wire",)),
    P("hdrDot11", ["Wire"], "`sizeof(Dot11::dot11_header)`", "sizeof(Tins::Dot11::dot11_header)"),
    P("hdrRadioTap", ["Wire", "C11"], "`sizeof(RadioTap::radiotap_header)`", "sizeof(Tins::RadioTap::radiotap_header)"),
    P("bootpVendSize", ["Wire"], "`vend().size()` of a default-constructed `BootP`", "o.vend().size()", "Tins::BootP o;"),
    P("tcpDefaultWindow", ["Wire"], "`window()` of a default-constructed `TCP` (`TCP::DEFAULT_WINDOW`)", "o.window()", "Tins::TCP o;"),
    P("tcpDefaultDataOffset", ["Wire"], "`data_offset()` of a default-constructed `TCP`", "o.data_offset()", "Tins::TCP o;"),
)

# --- checksum field offsets (C05)
_add(
    P("offIpCheck", ["C05", "Wire"], "`offsetof(IP::ip_header, check)`", "offsetof(Tins::IP::ip_header, check)", "", ["cstddef"]),
    P("offTcpCheck", ["C05", "Wire"], "`offsetof(TCP::tcp_header, check)`", "offsetof(Tins::TCP::tcp_header, check)", "", ["cstddef"]),
    P("offUdpCheck", ["C05", "Wire"], "`offsetof(UDP::udp_header, check)`", "offsetof(Tins::UDP::udp_header, check)", "", ["cstddef"]),
    P("offIcmpCheck", ["C05", "Wire"], "`offsetof(ICMP::icmp_header, check)`", "offsetof(Tins::ICMP::icmp_header, check)", "", ["cstddef"]),
    P("offIcmpv6Check", ["C05", "Wire"], "`offsetof(ICMPv6::icmp6_header, cksum)`", "offsetof(Tins::ICMPv6::icmp6_header, cksum)", "", ["cstddef"]),
)

# --- registry numbers the models restate (constants.h and class enums)
_add(
    P("protoTcp", ["C05", "Wire"], "`Constants::IP::PROTO_TCP`", "Tins::Constants::IP::PROTO_TCP"),
    P("protoUdp", ["C05", "Wire"], "`Constants::IP::PROTO_UDP`", "Tins::Constants::IP::PROTO_UDP"),
    P("protoIcmp", ["C05"], "`Constants::IP::PROTO_ICMP`", "Tins::Constants::IP::PROTO_ICMP"),
    P("protoIcmpv6", ["C05", "Wire"], "`Constants::IP::PROTO_ICMPV6`", "Tins::Constants::IP::PROTO_ICMPV6"),
    P("protoNone", ["C05"], "`IPv6::NO_NEXT_HEADER`", "Tins::IPv6::NO_NEXT_HEADER"),
    P("ethPppoeSession", ["Wire"], "`Constants::Ethernet::PPPOES`", "Tins::Constants::Ethernet::PPPOES"),
    P("ethPppoeDiscovery", ["Wire"], "`Constants::Ethernet::PPPOED`", "Tins::Constants::Ethernet::PPPOED"),
    P("ethQinQ", ["Wire"], "`Constants::Ethernet::QINQ`", "Tins::Constants::Ethernet::QINQ"),
    P("pfInet", ["C05", "Wire"], "`PF_INET` (this platform)", "PF_INET", "", ["sys/socket.h"]),
    P("pfInet6", ["C05", "Wire"], "`PF_INET6` (this platform)", "PF_INET6", "", ["sys/socket.h"]),
    P("pfLlc", ["C05", "Wire"], "`PF_LLC` (this platform)", "PF_LLC", "", ["sys/socket.h"]),
    P("snapDefaultSap", ["C05", "Wire"], "`dsap()` of a default-constructed `SNAP`", "o.dsap()", "Tins::SNAP o;"),
    P("snapDefaultControl", ["Wire"], "`control()` of a default-constructed `SNAP`", "o.control()", "Tins::SNAP o;"),
    P("tcpFlagFin", ["C07"], "`TCP::FIN`", "Tins::TCP::FIN"), P("tcpFlagSyn", ["C07"], "`TCP::SYN`", "Tins::TCP::SYN"),
    P("tcpFlagRst", ["C07"], "`TCP::RST`", "Tins::TCP::RST"), P("tcpFlagAck", ["C07"], "`TCP::ACK`", "Tins::TCP::ACK"),
    P("tcpOptEol", ["Wire"], "`TCP::EOL`", "Tins::TCP::EOL"), P("tcpOptNop", ["Wire"], "`TCP::NOP`", "Tins::TCP::NOP"),
    P("tcpOptMss", ["Wire"], "`TCP::MSS`", "Tins::TCP::MSS"), P("tcpOptSack", ["Wire"], "`TCP::SACK`", "Tins::TCP::SACK"),
    P("tcpOptSackOk", ["Wire"], "`TCP::SACK_OK`", "Tins::TCP::SACK_OK"), P("tcpOptTsopt", ["Wire"], "`TCP::TSOPT`", "Tins::TCP::TSOPT"),
    P("tcpOptWscale", ["Wire"], "`TCP::WSCALE`", "Tins::TCP::WSCALE"), P("tcpOptAltchk", ["Wire"], "`TCP::ALTCHK`", "Tins::TCP::ALTCHK"),
    P("ipOptEnd", ["Wire"], "`IP::END`", "Tins::IP::END"), P("ipOptNoop", ["Wire"], "`IP::NOOP`", "Tins::IP::NOOP"),
    P("dhcpMagicCookie", ["Wire"], "the magic cookie `DHCP::write_serialization` stores (read back from a serialized default `DHCP`)",
      "probe_dhcp_cookie()", ""),
    P("dhcpOptEnd", ["Wire"], "`DHCP::END`", "Tins::DHCP::END"), P("dhcpOptPad", ["Wire"], "`DHCP::PAD`", "Tins::DHCP::PAD"),
)

# --- addresses (C16)
_add(
    P("ipv4AddressSize", ["C16"], "`IPv4Address::address_size`", "Tins::IPv4Address::address_size"),
    P("ipv6AddressSize", ["C16", "C07"], "`IPv6Address::address_size`", "Tins::IPv6Address::address_size"),
    P("hwAddressSize", ["C16"], "`HWAddress<6>::address_size`", "Tins::HWAddress<6>::address_size"),
    T("ipv6ToStringBufferSize", ["C16"], "`IPv6Address::to_string`: `char buffer[INET6_ADDRSTRLEN]` handed to `inet_ntop` with `sizeof(buffer)` (preprocessed)",
      "src/ipv6_address.cpp", r"IPv6Address::to_string\s*\(", r"char\s+buffer\s*\[\s*(\d+)\s*\]", 1),
)

# --- capture (C17)
_add(
    T("microsecondsInSecond", ["C17"], "`MICROSECONDS_IN_SECOND` (src/timestamp.cpp)",
      "src/timestamp.cpp", None, r"MICROSECONDS_IN_SECOND\s*=\s*(\d+)\s*;", 1),
    T("isDot3MinSize", ["C17", "Wire"], "`Internals::is_dot3`: `sz >= MIN`", "include/tins/detail/pdu_helpers.h", r"\bis_dot3\s*\(",
      r"sz\s*>=\s*(\d+)", 1),
    T("isDot3Offset", ["C17", "Wire"], "`Internals::is_dot3`: `ptr[OFF] < LIM`", "include/tins/detail/pdu_helpers.h", r"\bis_dot3\s*\(",
      r"ptr\s*\[\s*(\d+)\s*\]\s*<", 1),
    T("isDot3Limit", ["C17", "Wire"], "`Internals::is_dot3`: `ptr[OFF] < LIM`", "include/tins/detail/pdu_helpers.h", r"\bis_dot3\s*\(",
      r"ptr\s*\[\s*\d+\s*\]\s*<\s*(\d+)", 1),
    P("snifferDefaultSnapLen", ["C17"], "`SnifferConfiguration::DEFAULT_SNAP_LEN`", "Tins::SnifferConfiguration::DEFAULT_SNAP_LEN"),
)

PROBE_HELPERS = r"""
static unsigned long long probe_option_max() {
    // largest data size the option constructor accepts (it throws option_payload_too_large above it)
    unsigned long long ok = 0;
    for (unsigned long long n = 65000; n < 70000; ++n) {
        try { std::vector<uint8_t> v(n); Tins::PDUOption<uint8_t, Tins::PDU> o(1, v.begin(), v.end()); ok = n; }
        catch (Tins::option_payload_too_large&) { break; }
    }
    return ok;
}
static unsigned long long probe_dhcp_cookie() {
    Tins::DHCP d;
    std::vector<uint8_t> b = d.serialize();
    size_t at = sizeof(Tins::BootP::bootp_header);
    if (b.size() < at + 4) return 0;
    return ((unsigned long long)b[at] << 24) | (b[at + 1] << 16) | (b[at + 2] << 8) | b[at + 3];
}
"""

# ------------------------------------------------------------------------------------------------ text extraction
_pp_cache = {}


def preprocessed(relfile):
    """the file's own text after `g++ -E` (line markers are used to drop everything that comes from included files)"""
    if relfile in _pp_cache:
        return _pp_cache[relfile]
    path = os.path.join(REPO, relfile)
    out = None
    if os.path.exists(path):
        r = subprocess.run(["g++", "-std=c++11", "-E", f"-D{core.GUARD}", "-I" + os.path.join(REPO, "include"),
                            "-x", "c++", path], stdout=subprocess.PIPE, stderr=subprocess.PIPE, text=True)
        if r.returncode == 0:
            keep, mine = [], False
            for line in r.stdout.split("\n"):
                m = re.match(r'#\s+\d+\s+"([^"]*)"', line)
                if m:
                    mine = os.path.realpath(m.group(1)) == os.path.realpath(path)
                    continue
                if mine:
                    keep.append(line)
            out = "\n".join(keep)
    _pp_cache[relfile] = out
    return out


def body_after(src, start_pat):
    """text of the first brace block that follows the first match of start_pat (None if absent / unbalanced)"""
    i = -1
    for m in re.finditer(start_pat, src):
        k = src.find("{", m.end() - 1)
        # a `;` between the match and the brace means a declaration was matched, not a definition: look further
        if k >= 0 and ";" not in src[m.end():k]:
            i = k
            break
    if i < 0:
        return None
    depth, j = 0, i
    while j < len(src):
        if src[j] == "{":
            depth += 1
        elif src[j] == "}":
            depth -= 1
            if depth == 0:
                return src[i:j + 1]
        j += 1
    return None


_INT = re.compile(r"^(0[xX][0-9a-fA-F]+|\d+)[uUlL]*$")


def extract_text(row):
    """-> ('lit', int) | ('expr', C expression) | ('missing', reason)"""
    src = preprocessed(row["file"])
    if src is None:
        return "missing", f"{row['file']} does not preprocess"
    body = body_after(src, row["func"]) if row["func"] else src
    if body is None:
        return "missing", f"anchor `{row['func']}` not found in {row['file']}"
    pats = row["pat"] if isinstance(row["pat"], list) else [row["pat"]]
    found = []
    for pat in pats:
        for m in re.finditer(pat, body, re.S):
            found += [g.strip() for g in m.groups() if g is not None]
    if not found:
        return "missing", f"expression `{row['pat']}` not found at anchor `{row['func']}` in {row['file']}"
    if row["count"] is not None and len(found) != row["count"]:
        return "missing", f"{len(found)} sites instead of {row['count']} for `{row['pat']}` at `{row['func']}` in {row['file']}"
    norm = {re.sub(r"\s+", "", f) for f in found}
    if len(norm) != 1:
        return "missing", f"sites disagree ({sorted(norm)}) for `{row['pat']}` at `{row['func']}` in {row['file']}"
    tok = norm.pop()
    m = _INT.match(tok)
    if m:
        return "lit", int(m.group(1), 0)
    return "expr", found[0]


# ------------------------------------------------------------------------------------------------ probe
PROBE_INCLUDES = ["cstdint", "cstdio", "cstddef", "chrono", "limits", "vector", "sys/socket.h", "tins/tins.h", "tins/constants.h", "tins/loopback.h",
                  "tins/pktap.h", "tins/ppi.h", "tins/tcp_ip/stream_follower.h"]


def probe_source(items):
    """items: list of (name, setup, expr, includes)"""
    incs = list(PROBE_INCLUDES)
    for _, _, _, extra in items:
        for i in extra:
            if i not in incs:
                incs.append(i)
    L = [f"#include <{i}>" for i in incs]
    L += [PROBE_HELPERS, "using namespace Tins;", "template <class V> static void put(const char* n, V v) {",
          "    std::printf(\"%s %llu\\n\", n, (unsigned long long)v);", "}", "int main() {"]
    for name, setup, expr, _ in items:
        L.append("    { " + setup + " put(\"" + name + "\", (" + expr + ")); }")
    L += ["    return 0;", "}", ""]
    return "\n".join(L)


def run_probe(items, lib):
    """compile + run; returns ({name: value}, {name: error})"""
    if not items:
        return {}, {}
    bdir = os.path.dirname(lib)
    src = probe_source(items)
    key = hashlib.sha256(src.encode()).hexdigest()[:12]
    cache = os.path.join(bdir, f"limits-probe-{key}.json")
    with core.Lock("limits-probe"):
        if os.path.exists(cache):
            d = json.load(open(cache))
            return d["values"], d["errors"]
        values, errors = _compile_and_run(items, lib, bdir, key)
        if len(items) > 1 and not values:
            # one bad expression fails the whole translation unit: find out which by compiling them one by one
            values, errors = {}, {}
            from concurrent.futures import ThreadPoolExecutor
            with ThreadPoolExecutor(core.NCPU) as ex:
                for v, e in ex.map(lambda it: _compile_and_run([it], lib, bdir, key + "-" + it[0]), items):
                    values.update(v)
                    errors.update(e)
        with open(cache + ".tmp", "w") as f:
            json.dump({"values": values, "errors": errors}, f)
        os.rename(cache + ".tmp", cache)
        return values, errors


def _compile_and_run(items, lib, bdir, key):
    cpp = os.path.join(bdir, f"limits-probe-{key}.cpp")
    exe = os.path.join(bdir, f"limits-probe-{key}")
    with open(cpp, "w") as f:
        f.write(probe_source(items))
    flags = ["-std=c++11", f"-D{core.GUARD}", "-I" + os.path.join(REPO, "include"), "-I" + os.path.join(REPO, "src"),
             "-w", "-fno-access-control"] + core.SAN_FLAGS["asan"]
    r = core._run(["g++"] + flags + [cpp, lib, "-o", exe] + core.LINK_LIBS)
    if r.returncode != 0:
        err = r.stderr[-1500:]
        return {}, {it[0]: "probe does not compile: " + err for it in items}
    env = dict(os.environ, ASAN_OPTIONS="detect_leaks=0")
    try:
        rr = subprocess.run([exe], stdout=subprocess.PIPE, stderr=subprocess.PIPE, text=True, timeout=120, env=env)
    except subprocess.TimeoutExpired:
        return {}, {it[0]: "probe hangs" for it in items}
    values = {}
    for line in rr.stdout.split("\n"):
        w = line.split(" ")
        if len(w) == 2 and w[1].isdigit():
            values[w[0]] = int(w[1])
    errors = {it[0]: "probe aborted: " + rr.stderr[-600:] for it in items if it[0] not in values}
    for p in (cpp, exe):
        try:
            os.remove(p)
        except OSError:
            pass
    return values, errors


# ------------------------------------------------------------------------------------------------ extraction + rendering
def extract():
    """-> list of (row, value or None, reason or None)"""
    lib, err = core.build_impl("asan")
    res, items = {}, []
    for row in LIMITS:
        if row["how"] == "probe":
            items.append((row["name"], row["setup"], row["expr"], row["includes"]))
        else:
            kind, v = extract_text(row)
            if kind == "lit":
                res[row["name"]] = (v, None)
            elif kind == "expr":
                items.append((row["name"], "", v, []))
            else:
                res[row["name"]] = (None, v)
    if lib is None:
        for it in items:
            res[it[0]] = (None, "the implementation does not build")
    else:
        values, errors = run_probe(items, lib)
        for it in items:
            if it[0] in values:
                res[it[0]] = (values[it[0]], None)
            else:
                res[it[0]] = (None, errors.get(it[0], "no value")[:300])
    return [(row,) + res[row["name"]] for row in LIMITS]


def anchor_of(row):
    if row["how"] == "probe":
        return "probe: " + (row["setup"] + " " if row["setup"] else "") + row["expr"]
    return f"text: {row['file']} @ {row['func'] or '(file scope)'} : {row['pat']}"


def lean_str(s):
    return '"' + s.replace("\\", "\\\\").replace('"', '\\"').replace("\n", " ") + '"'


def render(rows):
    props = sorted({p for row, _, _ in rows for p in row["props"]})
    L = ["/- GENERATED by translator/gen_limits.py from the repo's current source (compiled probe + preprocessed function",
         "   bodies at named anchors) — do not edit.  A constant whose anchor was not found is 0 and listed in `notFound`. -/",
         "namespace Tins.Gen.Limits", ""]
    for row, v, why in rows:
        L.append(f"/-- {row['doc']}")
        L.append(f"    [{anchor_of(row)}]" + (f"  NOT FOUND: {why}" if v is None else "") + " -/")
        L.append(f"def {row['name']} : Nat := {0 if v is None else v}")
        L.append("")
    L.append("/-- constants whose anchor was not found in the current source (name, reason) -/")
    nf = [(row, why) for row, v, why in rows if v is None]
    L.append("def notFound : List (String × String) := [" +
             ", ".join(f"({lean_str(r['name'])}, {lean_str(w or '')})" for r, w in nf) + "]")
    L.append("")
    for p in props:
        names = [r["name"] for r, _ in nf if p in r["props"]]
        L.append(f"/-- the constants of property {p} that were not found -/")
        L.append(f"def notFound{p} : List String := [" + ", ".join(lean_str(n) for n in names) + "]")
    L.append("")
    L.append("/-- every constant with the properties it concerns (name, value, properties) -/")
    L.append("def table : List (String × Nat × List String) := [")
    L.append(",\n".join(f"  ({lean_str(row['name'])}, {0 if v is None else v}, [" + ", ".join(lean_str(p) for p in row["props"]) + "])"
                        for row, v, _ in rows) + "]")
    L += ["", "end Tins.Gen.Limits", ""]
    return "\n".join(L)


_values = None


def values(refresh=False):
    """{name: value or None} of the current source (for the generators of the checks)"""
    global _values
    if _values is None or refresh:
        _values = {row["name"]: v for row, v, _ in extract()}
    return _values


def name_failures(chk, problems, mod):
    """When the proof obligations of a check no longer hold: find out which tie theorems of Props/Limits/<mod>.lean fail
    (their module is built alone and the error positions are mapped to theorem names) and put a message naming them — and
    the constants they mention with the values the source currently has — in front of the problem list, so that a
    `no-failing-input-found` replay names the theorem."""
    if not problems:
        return problems
    try:
        ok, text = core.lake_build([f"TinsModel.Props.Limits.{mod}"])
        if ok:
            return problems
        path = os.path.join(VERIF, "lean", "TinsModel", "Props", "Limits", mod + ".lean")
        lines = open(path).read().split("\n")
        starts = [(i + 1, m.group(1)) for i, l in enumerate(lines) for m in [re.match(r"theorem\s+([A-Za-z0-9_.']+)", l)] if m]
        failing = []
        for m in re.finditer(r"error: \S*Props/Limits/" + mod + r"\.lean:(\d+):\d+:", text):
            ln = int(m.group(1))
            owner = [n for (a, n) in starts if a <= ln]
            if owner and owner[-1] not in failing:
                failing.append(owner[-1])
        if not failing:
            return problems
        vals = values()
        body = "\n".join(lines)
        used = {}
        for n in failing:
            a = [i for i, (_, nm) in enumerate(starts) if nm == n][0]
            end = starts[a + 1][0] - 1 if a + 1 < len(starts) else len(lines)
            for c in re.findall(r"Limits\.(\w+)", "\n".join(lines[starts[a][0] - 1:end])):
                if c in vals:
                    used[c] = vals[c]
        msg = (f"tie theorems of lean/TinsModel/Props/Limits/{mod}.lean that no longer check: " + ", ".join(failing) +
               " — the source's current values of the constants they tie: " +
               ", ".join(f"{k} = {v if v is not None else 'NOT FOUND'}" for k, v in sorted(used.items())))
        problems.insert(0, msg)
        pp = getattr(chk, "proof_problems", None)
        if pp is not None and pp is not problems:
            pp.insert(0, msg)
    except Exception as e:      # naming is a convenience: never let it hide the failure itself
        core.log(f"gen_limits.name_failures: {e!r}")
    return problems


def main(argv=None):
    global _values
    rows = extract()
    _values = {row["name"]: v for row, v, _ in rows}
    text = render(rows)
    os.makedirs(os.path.dirname(OUT), exist_ok=True)
    old = open(OUT).read() if os.path.exists(OUT) else None
    if old != text:
        with open(OUT, "w") as fh:
            fh.write(text)
        return True
    return False


if __name__ == "__main__":
    changed = main(sys.argv[1:])
    print("regenerated" if changed else "unchanged", OUT)
    for row, v, why in extract():
        if v is None:
            print("NOT FOUND", row["name"], why)
