#!/usr/bin/env python3
"""Run once after a fresh restore (offline): build the Lean library + driver and the sanitizer build of /repo."""
import os, sys, subprocess
sys.path.insert(0, os.path.dirname(os.path.abspath(__file__)))
from vlib import core

def main():
    os.makedirs(core.WORK, exist_ok=True)
    # regenerate every generated Lean table from /repo's current source before the first lake build
    import glob, importlib
    for f in sorted(glob.glob(os.path.join(core.VERIF, "translator", "gen_*.py"))):
        mod = importlib.import_module("translator." + os.path.basename(f)[:-3])
        if hasattr(mod, "main"):
            try:
                mod.main([])
            except SystemExit:
                pass
    r = core.lake(["build"])
    sys.stderr.write((r.stdout + r.stderr)[-3000:])
    if r.returncode != 0:
        return 1
    # the sanitizer builds the checks use (cached per source hash): ASan+UBSan, the same with the enum check (C10), TSan (C18)
    for san in ("asan", "asan_enum", "tsan"):
        lib, err = core.build_impl(san)
        if lib is None:
            sys.stderr.write(err[-3000:])
            return 1
    return 0

if __name__ == "__main__":
    sys.exit(main())
