"""Structured generators of the L2 family (EthernetII, Dot3, LLC, SNAP, Dot1Q, MPLS, PPPoE, SLL, Loopback, PPI, PKTAP).

gen_parse: packets built byte by byte here (independently of libtins) + targeted mutants.
gen_build: API programs (new / push / set / show) over stacks and values the protocols can express.
"""
from checks import wire_common as wc
import re, sys

ETHER_RECOGNISED = [0x0800, 0x86dd, 0x0806, 0x8863, 0x8864, 0x888e, 0x8100, 0x88a8, 0x9100, 0x8847]
ETHER_UNKNOWN = [0x0000, 0x0001, 0x05dc, 0x0600, 0x1234, 0x8035, 0x8137, 0x9000, 0xfffe, 0xffff]
LENS = [0, 1, 2, 3, 4, 7, 8, 9, 13, 14, 15, 27, 28, 29, 41, 42, 45, 46, 47, 60, 64]


def hexs(b):
    return bytes(b).hex() if b else "-"


def rb(rng, n):
    return bytes(rng.randrange(256) for _ in range(n))


def be16(v):
    return bytes([(v >> 8) & 255, v & 255])


def be32(v):
    return bytes([(v >> 24) & 255, (v >> 16) & 255, (v >> 8) & 255, v & 255])


def le16(v):
    return bytes([v & 255, (v >> 8) & 255])


def le32(v):
    return bytes([v & 255, (v >> 8) & 255, (v >> 16) & 255, (v >> 24) & 255])


def mac(rng):
    return rng.choice([b"\xff" * 6, bytes(6), rb(rng, 6), b"\x01\x00\x5e" + rb(rng, 3)])


# ------------------------------------------------------------------------------------------------ byte-level builders

def raw_payload(rng, avoid_ip_nibble=False):
    n = rng.choice(LENS + [rng.randint(0, 80)])
    p = bytearray(rb(rng, n))
    if avoid_ip_nibble and p and (p[0] >> 4) in (4, 6):
        p[0] ^= 0x80
    return bytes(p)


def ipv4_udp(rng):
    """a minimal IPv4/UDP packet (checksums left zero: the parsers do not verify them)"""
    pl = rb(rng, rng.choice([0, 1, 4, 18, 26]))
    udp = be16(rng.randrange(65536)) + be16(53) + be16(8 + len(pl)) + be16(0) + pl
    ip = bytes([0x45, 0]) + be16(20 + len(udp)) + be16(rng.randrange(65536)) + be16(0) + bytes([64, 17]) + be16(0) + rb(rng, 4) + rb(rng, 4)
    return ip + udp


def ipv6_udp(rng):
    pl = rb(rng, rng.choice([0, 3, 8]))
    udp = be16(rng.randrange(65536)) + be16(53) + be16(8 + len(pl)) + be16(0) + pl
    return bytes([0x60, 0, 0, 0]) + be16(len(udp)) + bytes([17, 64]) + rb(rng, 16) + rb(rng, 16) + udp


def arp_pkt(rng):
    return be16(1) + be16(0x0800) + bytes([6, 4]) + be16(rng.choice([1, 2])) + rb(rng, 6) + rb(rng, 4) + rb(rng, 6) + rb(rng, 4)


def stp_pkt(rng):
    return be16(0) + bytes([0, 0, rng.randrange(256)]) + rb(rng, 8) + be32(rng.randrange(1 << 32)) + rb(rng, 8) + be16(0x8001) + be16(256) + be16(5120) + be16(512) + be16(3840)


def llc_bytes(rng, payload=None, control=None, stp=False):
    dsap, ssap = (0x42, 0x42) if stp else (rng.randrange(256), rng.randrange(256))
    if not stp and dsap == 0x42 and ssap == 0x42:
        ssap = 0x43
    c0 = rng.randrange(256) if control is None else control
    ctl = bytes([c0]) if c0 & 3 == 3 else bytes([c0, rng.randrange(256)])
    if payload is None:
        payload = stp_pkt(rng) if stp else raw_payload(rng)
    return bytes([dsap, ssap]) + ctl + payload


def pppoe_tags(rng):
    """a well-formed RFC 2516 tag list"""
    out = b""
    for _ in range(rng.choice([0, 1, 1, 2, 3, 5])):
        t = rng.choice([0x0101, 0x0102, 0x0103, 0x0104, 0x0105, 0x0110, 0x0201, 0x0202, 0x0203, 0x0000, rng.randrange(65536)])
        ln = rng.choice([0, 1, 2, 3, 4, 5, 7, 8, 9, 16, 253, 254, 255, 256, rng.randint(0, 40)])
        out += be16(t) + be16(ln) + rb(rng, ln)
    return out


def pppoe_bytes(rng, session=None):
    session = rng.random() < 0.4 if session is None else session
    vt = rng.choice([0x11, 0x11, 0x11, rng.randrange(256)])
    sid = rng.randrange(65536)
    if session:
        pl = raw_payload(rng)
        ln = rng.choice([len(pl), len(pl), len(pl), 0, max(0, len(pl) - 1), len(pl) + 1, 0xffff, rng.randrange(65536)])
        return bytes([vt, 0]) + be16(sid) + be16(ln) + pl + rb(rng, rng.choice([0, 0, 0, 3]))
    code = rng.choice([0x09, 0x07, 0x19, 0x65, 0xa7, rng.randrange(1, 256)])
    tags = pppoe_tags(rng)
    k = rng.random()
    ln = len(tags)
    if k < 0.15 and tags:
        ln = rng.randrange(len(tags))            # payload_length cuts the list somewhere
    elif k < 0.25:
        ln = len(tags) + rng.choice([1, 2, 3, 4, 100])
    elif k < 0.3:
        tags = tags + rb(rng, rng.choice([1, 2, 3]))   # trailing fragment of a tag header
        ln = len(tags)
    elif k < 0.35 and len(tags) >= 4:
        b = bytearray(tags); b[3] = (b[3] + rng.choice([1, 255])) & 255; tags = bytes(b)   # first length field +-1
    return bytes([vt, code]) + be16(sid) + be16(ln & 0xffff) + tags + rb(rng, rng.choice([0, 0, 2]))


def mpls_stack(rng, depth=None):
    depth = rng.choice([1, 1, 2, 3, 5]) if depth is None else depth
    out = b""
    for i in range(depth):
        bos = 1 if i == depth - 1 else 0
        if rng.random() < 0.1:
            bos ^= 1
        label = rng.choice([0, 1, 3, 16, 0xfffff, rng.randrange(1 << 20)])
        exp = rng.randrange(8)
        out += be16(label >> 4) + bytes([((label & 15) << 4) | (exp << 1) | bos, rng.randrange(256)])
        if bos and rng.random() < 0.9:
            break
    k = rng.random()
    if k < 0.3:
        return out + ipv4_udp(rng)
    if k < 0.45:
        return out + ipv6_udp(rng)
    if k < 0.55:
        return out
    return out + raw_payload(rng)


def dot1q_bytes(rng, depth=0):
    tci = (rng.randrange(8) << 13) | (rng.randrange(2) << 12) | rng.choice([0, 1, 0xfff, rng.randrange(4096)])
    et, pl = ether_payload(rng, depth + 1)
    return be16(tci) + be16(et) + pl


def ether_payload(rng, depth=0):
    """(EtherType, payload bytes) for the EtherType-dispatching layers (EthernetII, Dot1Q, SNAP, SLL)"""
    k = rng.random()
    if depth > 3:
        k = 0.9
    if k < 0.12:
        return 0x0800, ipv4_udp(rng)
    if k < 0.18:
        return 0x86dd, ipv6_udp(rng)
    if k < 0.24:
        return 0x0806, arp_pkt(rng)
    if k < 0.36:
        return rng.choice([0x8100, 0x88a8, 0x9100]), dot1q_bytes(rng, depth)
    if k < 0.5:
        s = rng.random() < 0.5
        return (0x8864 if s else 0x8863) if rng.random() < 0.9 else (0x8863 if s else 0x8864), pppoe_bytes(rng, s)
    if k < 0.6:
        return 0x8847, mpls_stack(rng)
    if k < 0.64:
        return 0x888e, rb(rng, rng.choice([0, 3, 4, 40]))
    if k < 0.7:
        return rng.choice(ETHER_RECOGNISED), raw_payload(rng)      # a recognised tag in front of garbage
    return rng.choice(ETHER_UNKNOWN + [rng.randrange(65536)]), raw_payload(rng)


def eth_bytes(rng):
    et, pl = ether_payload(rng)
    return mac(rng) + mac(rng) + be16(et) + pl


def dot3_bytes(rng):
    k = rng.random()
    body = llc_bytes(rng, stp=(k < 0.25)) if k < 0.9 else rb(rng, rng.choice([0, 1, 2, 3]))
    ln = rng.choice([len(body), len(body), 0, 3, rng.randrange(0x600)])
    return mac(rng) + mac(rng) + be16(ln) + body


def snap_bytes(rng):
    et, pl = ether_payload(rng)
    return bytes([rng.choice([0xaa, rng.randrange(256)]), rng.choice([0xaa, rng.randrange(256)]), rng.choice([3, rng.randrange(256)])]) + \
        rng.choice([bytes(3), rb(rng, 3)]) + be16(et) + pl


def sll_bytes(rng):
    et, pl = ether_payload(rng)
    return be16(rng.choice([0, 1, 4, rng.randrange(65536)])) + be16(rng.choice([1, 772, rng.randrange(65536)])) + \
        be16(rng.choice([6, 0, 8, rng.randrange(65536)])) + rb(rng, 8) + be16(et) + pl


def loopback_bytes(rng):
    fam = rng.choice([2, 10, 26, 0, 1, 24, 28, 30, 0x02000000, rng.randrange(1 << 32)])
    k = rng.random()
    if k < 0.12:
        body = b""
    elif fam == 2 and k < 0.8:
        body = ipv4_udp(rng)
    elif fam == 10 and k < 0.8:
        body = ipv6_udp(rng)
    elif fam == 26 and k < 0.9:
        body = llc_bytes(rng, stp=(rng.random() < 0.2))
    else:
        body = raw_payload(rng)
    return le32(fam) + body


def ppi_fields(rng):
    """a PPI field list as the PPI specification lays it out: (pfh_type, pfh_datalen, data) triples, little endian; the
    802.11-Common field (type 2, 20 bytes: TSF timer 8, flags 2 with bit 0 = FCS at end, rate, channel, …) usually first"""
    out = b""
    kinds = rng.choice([[2], [2, 3], [3, 2], [4, 2, 5], [rng.randrange(65536)], [2, 2], [30002, 2]])
    for t in kinds:
        if t == 2:
            d = bytearray(rb(rng, 20)); d[8] = rng.choice([0, 1, 1, 0xff, d[8]]); d = bytes(d)
        else:
            d = rb(rng, rng.choice([0, 1, 4, 12, 48]))
        declared = len(d) if rng.random() < 0.8 else rng.choice([0, 8, 9, 20, len(d) + 1, 0xffff])
        out += le16(t) + le16(declared) + d
    return out


def ppi_bytes(rng):
    dlt = rng.choice([0, 1, 1, 105, 105, 113, 127, 192, 147, rng.randrange(300), rng.randrange(1 << 32)])
    if rng.random() < 0.5:
        data = ppi_fields(rng)
        if rng.random() < 0.5:                              # pph_len ends inside the field list
            data = data[:rng.randrange(len(data) + 1)]
    else:
        data = rb(rng, rng.choice([0, 0, 1, 12, 13, 20, 24, 32]))
        if len(data) >= 13:
            b = bytearray(data); b[12] = rng.choice([0, 1, 1, 0xff, b[12]]); data = bytes(b)
    if dlt == 1:
        body = dot3_bytes(rng) if rng.random() < 0.4 else eth_bytes(rng)
    elif dlt == 0:
        body = loopback_bytes(rng)
    elif dlt == 113:
        body = sll_bytes(rng)
    elif dlt == 105:
        body = rb(rng, rng.choice([0, 1, 3, 4, 5, 10, 14, 24, 30]))
    else:
        body = raw_payload(rng)
    ln = 8 + len(data)
    k = rng.random()
    if k < 0.06:
        ln = rng.choice([0, 7, 8])
    elif k < 0.12:
        ln = 8 + len(data) + len(body) + rng.choice([0, 1, 50])
    return bytes([rng.choice([0, rng.randrange(256)]), rng.choice([0, 1, rng.randrange(256)])]) + le16(ln & 0xffff) + le32(dlt) + data + body


def pktap_header(rng, length, nxt, dlt):
    return le32(length) + le32(nxt) + le32(dlt) + rb(rng, 24) + rb(rng, 20) + rb(rng, 20) + rb(rng, 12) + rb(rng, 20)


def pktap_push_ops(rng):
    """`push PKTAP <hex>` runs the parsing constructor (the central harness has no `parse PKTAP`); a single push cannot
    express an inner chain, so only frames without inner PDU: next == 0, or nothing after the header, or malformed"""
    extra = rng.choice([0, 0, 4, 20])
    k = rng.random()
    if k < 0.35:
        b = pktap_header(rng, 108 + extra, 0, rng.choice([0, 1, 113, 192, 5])) + rb(rng, extra) + raw_payload(rng)
    elif k < 0.6:
        b = pktap_header(rng, 108 + extra, rng.randrange(1, 1 << 32), rng.choice([0, 1, 113, 192, 5])) + rb(rng, extra)
    elif k < 0.8:
        b = pktap_header(rng, rng.choice([0, 107, 108 + extra + 1, 0xffffffff, 1 << 31]), 1, 1) + rb(rng, extra)
    else:
        b = pktap_header(rng, 108, 1, 1)[:rng.choice([0, 1, 4, 8, 12, 107])]
    return ["new", "push PKTAP " + hexs(b), "show"]


BUILDERS = {
    "EthernetII": eth_bytes, "Dot3": dot3_bytes, "LLC": lambda r: llc_bytes(r, stp=(r.random() < 0.2)), "SNAP": snap_bytes,
    "Dot1Q": dot1q_bytes, "MPLS": mpls_stack, "PPPoE": pppoe_bytes, "SLL": sll_bytes, "Loopback": loopback_bytes,
    "PPI": ppi_bytes,
}


def mutate(rng, b):
    b = bytearray(b)
    if not b:
        return bytes(b)
    k = rng.random()
    if k < 0.35:
        return bytes(b[:rng.randrange(len(b) + 1)])
    if k < 0.6:
        i = rng.randrange(len(b)); b[i] ^= 1 << rng.randrange(8)
        return bytes(b)
    if k < 0.8:
        i = rng.randrange(min(len(b), 24)); b[i] = rng.choice([0, 1, 2, 3, 4, 7, 8, 0x42, 0x7f, 0x80, 0xaa, 0xfe, 0xff])
        return bytes(b)
    return bytes(b) + rb(rng, rng.choice([1, 2, 4, 46]))


def exhaustive_small():
    """every value of the 1-byte control / tag fields of the family, at the shortest lengths that reach them"""
    ops = []
    for c0 in range(256):                                   # LLC control octet (all 2-bit formats, all modifier bits)
        for tail in (b"", b"\x00", b"\x7f\x01", b"\xff\xee\xdd"):
            ops.append("parse LLC " + hexs(bytes([0xaa, 0xab, c0]) + tail))
    for c0 in (0x00, 0x02, 0x01, 0x03, 0xfe, 0xfd, 0xff):
        ops.append("parse LLC " + hexs(bytes([0x42, 0x42, c0]) + bytes(40)))
        ops.append("parse Dot3 " + hexs(bytes(12) + be16(3) + bytes([1, 2, c0, 9, 9])))
    for b2 in range(256):                                   # MPLS label-low/exp/bottom octet in front of v4 / v6 / other
        for first in (0x45, 0x60, 0x00):
            ops.append("parse MPLS " + hexs(bytes([0x12, 0x34, b2, 0x40, first, 1, 2, 3])))
    for b0 in range(0, 256, 5):                             # Dot1Q priority/cfi/idH octet
        ops.append("parse Dot1Q " + hexs(bytes([b0, 0x5a, 0x12, 0x34, 0xde, 0xad])))
    for vt in range(0, 256, 7):                             # PPPoE version/type octet, both kinds
        ops.append("parse PPPoE " + hexs(bytes([vt, 0]) + be16(7) + be16(2) + b"\xc0\x21"))
        ops.append("parse PPPoE " + hexs(bytes([vt, 9]) + be16(0) + be16(4) + be16(0x0101) + be16(0)))
    for fam in range(0, 40):                                # Loopback family word
        ops.append("parse Loopback " + hexs(le32(fam)))
        ops.append("parse Loopback " + hexs(le32(fam) + bytes([0x00, 0x01, 0x03, 0x99])))
    for et in ETHER_RECOGNISED + ETHER_UNKNOWN:             # every dispatching tag in front of nothing / one byte
        for cls, pre in (("EthernetII", bytes(12)), ("SNAP", bytes([0xaa, 0xaa, 3, 0, 0, 0])), ("SLL", bytes(14)), ("Dot1Q", bytes(2))):
            ops.append(f"parse {cls} " + hexs(pre + be16(et)))
            ops.append(f"parse {cls} " + hexs(pre + be16(et) + b"\x01"))
    for code in (0, 9):                                     # PPPoE: a length field that promises bytes the capture lacks
        for ln in (1, 4, 5, 6, 46, 0xffff):
            ops.append("parse PPPoE " + hexs(bytes([0x11, code]) + be16(1) + be16(ln)))
            ops.append("parse EthernetII " + hexs(bytes(12) + be16(0x8863 if code else 0x8864) + bytes([0x11, code]) + be16(1) + be16(ln)))
    for ln in (0, 1, 2, 3, 4, 5, 7, 8, 9, 255, 256):       # PPPoE: one tag, length field vs bytes present
        for present in (ln, max(0, ln - 1), ln + 1):
            ops.append("parse PPPoE " + hexs(bytes([0x11, 9]) + be16(0) + be16(4 + present) + be16(0x0105) + be16(ln) + bytes(present)))
    # PPI over 802.11: pph_len cut at every position of a field list (802.11-Common first / second, FCS-at-end flag set),
    # in front of a short frame — a parser that walks the field headers must not trust pfh_datalen beyond pph_len
    common = le16(2) + le16(20) + bytes(8) + b"\x01\x00" + bytes(10)
    other = le16(3) + le16(12) + bytes(12)
    frame = bytes([0xd4, 0, 0, 0, 1, 2, 3, 4, 5, 6]) + bytes(4)
    for fl in (common + other, other + common, common):
        for cut in range(len(fl) + 1):
            ops.append("parse PPI " + hexs(bytes([0, 0]) + le16(8 + cut) + le32(105) + fl[:cut] + frame))
    for dlt in (0, 1, 105, 113, 127, 192, 9):               # PPI: every dispatch target on short frames
        for body in (b"", b"\x00", bytes(12) + b"\x07", bytes(12) + b"\x08", bytes(16)):
            ops.append("parse PPI " + hexs(bytes([0, 0]) + le16(8) + le32(dlt) + body))
            ops.append("parse PPI " + hexs(bytes([0, 0]) + le16(21) + le32(dlt) + bytes(12) + b"\x01" + body))
    return ops


def gen_parse(rng, n):
    ops = list(exhaustive_small())
    names = list(BUILDERS)
    while len(ops) < n + len(exhaustive_small()):
        c = rng.choice(names)
        b = BUILDERS[c](rng)
        k = rng.random()
        if k < 0.45:
            ops.append(f"parse {c} {hexs(b)}")
        elif k < 0.9:
            for _ in range(rng.choice([1, 1, 2])):
                b = mutate(rng, b)
            ops.append(f"parse {c} {hexs(b)}")
        else:                                               # every prefix of a structured packet (bounded)
            step = max(1, len(b) // 24)
            for i in range(0, len(b) + 1, step):
                ops.append(f"parse {c} {hexs(b[:i])}")
    return ops


# ------------------------------------------------------------------------------------------------ API programs

def running_property():
    for a in sys.argv[1:]:
        if re.fullmatch(r"C0[1-4]", a):
            return a
    return None


def unrec_ether(rng):
    return rng.choice(ETHER_UNKNOWN + [rng.randrange(65536)]) if True else 0


def unrecognised(rng):
    while True:
        v = unrec_ether(rng)
        if v not in ETHER_RECOGNISED:
            return v


def api_raw(rng, avoid_ip_nibble=False, nonempty=False):
    p = raw_payload(rng, avoid_ip_nibble)
    if nonempty and not p:
        p = b"\x99"
    return p


class Prog:
    def __init__(self, rng):
        self.rng = rng
        self.ops = ["new"]
        self.layers = []

    def push(self, cls, *args):
        self.ops.append(" ".join(["push", cls] + [str(a) for a in args]))
        self.layers.append(cls)
        return len(self.layers) - 1

    def set(self, idx, *op):
        self.ops.append(" ".join(["set", str(idx)] + [str(a) for a in op]))
        if self.rng.random() < 0.15:
            self.ops.append("show")

    def done(self):
        self.ops.append("show")
        return self.ops


def eth_setters(rng, p, i, free_tag):
    for _ in range(rng.randint(0, 3)):
        k = rng.randrange(3)
        if k == 0:
            p.set(i, "dst_addr", mac(rng).hex())
        elif k == 1:
            p.set(i, "src_addr", mac(rng).hex())
        elif free_tag:
            p.set(i, "payload_type", unrecognised(rng))


def dot1q_setters(rng, p, i, free_tag):
    for _ in range(rng.randint(0, 4)):
        k = rng.randrange(5)
        if k == 0:
            p.set(i, "priority", rng.randrange(8))
        elif k == 1:
            p.set(i, "cfi", rng.randrange(2))
        elif k == 2:
            p.set(i, "id", rng.choice([0, 1, 255, 256, 4095, rng.randrange(4096)]))
        elif k == 3:
            p.set(i, "append_padding", rng.randrange(2))
        elif free_tag:
            p.set(i, "payload_type", unrecognised(rng))


def mpls_setters(rng, p, i):
    for _ in range(rng.randint(0, 4)):
        k = rng.randrange(3)
        if k == 0:
            p.set(i, "label", rng.choice([0, 15, 16, 0xfffff, rng.randrange(1 << 20)]))
        elif k == 1:
            p.set(i, "experimental", rng.randrange(8))
        else:
            p.set(i, "ttl", rng.randrange(256))


def llc_dsap(rng):
    """an LLC whose SAPs are both 0x42 announces STP: API programs that put raw bytes behind an LLC keep the DSAP off it"""
    v = rng.randrange(256)
    return 0x44 if (v & 0xfe) == 0x42 else v          # `group(false)` would turn 0x43 into 0x42


def llc_setters(rng, p, i):
    for _ in range(rng.randint(0, 6)):
        k = rng.randrange(10)
        if k == 0:
            p.set(i, "type", rng.choice([0, 1, 3]))
        elif k == 1:
            p.set(i, "send_seq_number", rng.choice([0, 1, 2, 63, 64, 127, rng.randrange(256)]))
        elif k == 2:
            p.set(i, "receive_seq_number", rng.choice([0, 1, 127, rng.randrange(256)]))
        elif k == 3:
            p.set(i, "poll_final", rng.randrange(2))
        elif k == 4:
            p.set(i, "supervisory_function", rng.randrange(3))
        elif k == 5:
            p.set(i, "modifier_function", rng.choice([0, 0x1d, 0x07, 0x1e, 0x02, 0x06, 0x18, 0x11]))
        elif k == 6:
            p.set(i, "group", rng.randrange(2))
        elif k == 7:
            p.set(i, "response", rng.randrange(2))
        elif k == 8:
            p.set(i, "dsap", llc_dsap(rng))
        else:
            p.set(i, "ssap", rng.randrange(256))


def pppoe_tag_ops(rng, p, i):
    for _ in range(rng.choice([0, 1, 2, 3, 6])):
        ln = rng.choice([0, 1, 2, 3, 4, 6, 7, 8, 9, 10, 16, 254, 255, 256, rng.randint(0, 40)])
        k = rng.randrange(13)
        names = ["service_name", "ac_name", "host_uniq", "ac_cookie", "relay_session_id", "service_name_error",
                 "ac_system_error", "generic_error"]
        if k < 8:
            p.set(i, names[k], hexs(wc.textish(rng, ln)))
        elif k == 8:
            p.set(i, "vendor_specific", rng.choice([0, 1, 0xffffffff, rng.randrange(1 << 32)]), hexs(rb(rng, ln)))
        elif k == 9:
            p.set(i, "end_of_list")
        else:
            p.set(i, rng.choice(["add_tag", "add_tag_copy"]), rng.choice([0x0101, 0x0501, 0x1001, rng.randrange(65536)]), hexs(rb(rng, ln)))


def build_one(rng, pid):
    p = Prog(rng)
    kind = rng.randrange(14)
    if kind == 0:                                           # EthernetII [/ Dot1Q [/ Dot1Q]] / Raw
        e = p.push("EthernetII", *( [mac(rng).hex(), mac(rng).hex()] if rng.random() < 0.5 else [] ))
        nq = rng.choice([0, 1, 1, 2])
        qs = [p.push("Dot1Q", *( [rng.randrange(4096), rng.randrange(2)] if rng.random() < 0.7 else [] )) for _ in range(nq)]
        has_raw = rng.random() < 0.85
        if has_raw:
            p.push("RawPDU", hexs(api_raw(rng)))
        eth_setters(rng, p, e, free_tag=(nq == 0 and has_raw))
        for j, q in enumerate(qs):
            dot1q_setters(rng, p, q, free_tag=(j == nq - 1 and has_raw))
    elif kind == 1:                                         # [EthernetII /] PPPoE discovery with tags
        top = rng.random() < 0.6
        if top:
            p.push("EthernetII")
        i = p.push("PPPoE")
        p.set(i, "code", rng.choice([0x09, 0x07, 0x19, 0x65, 0xa7]))
        if rng.random() < 0.5:
            p.set(i, "session_id", rng.randrange(65536))
        pppoe_tag_ops(rng, p, i)
    elif kind == 2:                                         # [EthernetII /] PPPoE session / Raw
        if rng.random() < 0.6:
            p.push("EthernetII")
        i = p.push("PPPoE")
        p.set(i, "session_id", rng.randrange(65536))
        if rng.random() < 0.3:
            p.set(i, "version", rng.randrange(16)); p.set(i, "type", rng.randrange(16))
        p.push("RawPDU", hexs(api_raw(rng, nonempty=True)))
    elif kind == 3:                                         # EthernetII / MPLS* / Raw   (the parent makes the last label bottom-of-stack)
        e = p.push("EthernetII")
        ms = [p.push("MPLS") for _ in range(rng.choice([1, 1, 2, 3]))]
        if rng.random() < 0.8:
            p.push("RawPDU", hexs(api_raw(rng, avoid_ip_nibble=True)))
            # the label in front of the payload is the bottom of the stack: say so (libtins sets the bit itself when the
            # MPLS has a parent, but the getter only shows it after serialization)
            p.ops.append(f"set {ms[-1]} bottom_of_stack 1")
        for m in ms:
            mpls_setters(rng, p, m)
        eth_setters(rng, p, e, free_tag=False)
    elif kind == 4:                                         # MPLS outermost: no parent, so the program sets the bottom bit itself
        ms = [p.push("MPLS") for _ in range(rng.choice([1, 2, 3]))]
        p.push("RawPDU", hexs(api_raw(rng, avoid_ip_nibble=True, nonempty=True)))
        p.ops.append(f"set {ms[-1]} bottom_of_stack 1")
        for m in ms:
            mpls_setters(rng, p, m)
    elif kind == 5:                                         # Dot3 / LLC / Raw
        d = p.push("Dot3", *( [mac(rng).hex(), mac(rng).hex()] if rng.random() < 0.5 else [] ))
        l = p.push("LLC", *( [llc_dsap(rng), rng.randrange(256)] if rng.random() < 0.6 else [] ))
        if rng.random() < 0.8:
            p.push("RawPDU", hexs(api_raw(rng)))
        llc_setters(rng, p, l)
        if rng.random() < 0.3:
            p.set(d, "length", rng.randrange(65536))
    elif kind == 6:                                         # LLC outermost (+ XID information fields)
        l = p.push("LLC", llc_dsap(rng), rng.randrange(256))
        if rng.random() < 0.7:
            p.push("RawPDU", hexs(api_raw(rng)))
        llc_setters(rng, p, l)
        if rng.random() < 0.35:
            p.set(l, "type", 3); p.set(l, "modifier_function", 0x1d)
            for _ in range(rng.choice([1, 1, 2, 3])):
                p.set(l, "add_xid_information", 0x81, rng.randrange(256), rng.randrange(256))
            if rng.random() < 0.3:
                p.set(l, "clear_information_fields")
    elif kind == 7:                                         # SNAP / Raw, SNAP / Dot1Q / Raw
        s = p.push("SNAP")
        if rng.random() < 0.15:                             # SNAP / PPPoE session
            i = p.push("PPPoE"); p.push("RawPDU", hexs(api_raw(rng, nonempty=True)))
            p.set(s, "org_code", rng.randrange(1 << 24))
            return p.done()
        inner_q = rng.random() < 0.3
        if inner_q:
            q = p.push("Dot1Q", rng.randrange(4096), 0)
        has_raw = rng.random() < 0.9
        if has_raw:
            p.push("RawPDU", hexs(api_raw(rng)))
        for _ in range(rng.randint(0, 3)):
            k = rng.randrange(3)
            if k == 0:
                p.set(s, "control", rng.randrange(256))
            elif k == 1:
                p.set(s, "org_code", rng.choice([0, 1, 0xffffff, 0x00000c, rng.randrange(1 << 24)]))
            elif not inner_q:
                p.set(s, "eth_type", unrecognised(rng))
        if inner_q and has_raw:
            p.set(q, "payload_type", unrecognised(rng))
    elif kind == 8:                                         # SLL / Raw, SLL / Dot1Q|MPLS|PPPoE …
        s = p.push("SLL")
        k = rng.random()
        free = False
        if k < 0.2:
            q = p.push("Dot1Q", rng.randrange(4096), 0); p.push("RawPDU", hexs(api_raw(rng, nonempty=True)))
            p.set(q, "payload_type", unrecognised(rng))
        elif k < 0.35:
            m = p.push("MPLS"); p.push("RawPDU", hexs(api_raw(rng, avoid_ip_nibble=True)))
            p.ops.append(f"set {m} bottom_of_stack 1"); mpls_setters(rng, p, m)
        elif k < 0.5:                                       # PPPoE behind SLL: session (0x8864) or discovery (0x8863)
            i = p.push("PPPoE")
            if rng.random() < 0.5:
                p.push("RawPDU", hexs(api_raw(rng, nonempty=True)))
            else:
                p.ops.append(f"set {i} code 9"); pppoe_tag_ops(rng, p, i)
        elif k < 0.9:
            p.push("RawPDU", hexs(api_raw(rng))); free = True
        for _ in range(rng.randint(0, 4)):
            j = rng.randrange(5)
            if j == 0:
                p.set(s, "packet_type", rng.randrange(65536))
            elif j == 1:
                p.set(s, "lladdr_type", rng.randrange(65536))
            elif j == 2:
                p.set(s, "lladdr_len", rng.randrange(65536))
            elif j == 3:
                p.set(s, "address", rb(rng, 8).hex())
            elif free:
                p.set(s, "protocol", unrecognised(rng))
    elif kind == 9:                                         # Loopback / LLC / Raw, Loopback / Raw
        lo = p.push("Loopback")
        if rng.random() < 0.5:
            l = p.push("LLC", llc_dsap(rng), rng.randrange(256))
            p.push("RawPDU", hexs(api_raw(rng)))
            llc_setters(rng, p, l)
        else:
            p.push("RawPDU", hexs(api_raw(rng)))
            p.set(lo, "family", rng.choice([0, 1, 3, 24, 30, rng.randrange(27, 1 << 32)]))
    elif kind == 10:                                        # Dot1Q outermost with padding on the 50-byte boundary
        q = p.push("Dot1Q", rng.randrange(4096), 1)
        p.push("RawPDU", hexs(rb(rng, rng.choice([0, 1, 44, 45, 46, 47, 48, 60]))))
        dot1q_setters(rng, p, q, free_tag=True)
    elif kind == 11:                                        # layers of other families (only effective once they are merged)
        e = p.push("EthernetII")
        c = rng.choice(["IP", "IPv6", "ARP"])
        p.push(c)
        eth_setters(rng, p, e, free_tag=False)
    elif kind == 12:                                        # EthernetII / Dot1Q / MPLS / Raw, EthernetII / Dot1Q / PPPoE
        p.push("EthernetII")
        q = p.push("Dot1Q", rng.randrange(4096), rng.randrange(2))
        if rng.random() < 0.5:
            m = p.push("MPLS"); p.push("RawPDU", hexs(api_raw(rng, avoid_ip_nibble=True)))
            p.ops.append(f"set {m} bottom_of_stack 1"); mpls_setters(rng, p, m)
        elif rng.random() < 0.5:
            i = p.push("PPPoE"); p.set(i, "code", 0x09); pppoe_tag_ops(rng, p, i)
        else:                                               # session stage behind a VLAN tag: EtherType 0x8864
            i = p.push("PPPoE"); p.push("RawPDU", hexs(api_raw(rng, nonempty=True))); p.set(i, "session_id", rng.randrange(65536))
        dot1q_setters(rng, p, q, free_tag=False)
    else:                                                   # single layers, all setters
        c = rng.choice(["EthernetII", "Dot3", "SNAP", "Dot1Q", "MPLS", "PPPoE", "SLL", "Loopback", "LLC"])
        i = p.push(c)
        if c == "EthernetII":
            eth_setters(rng, p, i, free_tag=False)
        elif c == "Dot1Q":
            dot1q_setters(rng, p, i, free_tag=False)
        elif c == "MPLS":
            mpls_setters(rng, p, i)
        elif c == "LLC":
            llc_setters(rng, p, i)
        elif c == "PPPoE":
            p.set(i, "payload_length", rng.randrange(65536))
    return p.done()


def big_programs(rng, pid):
    """size accounting beyond the width of the cached counters (C02 only: such packets have no wire representation,
    so C04's read-back clause does not apply to them)"""
    out = []
    if pid != "C02":
        return out
    # PPPoE: tags_size_ beyond 16 bits (2 x 33000 bytes)
    p = Prog(rng)
    if rng.random() < 0.5:
        p.push("EthernetII")
    i = p.push("PPPoE")
    p.ops.append(f"set {i} code 9")
    for _ in range(2):
        p.ops.append(f"set {i} add_tag 261 " + hexs(rb(rng, 33000)))
    if rng.random() < 0.5:
        p.push("RawPDU", hexs(rb(rng, 5)))
    out += p.done()
    # PPPoE: a single tag larger than PDUOption can hold is rejected
    p = Prog(rng)
    i = p.push("PPPoE")
    p.ops.append(f"set {i} add_tag 257 " + hexs(bytes(65536)))
    out += p.done()
    # LLC: information_field_length_ beyond 8 bits (86 x 3 bytes)
    p = Prog(rng)
    l = p.push("LLC", 1, 2)
    p.ops.append(f"set {l} type 3")
    for k in range(rng.choice([85, 86, 90])):
        p.ops.append(f"set {l} add_xid_information 129 {k % 256} {rng.randrange(256)}")
    if rng.random() < 0.5:
        p.push("RawPDU", hexs(rb(rng, 7)))
    out += p.done()
    return out


def gen_build(rng, n):
    pid = running_property()
    ops = []
    ops += big_programs(rng, pid)
    # LLC information fields (known finding KF-C04-L2-1: the parser does not re-create them) — reproduced on every run
    ops += ["new", "push LLC 170 171", "set 0 type 3", "set 0 modifier_function 29", "set 0 add_xid_information 129 1 8", "show"]
    # Dot1Q::append_padding_ is not on the wire (known finding KF-C04-L2-4): a length-delimited payload does not absorb the
    # padding, so the re-parsed packet serializes without it
    ops += ["new", "push Dot1Q 67 1", "push PPPoE", "push RawPDU 07a6ad9e19", "show"]
    for _ in range(3):
        ops += pktap_push_ops(rng)
    while len(ops) < n:
        if rng.random() < 0.03:
            ops += pktap_push_ops(rng)
        else:
            ops += build_one(rng, pid)
    return ops


# ------------------------------------------------------------------------------------------------ known-finding signatures

def padded_dot1q(case):
    """does the program leave some Dot1Q with append_padding switched on?"""
    state = {}
    idx = -1
    for l in case:
        w = l.split(" ")
        if w[0] == "new":
            state, idx = {}, -1
        elif w[0] == "push":
            idx += 1
            if w[1] == "Dot1Q":
                state[idx] = (len(w) < 4) or w[3] == "1"        # default constructor pads
        elif w[0] == "set" and len(w) == 4 and w[2] == "append_padding" and int(w[1]) in state:
            state[int(w[1])] = w[3] == "1"
    return any(state.values())


def refine_sig(sig, case, detail):
    """narrowing keys computed from the minimised case"""
    text = "\n".join(case)
    if sig.get("class") == "api" and "add_xid_information" in text and "push LLC" in text:
        sig = dict(sig, when="llc-xid-information-fields-not-parsed")
    elif (sig.get("class") == "api" and sig.get("clause") == "reserialize-fixpoint" and "push PPPoE" in text
          and padded_dot1q(case)):
        sig = dict(sig, when="dot1q-append-padding-not-on-wire")
    return sig
