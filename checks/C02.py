"""C02 — see DESIGN.md §6 C02. Shares harness/wire_main.cpp and the Lean wire model with C01–C04."""
from checks import wire_checks

LEVEL = "proof"
MANIFEST = dict(
    text="Lean 4: generic theorems over chains of any depth (serialize total and size-exact; the bytes of every sub-chain appear unmodified at "
         "their offset) reduce C02 to one per-class obligation (size function = bytes written, for every option list reachable by parsing or "
         "through the API), proved for all seven families and assembled into the unconditional theorems parsed_packet_serializes / "
         "parsed_packet_layers_never_overwrite (every accepted packet without PPI/PKTAP) and built_packet_* (every stack of objects satisfying "
         "the invariants the constructors establish and the API calls preserve). The guarded serialize monitor hook reports cross-layer "
         "overwrites in the implementation for every class; serialize() is run twice on the same object.",
    note="The theorems are about hand-written, code-shaped Lean models of 53 entry classes in seven families (link layers, IPv4 + options / AH / ESP, "
         "IPv6 + extension headers, TCP + options / UDP, ICMP / ICMPv6 + extensions, DHCP / DHCPv6 / BootP / RTP / VXLAN / ARP / STP, 802.11 / "
         "RadioTap / EAPOL; list in the evidence: modelled_classes); the tie to the C++ is differential correspondence of every line under "
         "ASan/UBSan/LSan plus the Lean spec oracle evaluated on the implementation's own output; DNS as an entry class and the paths "
         "the model cannot express (host routing table in IP::prepare_for_serialize, EAPOL null result) get the implementation-side oracle "
         "only (evidence: unmodelled_lines). Trusted: Lean kernel + propext/Classical.choice/Quot.sound, the models, harness, generators, "
         "translator/gen_tags.py; allocator / lifetime behaviour is observed by the sanitizers, not proved.",
    technique="Lean 4 proof over executable byte-level models + model/impl correspondence + spec oracle on impl output",
    design="DESIGN.md §6 C02")
MANIFEST["note"] += (" Constants and limits of the C++ source that the model restates (translator/gen_limits.py -> Gen/Limits.lean: "
                     "compiled probe + preprocessed function bodies at named anchors) are tied to the model's numerals by the "
                     "theorems of lean/TinsModel/Props/Limits/Wire.lean (audit: Audit/LimitsWire.lean); tools/LIMITS-INVENTORY.md lists "
                     "what is tied and what is not.")


def run(chk):
    wire_checks.run_property(chk, "C02", want_parse=True, want_build=True)


def replay(path):
    return wire_checks.replay("C02", path)
