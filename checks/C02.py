"""C02 — see DESIGN.md §6 C02. Shares harness/wire_main.cpp and the Lean wire model with C01–C04."""
from checks import wire_checks

LEVEL = "proof"
MANIFEST = dict(
    text="Generic Lean theorems over chains of any depth (serialize is total and size-exact; no layer overwrites another) reduce C02 to a per-layer obligation WritesOnly, proved for the modelled layers; the guarded serialize monitor hook reports cross-layer overwrites in the implementation for every class.",
    note="Proof covers the Lean models of the classes listed in the evidence (modelled_classes) and the generic backbone; "
         "the tie is differential correspondence under sanitizers; unmodelled classes get the implementation-side oracle only. "
         "Trusted: Lean kernel + standard axioms, hand-written models, harness, generators, translator/gen_tags.py.",
    technique="Lean 4 proof over executable byte-level models + model/impl correspondence + spec oracle on impl output",
    design="DESIGN.md §6 C02")


def run(chk):
    wire_checks.run_property(chk, "C02", want_parse=True, want_build=True)


def replay(path):
    return wire_checks.replay("C02", path)
